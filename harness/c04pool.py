"""C04 helper (used by harness/props/C04.py only): a pool of REAL x509 certificates and of REAL completed
DTLS connections, built once per process with the libraries aiortc itself uses (cryptography, pyOpenSSL).

Certificates
    * `lib`      : made by `RTCCertificate.generateCertificate()` (what aiortc signals itself);
    * `clone`    : a DIFFERENT key pair under the same serial number, subject, issuer and validity as a `lib`
                   certificate (what an impostor can copy from the public certificate);
    * `rekey`    : the SAME key pair as a `lib` certificate under another serial number / subject;
    * `resigned` : same key pair and same to-be-signed bytes as a `lib` certificate, signed again (ECDSA is
                   randomised, so the DER and therefore every fingerprint differs);
    * `ff`       : a certificate whose sha-256/384/512 digests all contain the byte 0xFF (for the U+FB00
                   "ﬀ".upper() == "FF" corruption);
    * `rsa`      : RSA-2048 / sha256WithRSA (function-level only: aiortc's cipher list is ECDSA-only).
Every certificate of the pool has a distinct DER encoding; `twins` lists the pairs that share attributes.

Connections
    `handshakes()` completes one in-memory DTLS handshake (pyOpenSSL memory BIOs, `use_srtp` offered) per
    certificate, so that for every certificate `i` there is a genuine post-handshake `SSL.Connection` whose
    peer certificate is `i` — the function-level components hand these to the real methods instead of stubs.
"""
from __future__ import annotations

import datetime
import hashlib

_POOL: dict = {}

HASHES = {"sha-256": hashlib.sha256, "sha-384": hashlib.sha384, "sha-512": hashlib.sha512}  # property text


def der(cert) -> bytes:
    from cryptography.hazmat.primitives import serialization
    return cert.public_bytes(serialization.Encoding.DER)


def true_digests(cert) -> dict:
    """Digests of the certificate computed from its DER bytes with hashlib (independent of aiortc and of
    `x509.Certificate.fingerprint`)."""
    d = der(cert)
    return {a: h(d).digest() for a, h in HASHES.items()}


def _build(key, subject, issuer, serial, nb, na, sign_key=None):
    from cryptography import x509
    from cryptography.hazmat.primitives import hashes
    b = (x509.CertificateBuilder().subject_name(subject).issuer_name(issuer).public_key(key.public_key())
         .serial_number(serial).not_valid_before(nb).not_valid_after(na))
    return b.sign(sign_key or key, hashes.SHA256())


def _name(cn):
    from cryptography import x509
    return x509.Name([x509.NameAttribute(x509.NameOID.COMMON_NAME, cn)])


def pool(M):
    """-> {"certs": [entry], "twins": [(i, j, kind)]}; entry = {"kind", "key", "cert", "rtc", "dg", "of"}."""
    if "certs" in _POOL:
        return _POOL
    from cryptography import x509
    from cryptography.hazmat.primitives.asymmetric import ec, rsa
    certs, twins = [], []

    def add(kind, key, cert, of=None):
        certs.append({"kind": kind, "key": key, "cert": cert, "rtc": M.RTCCertificate(key=key, cert=cert),
                      "dg": true_digests(cert), "of": of})
        return len(certs) - 1

    for _ in range(4):
        c = M.RTCCertificate.generateCertificate()
        certs.append({"kind": "lib", "key": c._key, "cert": c._cert, "rtc": c, "dg": true_digests(c._cert), "of": None})
    for i in (0, 1):
        base = certs[i]["cert"]
        k = ec.generate_private_key(ec.SECP256R1())
        j = add("clone", k, _build(k, base.subject, base.issuer, base.serial_number,
                                   base.not_valid_before_utc, base.not_valid_after_utc), of=i)
        twins.append((i, j, "clone"))
    base = certs[2]
    now = datetime.datetime.now(tz=datetime.timezone.utc)
    j = add("rekey", base["key"], _build(base["key"], _name("rekeyed"), _name("rekeyed"), x509.random_serial_number(),
                                         now - datetime.timedelta(days=2), now + datetime.timedelta(days=20)), of=2)
    twins.append((2, j, "rekey"))
    base = certs[3]
    bc = base["cert"]
    rs = _build(base["key"], bc.subject, bc.issuer, bc.serial_number, bc.not_valid_before_utc, bc.not_valid_after_utc)
    if der(rs) != der(bc):
        j = add("resigned", base["key"], rs, of=3)
        twins.append((3, j, "resigned"))
    # digests containing 0xFF under all three hashes
    k = ec.generate_private_key(ec.SECP256R1())
    best = None
    for n in range(4000):
        c = _build(k, _name("ff"), _name("ff"), 1000 + n, now - datetime.timedelta(days=1), now + datetime.timedelta(days=30))
        score = sum(1 for d in true_digests(c).values() if 0xFF in d)
        if best is None or score > best[0]:
            best = (score, c)
        if score == 3:
            break
    add("ff", k, best[1])
    # a second certificate with the ff certificate's serial number (clone of a non-library certificate)
    k2 = ec.generate_private_key(ec.SECP256R1())
    fc = certs[-1]["cert"]
    j = add("clone", k2, _build(k2, fc.subject, fc.issuer, fc.serial_number, fc.not_valid_before_utc, fc.not_valid_after_utc),
            of=len(certs) - 1)
    twins.append((len(certs) - 2, j, "clone"))
    rk = rsa.generate_private_key(public_exponent=65537, key_size=2048)
    add("rsa", rk, _build(rk, _name("rsa"), _name("rsa"), x509.random_serial_number(),
                          now - datetime.timedelta(days=1), now + datetime.timedelta(days=30)))
    assert len({der(e["cert"]) for e in certs}) == len(certs)
    _POOL.update({"certs": certs, "twins": twins})
    return _POOL


def ec_indexes(M):
    """Certificates usable on a real aiortc transport (ECDSA cipher suites only)."""
    return [i for i, e in enumerate(pool(M)["certs"]) if e["kind"] != "rsa"]


def _context(entry, profiles: bytes):
    from OpenSSL import SSL
    ctx = SSL.Context(SSL.DTLS_METHOD)
    ctx.set_verify(SSL.VERIFY_PEER | SSL.VERIFY_FAIL_IF_NO_PEER_CERT, lambda *args: True)
    ctx.use_certificate(entry["cert"])
    ctx.use_privatekey(entry["key"])
    ctx.set_tlsext_use_srtp(profiles)
    return ctx


def _handshake(server_entry, client_entry, profiles: bytes):
    from OpenSSL import SSL
    srv = SSL.Connection(_context(server_entry, profiles))
    cli = SSL.Connection(_context(client_entry, profiles))
    srv.set_accept_state()
    cli.set_connect_state()
    done = {id(srv): False, id(cli): False}
    for _ in range(40):
        for a, b in ((cli, srv), (srv, cli)):
            if not done[id(a)]:
                try:
                    a.do_handshake()
                    done[id(a)] = True
                except SSL.WantReadError:
                    pass
            try:
                while True:
                    b.bio_write(a.bio_read(4096))
            except SSL.WantReadError:
                pass
        if all(done.values()):
            break
    if not all(done.values()):
        raise RuntimeError("in-memory DTLS handshake did not complete")
    return srv, cli


def handshakes(M):
    """-> list of {"server": conn, "client": conn, "server_cert": i, "client_cert": j, "profile": name};
    handshake n has certificate n as the server and offers exactly one SRTP profile (cycling through the table)."""
    if "hs" in _POOL:
        return _POOL["hs"]
    certs = pool(M)["certs"]
    names = [p.openssl_profile for p in M.SRTP_PROFILES]
    out = []
    for i, e in enumerate(certs):
        j = (i + 1) % len(certs)
        prof = names[i % len(names)]
        srv, cli = _handshake(e, certs[j], prof)
        out.append({"server": srv, "client": cli, "server_cert": i, "client_cert": j, "profile": prof.decode()})
    _POOL["hs"] = out
    return out


def peer_connection(M, i):
    """A completed connection whose PEER certificate is pool certificate `i` (+ the local certificate index)."""
    h = handshakes(M)[i]
    return h["client"], h["client_cert"]
