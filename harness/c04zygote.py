"""C04 helper (used by harness/props/C04.py only): run ONE case in a process that has never executed any aiortc
transport code before ("hermetic" run).

Why: C04 cases are sequences (validate A, then present B against A's fingerprints …) because the property must hold
whatever the process has seen before. The bulk of the cases runs in the check process itself, one after the other —
that is itself one long sequence and exposes state kept between validations/connections. But a failure found that way
may depend on what EARLIER cases left behind, and shrinking a case inside a polluted process would "minimise" it to
something that does not fail in a fresh process. So a failing case is confirmed, and every shrink candidate is
evaluated, in a fresh copy of a process image that was forked BEFORE the first case ran (fork of the whole check
process costs ~0.1 s here, far too slow for every case, fine for a few dozen).

`Zygote(handler)` forks the image immediately; `call(req)` makes the image fork a child that runs `handler(req)` and
sends the pickled result back.
"""
from __future__ import annotations

import os
import pickle


def _read_exact(f, n):
    buf = b""
    while len(buf) < n:
        chunk = f.read(n - len(buf))
        if not chunk:
            raise EOFError
        buf += chunk
    return buf


def _write_all(fd, data):
    view = memoryview(data)
    while view:
        n = os.write(fd, view)
        view = view[n:]


class Zygote:
    def __init__(self, handler):
        req_r, req_w = os.pipe()
        res_r, res_w = os.pipe()
        pid = os.fork()
        if pid == 0:
            try:
                os.close(req_w)
                os.close(res_r)
                self._serve(handler, req_r, res_w)
            finally:
                os._exit(0)
        os.close(req_r)
        os.close(res_w)
        self.pid = pid
        self._req = os.fdopen(req_w, "wb", buffering=0)
        self._res = os.fdopen(res_r, "rb", buffering=0)

    @staticmethod
    def _serve(handler, req_r, res_w):
        rf = os.fdopen(req_r, "rb", buffering=0)
        while True:
            try:
                n = int.from_bytes(_read_exact(rf, 4), "big")
                req = pickle.loads(_read_exact(rf, n))
            except EOFError:
                return
            pid = os.fork()
            if pid == 0:
                try:
                    try:
                        out = ("ok", handler(req))
                    except BaseException as exc:  # noqa: BLE001 - reported to the parent
                        out = ("exc", type(exc).__name__ + ": " + str(exc)[:300])
                    try:
                        data = pickle.dumps(out)
                    except Exception as exc:  # noqa: BLE001
                        data = pickle.dumps(("exc", "unpicklable result: " + str(exc)[:200]))
                    _write_all(res_w, len(data).to_bytes(4, "big") + data)
                finally:
                    os._exit(0)
            os.waitpid(pid, 0)

    def call(self, req):
        data = pickle.dumps(req)
        self._req.write(len(data).to_bytes(4, "big") + data)
        n = int.from_bytes(_read_exact(self._res, 4), "big")
        tag, val = pickle.loads(_read_exact(self._res, n))
        if tag != "ok":
            raise RuntimeError("hermetic run failed: " + str(val))
        return val

    def close(self):
        try:
            self._req.close()
            self._res.close()
            os.waitpid(self.pid, 0)
        except Exception:  # noqa: BLE001
            pass
