"""C05 (RTP part) — LONG feedback histories against a sender that was started the way the library starts it.

`rtp-dispatch` (harness/c05rtp.py) installs the sender's state through its private attributes so that the Lean model
can be run from the same state.  This component uses nothing but what a peer connection uses:

    RTCRtpSender(track, transport); await sender.send(RTCRtpSendParameters(codecs=[VP8, RTX]))

with a track of pre-encoded packets (no encoder thread), a REAL `RTCDtlsTransport` (stub ICE / SRTP as in `World`), and
then feeds thousands of WELL-FORMED feedback datagrams (generic NACK, PLI, FIR, RR, SR, REMB — cheap: no media has to
be encoded for them) through `RTCDtlsTransport._recv_next`.  Everything is observed on the wire (what the ICE stub is
asked to send), parsed with plain `struct`: media SSRC, RTX SSRC, sequence numbers.

Counters in reach of those datagrams — the RTX sequence number (bumped once per retransmission), the RTP sequence
numbers / timestamps of the history that every retransmission re-serialises, the SR packet / octet counts — start where
harness/c05origins.py puts them (the library's own `random16` / `random32` / `random_sequence_number` seams): a few
steps below the wrap point, at 32767 / 32768, or (thorough tier) wherever the library itself puts them, followed by
more than 65 536 retransmissions, i.e. once around the 16-bit space from ANY origin.

Oracle (implementation only): no exception escapes `_recv_next`, the transport stays `connected`, every NACK is
answered with exactly the retransmissions of the listed packets that are still in the 128-packet history — right
original sequence number, payload and timestamp, RTX sequence numbers consecutive modulo 2^16 on one RTX SSRC —, no
datagram costs more than 50 ms of CPU, the sender's report timer keeps sending parsable SRs whose packet count is the
number of packets sent modulo 2^32, `sender.stop()` returns.
"""
from __future__ import annotations

import json
import struct
import time

from harness.check import Component
from harness import c05origins as O
from harness import c05rtp as R

PT_VP8, PT_RTX = 100, 101
SLOW_MS = R.SLOW_MS
PEER_SSRC = 77


def _listed(entries):
    """RFC 4585 6.2.1, read independently: the sequence numbers a generic NACK lists."""
    out = []
    for pid, blp in entries:
        out.append(pid)
        out.extend((pid + d + 1) % 65536 for d in range(16) if (blp >> d) & 1)
    return out


class SenderWorld:
    def __init__(self, org, n_media, pc0):
        import asyncio
        import fractions
        import random

        import av
        from aiortc.mediastreams import MediaStreamTrack
        from aiortc.rtcdtlstransport import RTCDtlsTransport, State
        from aiortc.rtcrtpparameters import RTCRtpCodecParameters, RTCRtpSendParameters, RTCRtcpParameters
        from aiortc.rtcrtpsender import RTCRtpSender

        self.asyncio = asyncio
        self.loop = asyncio.new_event_loop()
        asyncio.set_event_loop(self.loop)
        self.log = []
        self.ice = R._Ice(self.log)
        self.dtls = RTCDtlsTransport(self.ice, [object()])
        self.dtls.encrypted = True
        self.dtls._rx_srtp = R._Srtp()
        self.dtls._tx_srtp = R._Srtp()
        self.dtls._ssl = R._Ssl()
        self.dtls._state = State.CONNECTED

        class PacketTrack(MediaStreamTrack):
            """`n_media` pre-encoded access units, then silence."""
            kind = "video"

            def __init__(self):
                super().__init__()
                self.count = 0

            async def recv(self):
                if self.count == n_media:
                    await asyncio.Event().wait()
                self.count += 1
                p = av.Packet(bytes((self.count * 5 + i) % 251 for i in range(20 + self.count % 9)))
                p.pts = self.count * 3000
                p.time_base = fractions.Fraction(1, 90000)
                return p

        # report timers every 10 ms instead of 0.5 .. 1.5 s (as `many-streams` does)
        self._random = random
        self._saved_random = random.random
        random.random = lambda: -0.49
        self.media = []         # (seq, ts, payload) of the media packets, in sending order
        self.media_ssrc = None
        self.problems = []
        self.pc0 = 0
        self.oc0 = 0
        self.rtx_ssrc = None
        self.rtx_seq = None     # RTX sequence number of the last retransmission
        self.rtx_count = 0
        self.wrapped = False
        self.sr_seen = 0
        with O.shifted(org) as applied:
            self.applied = sorted(applied)
            self.sender = RTCRtpSender(PacketTrack(), self.dtls)
            if (org or {}).get("seqno") is not None and "random_sequence_number" not in applied:
                # the seam is gone: put the RTX sequence number where the constructor stores it, if that can be found
                name = O.locate(self.sender, ("rtx", "seq"), "_RTCRtpSender__rtx_sequence_number")
                if name is not None:
                    O.opt_set(self.sender, name, org["seqno"] % 65536)
            if pc0 is not None:
                # no seam for the SR counters: shift the attribute if it (still) exists
                name = O.locate(self.sender, ("packet", "count"), "_RTCRtpSender__packet_count")
                if name is not None and O.opt_set(self.sender, name, pc0):
                    self.pc0 = pc0
                name = O.locate(self.sender, ("octet", "count"), "_RTCRtpSender__octet_count")
                if name is not None and O.opt_set(self.sender, name, pc0):
                    self.oc0 = pc0
            self.loop.run_until_complete(self.sender.send(RTCRtpSendParameters(
                codecs=[RTCRtpCodecParameters(mimeType="video/VP8", clockRate=90000, payloadType=PT_VP8),
                        RTCRtpCodecParameters(mimeType="video/rtx", clockRate=90000, payloadType=PT_RTX, parameters={"apt": PT_VP8})],
                rtcp=RTCRtcpParameters(cname="x"))))
            deadline = time.time() + 5
            while len(self.media) < n_media and time.time() < deadline:
                self.loop.run_until_complete(asyncio.sleep(0.001))
                self._drain(expect=None)
        if len(self.media) < n_media:
            self.problems.append(f"the sender sent only {len(self.media)} of {n_media} media packets")

    # ---- the wire ---------------------------------------------------------------------------------
    def _drain(self, expect):
        """Classify what was sent since the last call.  `expect`: list of media sequence numbers that must have been
        retransmitted, in order (None: media phase)."""
        got = []
        for kind, data in self.log:
            if kind != "tx" or len(data) < 2:
                continue
            if 192 <= data[1] <= 208:
                self._check_rtcp(data)
                continue
            if len(data) < 12:
                self.problems.append("runt RTP packet sent: " + data.hex())
                continue
            pt = data[1] & 0x7F
            seq, ts, ssrc = struct.unpack("!HLL", data[2:12])
            payload = data[12 + 4 * (data[0] & 15):]
            if data[0] & 0x10:      # header extension block (abs-send-time)
                n = struct.unpack("!H", payload[2:4])[0]
                payload = payload[4 + 4 * n:]
            if pt == PT_VP8:
                if self.media_ssrc is None:
                    self.media_ssrc = ssrc
                self.media.append((seq, ts, payload))
            elif pt == PT_RTX:
                got.append((seq, ts, ssrc, payload))
            else:
                self.problems.append(f"RTP packet with payload type {pt} sent")
        del self.log[:]
        if expect is None:
            return
        hist = {}
        for seq, ts, payload in self.media:
            hist[seq % 128] = (seq, ts, payload)
        want = [hist[s % 128] for s in expect if s % 128 in hist and hist[s % 128][0] == s]
        if len(got) != len(want):
            self.problems.append(f"a NACK for {len(want)} packets of the history was answered with {len(got)} retransmissions")
            return
        for (seq, ts, ssrc, payload), (oseq, ots, opayload) in zip(got, want):
            if self.rtx_ssrc is None:
                self.rtx_ssrc = ssrc
            if ssrc != self.rtx_ssrc or ssrc == self.media_ssrc:
                self.problems.append(f"retransmission on SSRC {ssrc} (RTX SSRC {self.rtx_ssrc}, media SSRC {self.media_ssrc})")
                return
            if self.rtx_seq is not None and seq != (self.rtx_seq + 1) % 65536:
                self.problems.append(f"RTX sequence number {seq} follows {self.rtx_seq}")
                return
            if self.rtx_seq is not None and seq < self.rtx_seq:
                self.wrapped = True
            self.rtx_seq = seq
            self.rtx_count += 1
            if len(payload) < 2 or struct.unpack("!H", payload[:2])[0] != oseq or payload[2:] != opayload or ts != ots:
                self.problems.append(f"retransmission of packet {oseq} carries something else")
                return

    def _check_rtcp(self, data):
        pos = 0
        while pos + 4 <= len(data):
            pt = data[pos + 1]
            n = struct.unpack("!H", data[pos + 2:pos + 4])[0] * 4
            body = data[pos + 4:pos + 4 + n]
            if len(body) != n or data[pos] >> 6 != 2:
                self.problems.append("malformed RTCP sent: " + data.hex()[:80])
                return
            if pt == 200:
                if len(body) < 24:
                    self.problems.append("malformed SR sent: " + data.hex()[:80])
                    return
                ssrc, ntp, rtp_ts, pc, oc = struct.unpack("!LQLLL", body[:24])
                self.sr_seen += 1
                if self.media and self.media_ssrc is not None:
                    want_pc = (self.pc0 + len(self.media)) % (1 << 32)
                    want_oc = (self.oc0 + sum(len(p) for _, _, p in self.media)) % (1 << 32)
                    if ssrc != self.media_ssrc or (pc, oc) != (want_pc, want_oc):
                        self.problems.append(f"SR says ssrc={ssrc} packets={pc} octets={oc}, sent: ssrc={self.media_ssrc} "
                                             f"packets={want_pc} octets={want_oc} (mod 2^32)")
            pos += 4 + n
        if pos != len(data):
            self.problems.append("malformed RTCP sent: " + data.hex()[:80])

    def feed(self, data, expect):
        """-> CPU ms.  `expect`: media sequence numbers the datagram asks for (NACK) or [] (other feedback)."""
        self.ice.queue.append(data)
        t0 = time.thread_time()
        exc = None
        try:
            with O.cpu_limit():
                self.loop.run_until_complete(self.dtls._recv_next())
        except BaseException as e:  # noqa: BLE001 - every escaping exception is the observation
            exc = e
        ms = (time.thread_time() - t0) * 1000.0
        if exc is not None:
            self.problems.append("the receive path raised: " + R._exc_tag(exc))
        if self.dtls.state != "connected":
            self.problems.append("the transport is " + self.dtls.state)
        if exc is not None or self.dtls.state != "connected":
            del self.log[:]
        else:
            self._drain(expect)
        return ms

    def finish(self):
        asyncio = self.asyncio
        # the report timer: an SR within 2 s (interval 10 ms)
        before = self.sr_seen
        deadline = time.time() + 2
        while self.sr_seen == before and time.time() < deadline and not self.problems:
            self.loop.run_until_complete(asyncio.sleep(0.01))
            self._drain(expect=[])
        if self.sr_seen == before and not self.problems:
            self.problems.append("the sender's report timer sends no SR any more")

        async def stop():
            try:
                await asyncio.wait_for(self.sender.stop(), 2)
            except asyncio.TimeoutError:
                self.problems.append("sender.stop() hangs")
        try:
            self.loop.run_until_complete(stop())
        finally:
            self._random.random = self._saved_random
            for t in asyncio.all_tasks(self.loop):
                t.cancel()
            self.loop.run_until_complete(asyncio.sleep(0))
            self.loop.close()


def build(w: SenderWorld, op):
    """Symbolic feedback -> (datagram, expected retransmissions).  Sequence numbers / SSRCs are only known at run time."""
    kind = op[0]
    ssrc = w.media_ssrc or 0
    if kind == "nack":
        n = max(len(w.media), 1)
        ents = [((w.media[i % n][0] if w.media else 0) + off) % 65536 for i, off, _ in op[1]]
        ents = list(zip(ents, [blp for _, _, blp in op[1]]))
        return R.rtcp_nack(PEER_SSRC, ssrc, ents), _listed(ents)
    if kind == "pli":
        return R.rtcp_pkt(206, 1, struct.pack("!LL", PEER_SSRC, ssrc)), []
    if kind == "fir":
        return R.rtcp_pkt(206, 4, struct.pack("!LL", PEER_SSRC, ssrc) + struct.pack("!LL", ssrc, 1 << 24)), []
    if kind == "rr":
        return R.rtcp_pkt(201, 1, struct.pack("!L", PEER_SSRC) + R.rtcp_report(ssrc, *op[1])), []
    if kind == "sr":
        return R.rtcp_sr(PEER_SSRC, op[1], R.rtcp_report(ssrc, 1, 2, 0xFFFFFFFF, 4, 5, 0xFFFFFFFF), 1), []
    if kind == "remb":
        return R.rtcp_remb(PEER_SSRC, 1, op[1], op[2], [ssrc]), []
    raise ValueError(kind)


def run(case):
    import gc
    gc.collect()
    w = SenderWorld(case.get("org"), case["media"], case.get("pc0"))
    slow = []
    gc.disable()
    try:
        i = 0
        for op in case["ops"]:
            if w.problems:
                break
            data, expect = build(w, op)
            for _ in range(op[-1]):
                ms = w.feed(data, expect)
                if ms > SLOW_MS:
                    slow.append((i, round(ms, 1), len(data)))
                if w.problems:
                    w.problems[-1] = f"feedback datagram #{i} ({op[0]}, {len(data)} bytes {data.hex()[:64]}): " + w.problems[-1]
                    break
                i += 1
        if not w.problems:
            # still alive: one more valid NACK for the newest packet
            data, expect = build(w, ["nack", [[len(w.media) - 1, 0, 0]], 1])
            w.feed(data, expect)
            if w.problems:
                w.problems[-1] = "final NACK: " + w.problems[-1]
    finally:
        gc.enable()
        w.finish()
    return w, slow


def gen_ops(rng, total, flood_rounds=0):
    ops = []
    if flood_rounds:
        # 60 entries x 17 sequence numbers: about 1000 retransmissions per datagram
        ops.append(["nack", [[i, 0, 0xFFFF] for i in range(0, 60)], flood_rounds])
    left = total
    while left > 0:
        k = rng.randrange(10)
        rep = min(left, rng.choice([1, 3, 10, 40, 150]))
        if k <= 4:
            ents = [[rng.randrange(1 << 16), rng.choice([0, 0, 0, 1, 65535, 65408, 200]), rng.choice([0, 1, 0x1FF, 0xFFFF, rng.randrange(65536)])]
                    for _ in range(rng.choice([1, 1, 1, 2, 5, 20]))]
            ops.append(["nack", ents, rep])
        elif k == 5:
            ops.append([rng.choice(["pli", "fir"]), rep])
        elif k in (6, 7):
            ops.append(["rr", [rng.choice([0, 1, 255]), rng.choice([0, 1, 0x7FFFFF, 0x800000, 0xFFFFFF]),
                               rng.choice([0, 65535, 65536, 0xFFFFFFFF, 0xFFFF0000]), rng.choice([0, 1, 0xFFFFFFFF]),
                               rng.choice([0, 1, 0xFFFFFFFF]), rng.choice([0, 1, 65536, 0xFFFFFFFF])], rep])
        elif k == 8:
            ops.append(["sr", rng.choice([0, 1 << 63, (1 << 64) - 1, rng.randrange(1 << 64)]), rep])
        else:
            ops.append(["remb", rng.choice([0, 1, 10, 46, 63]), rng.randrange(1 << 18), rep])
        left -= rep
    rng.shuffle(ops)
    return ops


def gen_case(rng, total, library_origin=False):
    media = rng.choice([3, 20, 60, 128, 150])
    if library_origin:
        # nothing shifted: wherever the library starts, 67 floods take the RTX sequence number once around
        return {"org": None, "media": 128, "pc0": None, "ops": gen_ops(rng, total, flood_rounds=67)}
    r = rng.random()
    if r < 0.6:         # RTX / RTP sequence numbers a few steps below 65535 (RTP one draw later: crosses while sending)
        seqno = 65535 - rng.randrange(0, 30)
    elif r < 0.8:       # what the library's own `random16() % 32768` gives at its top: the sign boundary
        seqno = None
    else:
        seqno = rng.choice([0, 32767, 32768, rng.randrange(65536)])
    org = {"r16": 65535 - rng.randrange(0, 30), "r32": (1 << 32) - 1 - rng.randrange(0, 4) * rng.choice([1, 3000]), "seqno": seqno}
    return {"org": org, "media": media, "pc0": rng.choice([None, (1 << 32) - 1 - rng.randrange(0, 2 * media)]),
            "ops": gen_ops(rng, total)}


class FeedbackHistory(Component):
    name = "feedback-history"
    theorems = ["sender_handle_rtcp_total", "rtx_counter_every_origin", "retransmissions_bounded", "still_alive"]

    def __init__(self):
        self._slow = {}

    def corpus(self):
        # one retransmission away from the wrap, and on it
        one = [["nack", [[0, 0, 0]], 3]]
        return [{"org": {"r16": 65535, "r32": (1 << 32) - 1, "seqno": 65535}, "media": 3, "pc0": (1 << 32) - 2, "ops": one},
                {"org": {"r16": 65534, "r32": (1 << 32) - 2, "seqno": 65534}, "media": 3, "pc0": None, "ops": one},
                {"org": {"r16": 65535, "r32": None, "seqno": None}, "media": 3, "pc0": None, "ops": one}]

    def cases(self, rng, tier):
        if tier == "quick":
            return ([gen_case(rng, rng.choice([150, 300, 600])) for _ in range(6)]
                    + [gen_case(rng, 300, library_origin=True)])
        return ([gen_case(rng, rng.choice([3000, 8000, 20000])) for _ in range(12)]
                + [gen_case(rng, 3000, library_origin=True) for _ in range(3)])

    def impl(self, case):
        w, slow = run(case)
        for _ in range(2):
            if not slow or w.problems:
                break
            w2, again = run(case)
            idx = {i for i, _, _ in again}
            slow = [s for s in slow if s[0] in idx]
        key = json.dumps(case, sort_keys=True)
        if slow and not w.problems:
            self._slow[key] = slow
        else:
            self._slow.pop(key, None)
        return f"ok rtx={w.rtx_count} wrapped={int(w.wrapped)} " + (" | ".join(w.problems) if w.problems else "-")

    def oracle(self, case, impl_out):
        if not impl_out.startswith("ok "):
            return impl_out
        what = impl_out.split(" ", 3)[3]
        if what != "-":
            return f"sender started at {case.get('org')} with {case['media']} media packets, long feedback history: {what}"
        slow = self._slow.get(json.dumps(case, sort_keys=True))
        if slow:
            return "feedback datagrams cost more than %.0f ms of CPU in three runs: %s" % (SLOW_MS, slow[:5])
        return None

    def label(self, case, impl_out):
        if not impl_out.startswith("ok "):
            return "harness"
        return ("shifted" if case.get("org") else "library-origin") + (":wrapped" if " wrapped=1 " in impl_out else ":no-wrap")

    def nontrivial(self, case, impl_out):
        return impl_out.startswith("ok rtx=") and not impl_out.startswith("ok rtx=0 ")

    def shrink(self, case):
        ops = case["ops"]
        if len(ops) > 4:
            yield dict(case, ops=ops[:len(ops) // 2])
            yield dict(case, ops=ops[len(ops) // 2:])
        for i in range(len(ops)):
            if len(ops) > 1:
                yield dict(case, ops=ops[:i] + ops[i + 1:])
        for i, op in enumerate(ops):
            for r in sorted({1, op[-1] // 2, op[-1] - 1}):
                if 0 < r < op[-1]:
                    yield dict(case, ops=ops[:i] + [op[:-1] + [r]] + ops[i + 1:])
        if case.get("pc0") is not None:
            yield dict(case, pc0=None)
        if case["media"] > 3:
            yield dict(case, media=3)
