"""C05 (RTP part) — where the library's own counters start.

A 16 / 32-bit counter that the receive path bumps (`RTCRtpSender.__rtx_sequence_number`, the sender's RTP sequence
number and timestamp origin that end up in the retransmission history, SR packet / octet counts, the receiver's
extended highest sequence number) starts at a value the library draws itself: `random16()` / `random32()` of
`aiortc.utils`, `random_sequence_number()` of `aiortc.rtcrtpsender` (`random16() % 32768`).  A fresh object is therefore
up to 65 536 (or 2^32) events away from its wrap point, and a check that feeds a few hundred datagrams to a fresh
object never sees the counter wrap.

`shifted(org)` replaces those module-level functions, wherever a module of the media path has imported them, by
deterministic draws that start at chosen values (just below the wrap point, at the sign boundary 32767 / 32768, …) and
count upwards, so that successive draws stay distinct (SSRC and RTX SSRC come from the same function).  This is the
state of an object with a long history, reached without replaying the history.

Seams are looked up by name with `getattr`: a name that does not exist (any more) is simply not shifted — the counter
then starts wherever the library puts it, which is a valid run as well.  `opt_set` does the same for an attribute of
an object (used only where there is no seam).
"""
from __future__ import annotations

import contextlib
import importlib
import signal
import threading

MODULES = ("aiortc.utils", "aiortc.rtcrtpsender", "aiortc.rtcrtpreceiver", "aiortc.rtcdtlstransport")
SEAMS = {"r16": ("random16", 1 << 16), "r32": ("random32", 1 << 32), "seqno": ("random_sequence_number", 1 << 16)}

# origins worth starting from: k below the wrap, the wrap itself, the sign boundary
NEAR16 = [65535, 65534, 65533, 65530, 65500, 0, 1, 32767, 32768, 32766]
NEAR32 = [(1 << 32) - 1, (1 << 32) - 2, (1 << 32) - 3000, (1 << 32) - 90000, 0, (1 << 31) - 1, 1 << 31]


class Draw:
    """Deterministic replacement of a random draw: base, base + 1, … modulo the width of the field."""

    def __init__(self, base: int, mod: int):
        self.base, self.mod, self.calls = base % mod, mod, 0

    def __call__(self) -> int:
        v = (self.base + self.calls) % self.mod
        self.calls += 1
        return v


@contextlib.contextmanager
def shifted(org):
    """org: {"r16": base | None, "r32": base | None, "seqno": base | None} (missing key = not shifted).
    Yields the set of seam names that were found and replaced."""
    saved, applied = [], set()
    draws = {}
    for key, (name, mod) in SEAMS.items():
        base = (org or {}).get(key)
        if base is not None:
            draws[name] = Draw(base, mod)
    try:
        for modname in MODULES:
            try:
                m = importlib.import_module(modname)
            except ImportError:
                continue
            for name, fn in draws.items():
                if callable(getattr(m, name, None)):
                    saved.append((m, name, getattr(m, name)))
                    setattr(m, name, fn)
                    applied.add(name)
        yield applied
    finally:
        for m, name, fn in reversed(saved):
            setattr(m, name, fn)


def opt_get(obj, *names):
    """First attribute of `obj` that exists among `names` -> (name, value) or (None, None)."""
    for n in names:
        if hasattr(obj, n):
            return n, getattr(obj, n)
    return None, None


def opt_set(obj, name, value) -> bool:
    """Set an EXISTING attribute (never creates one): False = no such attribute, nothing shifted."""
    if hasattr(obj, name):
        setattr(obj, name, value)
        return True
    return False


def locate(obj, words, pinned=None):
    """Name of the instance attribute that holds a counter: the pinned (name-mangled) name if it exists, else the ONLY
    int attribute whose name contains every word of `words` (so that a renamed private attribute is still found);
    None if there is no such attribute or more than one."""
    if pinned is not None and hasattr(obj, pinned):
        return pinned
    names = [k for k, v in vars(obj).items()
             if isinstance(v, int) and not isinstance(v, bool) and all(w in k.lower() for w in words)]
    return names[0] if len(names) == 1 else None


class Hang(BaseException):
    """Raised inside the code under test when one datagram has used `CPU_LIMIT_S` of CPU time."""


CPU_LIMIT_S = 1.0       # the per-datagram oracle threshold is 50 ms; a counter that never reaches its target loops for ever


@contextlib.contextmanager
def cpu_limit(seconds=CPU_LIMIT_S):
    """Watchdog on the CPU time (not wall time: independent of machine load) of the block; main thread only, otherwise
    (or without `setitimer`) no limit."""
    if threading.current_thread() is not threading.main_thread() or not hasattr(signal, "setitimer"):
        yield
        return

    def on_alarm(signum, frame):
        raise Hang()
    saved = signal.signal(signal.SIGVTALRM, on_alarm)
    signal.setitimer(signal.ITIMER_VIRTUAL, seconds)
    try:
        yield
    finally:
        signal.setitimer(signal.ITIMER_VIRTUAL, 0)
        signal.signal(signal.SIGVTALRM, saved)
