"""C05 (RTP/RTCP/codec part) — no received datagram can crash, hang or wedge the media receive path.

One *world* per case: a REAL `RTCDtlsTransport` whose ICE transport and SRTP sessions are stubs (construction of
harness/props/C12.py), a REAL video `RTCRtpReceiver` (VP8 + H264 + four RTX codecs, seven header extensions), a REAL
audio `RTCRtpReceiver` (PCMU) and a REAL video `RTCRtpSender` with a filled retransmission history.  Datagrams are
fed one by one through `RTCDtlsTransport._recv_next`; everything the stack does in response is recorded
(RTCP feedback and retransmissions handed to the ICE stub, frames put on the decoder queue, sender / receiver state
that RTCP changes, escaping exceptions, wall time).  The same datagram list goes through the compiled Lean model
`Model/RtpDispatch.lean` (driver `rtpdispatch run …`), whose per-datagram trace must be identical.

Counter origins (harness/c05origins.py): the sender's RTX sequence number starts at `case["rtx0"]` (default 7), installed through the
library's `random_sequence_number` / `random16` seams, and the model runs from the same origin (`rtpdispatch runo`); ops may carry a
repeat count (`[hex, forging, n]`: long histories of well-formed feedback).  `feedback-history` (harness/c05history.py) is the same idea
on a sender started with `send()`, observed on the wire only.

Outside: the decoder thread body (`decoder_worker` is replaced by a draining stub: PyAV is not under test), the
remote bitrate estimator's value (REMB feedback is filtered from the trace; its crash-freedom is still observed),
RTCP RR timers.
"""
from __future__ import annotations

import json
import struct
import time

from harness.check import Component
from harness import c05origins as O

DRIVERS = ["RtpDispatch"]
LEAN_TARGETS = ["Aiortc.Props.C05Rtp"]
RULE = ("RTP/RTCP: one real RTCDtlsTransport + video receiver (VP8/H264/RTX) + audio receiver + video sender per case; "
        "a case is a list of datagrams: valid media (0..6 frames, so that hostile datagrams arrive before and while media flows), then "
        "1..24 hostile datagrams (random bytes, every demultiplexing boundary of the first two bytes, truncations of valid RTP/RTCP at "
        "every field boundary, bit flips, length fields 0/+-1/max, header extensions of every id x length in both forms, RTX with 0/1/2-byte "
        "payloads on known/unknown SSRCs and apt, STAP-A/FU-A/VP8 descriptors cut at every byte, compound RTCP with nonsense counts, "
        "REMB with wrong counts, NACK floods, sequence jumps of 1/99/100/127/128/32767/32768/65535), then valid media + SR + NACK; "
        "the counters under the receive path start next to their wrap points: the sender's RTX sequence number (drawn by the library from "
        "random_sequence_number(): replaced by 65535-k, 32767, 32768, 0 ... - harness/c05origins.py), the peer's sequence numbers, timestamps and "
        "abs-send-time (65535-k, 2^32-1, 2^31-3000, 2^24-1-k); long histories: 300-800 (quick) / 3000-12000 (thorough) well-formed feedback "
        "datagrams (NACK, PLI, FIR, RR, SR, REMB, each repeated up to 150 times) per case, in the thorough tier also > 65536 retransmissions from an "
        "origin < 32768; feedback-history: a sender started with send() on a track of pre-encoded packets, origins shifted through the random16 / "
        "random32 / random_sequence_number seams or not at all (then 67 NACK floods = once around the 16-bit space), observed on the wire only; "
        "set-up / tear-down: in a fifth of the rtp-dispatch cases the first n datagrams arrive while the SRTP sessions do not exist yet (state "
        "connecting, as _do_handshake reads them; model: hasSrtp = false); dtls-setup: a real pair of RTCDtlsTransports over an in-memory link "
        "stepped one datagram at a time, hostile datagrams (SRTP/SRTCP-looking, the peer's real first SRTP packets overtaking its last flight, DTLS "
        "records truncated / over-long / wrong version / wrong epoch / application data / nonsense handshake fragments, STUN-looking, empty, 1 byte, "
        "1500+ bytes, duplicated flights) before start(), before every handshake datagram in either direction, right after connected, while "
        "connected, between stop() and the close_notify, after closed, and stop() in the middle of the handshake; "
        "elapsed time and several streams: 12 (quick) / 120 (thorough) cases whose clock (aiortc.clock.current_ms) advances per datagram by 0..1000 ms and idle gaps of "
        "1999/2000/2001/5000/10000 ms over >= 4.5 s of flow so that REMB estimates are produced, with 2-4 SSRCs with abs-send-time per video receiver (media, RTX, strays) that "
        "start and fall silent at different times; 15 % of the random cases get a clock too; "
        "distinct = distinct datagram list; nontrivial = at least one hostile datagram reached a receiver, a sender or a parser error")

ASSUMPTIONS = [
    "RTP part: theorems quantify over transport states whose receivers and senders satisfy the component invariants (`TransportInv`: jitter buffer "
    "`Inv` of C10, stream statistics `GoodRecv` of C18, 16-bit NACK `max_seq`, timestamp mapper `_last` set with `_origin`; `SenderInv`: the RTX "
    "sequence number is a 16-bit number); `fresh_receiver_inv` / `fresh_sender_inv` + `still_alive` show every state reachable from construction by "
    "datagrams satisfies them, from every origin and after every length of history (`rtx_counter_every_origin`)",
    "RTP part: the datagram is a string of bytes (`IsBytes`), and what SRTP `unprotect` returns is one too",
    "RTP part: `RemoteBitrateEstimator.add` + `pack_remb_fci` return (input `rbeOut = ok _` of the model; C15 covers the estimator up to float helpers)",
    "RTP part: sending (`_send_rtp` -> SRTP protect -> ICE send) does not raise: the transport is connected and the ICE transport is up (a `ConnectionError` "
    "from a broken network path is a disconnect, not a datagram-induced failure); serialising NACK / PLI packets is C07's domain; of a retransmitted "
    "packet the model serialises the RTX sequence number (the one field `_retransmit` computes), the other fields were serialised by `_run_rtp` before",
    "RTP part: a receiver object is not also registered as a sender (C12's assumption)",
]
TRUSTED_EXTRA = [
    "RTP part: DTLS records (first byte 20..63) are handed to OpenSSL and from there to the SCTP part; modelled as a no-op here",
    "RTP part: the decoder thread body (PyAV) is replaced by a draining stub in the harness; the model ends at the decoder queue `put`",
    "RTP part: REMB feedback and the periodic receiver reports are filtered out of the compared trace (wall-clock dependent); their crash-freedom is still observed by the oracle",
    "RTP part: `RTCRtpSender` state is installed through its private attributes exactly as `send()` / `_run_rtp` would set it (no encoder thread, no track)",
    "RTP part: per-datagram cost is measured as CPU time of the receiving thread with the garbage collector off, a datagram counts as slow only if it is above 50 ms in three runs; "
    "a datagram that uses 1 s of CPU is interrupted and reported as a hang",
    "RTP part (dtls-setup): the DTLS handshake itself is OpenSSL's; a hostile datagram that is a plaintext DTLS record of the handshake epoch (DTLS version, epoch 0, "
    "consistent length) during set-up is a forged protocol message and waives the `connected` clause; a protected-epoch record shorter than the AEAD overhead (24 bytes) "
    "makes OpenSSL 4.0's record layer fail for good (`record layer failure`) and waives the DTLS-application-data and close_notify clauses only (finding C05-openssl-short-record, notes/C05b.md); "
    "SRTP-range datagrams are generated up to 1500 bytes (the property's MTU bound; beyond it pylibsrtp raises ValueError: finding C05-srtp-over-mtu, notes/C05b.md)",
    "RTP part: counter origins are installed through the library's own random16 / random32 / random_sequence_number seams (attribute lookup by name only as a fall-back); "
    "a seam or attribute that no longer exists is not shifted",
]

# ------------------------------------------------------------------------------------------------
# the fixed world (mirrored in lean/Aiortc/Drv/RtpDispatch.lean)
# ------------------------------------------------------------------------------------------------
V_SSRC, V_RTX_SSRC = 1234, 2345
A_SSRC = 4000
S_SSRC, S_RTX_SSRC = 5000, 5001
PT_VP8, PT_RTX_VP8, PT_H264, PT_RTX_H264, PT_RTX_BADAPT, PT_RTX_NOAPT, PT_RTX_STRAPT = 100, 101, 102, 103, 104, 105, 106
PT_PCMU = 0
EXT_IDS = {"mid": 1, "abs_send_time": 2, "transmission_offset": 3, "audio_level": 4,
           "transport_sequence_number": 5, "rtp_stream_id": 6, "repaired_rtp_stream_id": 7}
EXT_URIS = {
    "mid": "urn:ietf:params:rtp-hdrext:sdes:mid",
    "abs_send_time": "http://www.webrtc.org/experiments/rtp-hdrext/abs-send-time",
    "transmission_offset": "urn:ietf:params:rtp-hdrext:toffset",
    "audio_level": "urn:ietf:params:rtp-hdrext:ssrc-audio-level",
    "transport_sequence_number": "http://www.ietf.org/id/draft-holmer-rmcat-transport-wide-cc-extensions-01",
    "rtp_stream_id": "urn:ietf:params:rtp-hdrext:sdes:rtp-stream-id",
    "repaired_rtp_stream_id": "urn:ietf:params:rtp-hdrext:sdes:repaired-rtp-stream-id",
}
HISTORY = [65530, 65531, 65532, 65533, 65534, 65535, 0, 1, 2, 3]     # sender history across the 16-bit wrap
HISTORY_LEN = 20                                                     # payload length of history packets
SLOW_MS = 50.0
SENDER_LSR = 0x11112222
AST_STEP = 2731                                                      # abs-send-time units per video packet (~10 ms)
RTX0 = 7                                                             # RTX sequence number origin of the default world


def hx(b: bytes) -> str:
    return b.hex() if b else "-"


def unhx(s: str) -> bytes:
    return b"" if s == "-" else bytes.fromhex(s)


def _exc_tag(exc) -> str:
    if isinstance(exc, O.Hang):
        return "hang"
    if isinstance(exc, ValueError):
        return "ValueError"
    if isinstance(exc, struct.error):
        return "crash struct.error"
    return "crash " + type(exc).__name__


class _Ice:
    def __init__(self, log):
        self.queue = []
        self.log = log
        self.role = "controlling"

    async def _recv(self):
        return self.queue.pop(0)

    async def _send(self, data):
        self.log.append(("tx", bytes(data)))


class _Srtp:
    def unprotect(self, data):
        return data

    def unprotect_rtcp(self, data):
        return data

    def protect(self, data):
        return data

    def protect_rtcp(self, data):
        return data


class _Ssl:
    """DTLS records (first byte 20..63) go to OpenSSL, which is outside this part: a BIO that never has application data."""

    def bio_write(self, data):
        return len(data)

    def recv(self, n):
        from OpenSSL import SSL
        raise SSL.WantReadError()

    def bio_read(self, n):
        from OpenSSL import SSL
        raise SSL.WantReadError()


class _Encoder:
    """Stands for the sender's encoder: only `target_bitrate` is touched by the receive path."""

    def __init__(self, log):
        self._log = log

    @property
    def target_bitrate(self):
        return 0

    @target_bitrate.setter
    def target_bitrate(self, v):
        self._log.append(("br", v))


def _drain_worker(loop, input_q, output_q):
    """Replacement of `decoder_worker`: drains the queue (PyAV is outside the property)."""
    while True:
        task = input_q.get()
        if task is None:
            break


class World:
    """The real objects, wired together.  `rtx0`: where the sender's RTX sequence number starts (the library draws it
    from `random_sequence_number()`; see harness/c05origins.py)."""

    def __init__(self, rtx0=RTX0):
        import asyncio
        import aiortc.rtcrtpreceiver as rr
        from aiortc import rtp
        from aiortc.rtcdtlstransport import RTCDtlsTransport, State
        from aiortc.rtcrtpparameters import (RTCRtpCodecParameters, RTCRtpDecodingParameters,
                                             RTCRtpHeaderExtensionParameters, RTCRtpReceiveParameters,
                                             RTCRtpRtxParameters, RTCRtpSendParameters, RTCRtcpParameters)
        from aiortc.rtcrtpreceiver import RemoteStreamTrack, RTCRtpReceiver
        from aiortc.rtcrtpsender import RTCRtpSender

        self.rtp = rtp
        self.loop = asyncio.new_event_loop()
        asyncio.set_event_loop(self.loop)
        self.log = []
        self.ice = _Ice(self.log)
        self.dtls = RTCDtlsTransport(self.ice, [object()])
        self.dtls.encrypted = True
        self.dtls._rx_srtp = _Srtp()
        self.dtls._tx_srtp = _Srtp()
        self.dtls._ssl = _Ssl()
        self.dtls._state = State.CONNECTED
        self._saved_worker = rr.decoder_worker
        rr.decoder_worker = _drain_worker
        exts = [RTCRtpHeaderExtensionParameters(id=i, uri=EXT_URIS[k]) for k, i in EXT_IDS.items()]

        async def setup():
            self.video = RTCRtpReceiver("video", self.dtls)
            self.video._track = RemoteStreamTrack(kind="video")
            await self.video.receive(RTCRtpReceiveParameters(
                codecs=[
                    RTCRtpCodecParameters(mimeType="video/VP8", clockRate=90000, payloadType=PT_VP8),
                    RTCRtpCodecParameters(mimeType="video/rtx", clockRate=90000, payloadType=PT_RTX_VP8, parameters={"apt": PT_VP8}),
                    RTCRtpCodecParameters(mimeType="video/H264", clockRate=90000, payloadType=PT_H264),
                    RTCRtpCodecParameters(mimeType="video/rtx", clockRate=90000, payloadType=PT_RTX_H264, parameters={"apt": PT_H264}),
                    RTCRtpCodecParameters(mimeType="video/rtx", clockRate=90000, payloadType=PT_RTX_BADAPT, parameters={"apt": 99}),
                    RTCRtpCodecParameters(mimeType="video/rtx", clockRate=90000, payloadType=PT_RTX_NOAPT),
                    RTCRtpCodecParameters(mimeType="video/rtx", clockRate=90000, payloadType=PT_RTX_STRAPT, parameters={"apt": "100"}),
                ],
                encodings=[RTCRtpDecodingParameters(ssrc=V_SSRC, payloadType=PT_VP8, rtx=RTCRtpRtxParameters(ssrc=V_RTX_SSRC))],
                headerExtensions=exts, muxId="0"))
            self.audio = RTCRtpReceiver("audio", self.dtls)
            self.audio._track = RemoteStreamTrack(kind="audio")
            await self.audio.receive(RTCRtpReceiveParameters(
                codecs=[RTCRtpCodecParameters(mimeType="audio/PCMU", clockRate=8000, channels=1, payloadType=PT_PCMU)],
                encodings=[RTCRtpDecodingParameters(ssrc=A_SSRC, payloadType=PT_PCMU)],
                headerExtensions=exts, muxId="1"))
            with O.shifted({"seqno": rtx0, "r16": rtx0}):
                self.sender = RTCRtpSender("video", self.dtls)
        self.loop.run_until_complete(setup())
        rr.decoder_worker = self._saved_worker

        # what RTCRtpSender.send() does, minus the RTP / RTCP tasks (no track, no encoder thread)
        s = self.sender
        s._ssrc, s._rtx_ssrc = S_SSRC, S_RTX_SSRC
        self.dtls._register_rtp_sender(s, RTCRtpSendParameters(rtcp=RTCRtcpParameters(cname="x", ssrc=S_SSRC)))
        s._RTCRtpSender__rtx_payload_type = PT_RTX_VP8
        name = O.locate(s, ("rtx", "seq"), "_RTCRtpSender__rtx_sequence_number")
        if name is not None and getattr(s, name) != rtx0:
            setattr(s, name, rtx0)                          # no seam (any more): as the constructor stores it
        s._RTCRtpSender__packet_count = 10
        s._RTCRtpSender__lsr = SENDER_LSR            # as after the sender's first SR: the RTT branch of RR handling is live
        s._RTCRtpSender__lsr_time = time.time()
        s._RTCRtpSender__encoder = _Encoder(self.log)
        for seq in HISTORY:
            s._RTCRtpSender__rtp_history[seq % 128] = rtp.RtpPacket(
                payload_type=PT_VP8, sequence_number=seq, timestamp=seq * 3, ssrc=S_SSRC, marker=seq % 2,
                payload=bytes([seq % 256]) * HISTORY_LEN)
        self.video._set_rtcp_ssrc(S_SSRC)
        self.audio._set_rtcp_ssrc(S_SSRC)
        for name, r in (("v", self.video), ("a", self.audio)):
            q = r._RTCRtpReceiver__decoder_queue
            orig = q.put

            def put(item, _orig=orig, _name=name, **kw):
                if item is not None:
                    codec, frame = item
                    self.log.append(("dec", _name, codec.name, frame.timestamp, bytes(frame.data)))
                return _orig(item, **kw)
            q.put = put
        st = s._RTCRtpSender__stats
        orig_add = st.add

        def add(stats, _orig=orig_add):
            self.log.append(("rr", stats.packetsLost, stats.jitter, stats.fractionLost))
            return _orig(stats)
        st.add = add

    def set_clock(self, ms):
        """Drive the clock the receive path reads (`aiortc.clock.current_ms`: `arrival_time_ms` of every RTP packet, i.e.
        the time base of the remote bitrate estimator) - looked up by name; a missing seam is simply not driven."""
        import aiortc.clock as C
        self.now_ms = ms
        if getattr(self, "_clock_saved", None) is None and callable(getattr(C, "current_ms", None)):
            self._clock_saved = (C, C.current_ms)
            C.current_ms = lambda: self.now_ms

    def set_srtp(self, on: bool):
        """`on=False`: the transport as `_do_handshake` sees it - `start()` has been called, the SRTP sessions do not exist
        yet, the state is `connecting`; `on=True`: as after `_setup_srtp()`."""
        from aiortc.rtcdtlstransport import State
        self.dtls._rx_srtp = _Srtp() if on else None
        self.dtls._tx_srtp = _Srtp() if on else None
        self.dtls._state = State.CONNECTED if on else State.CONNECTING
        self.expect_state = "connected" if on else "connecting"

    # ---- observation ----------------------------------------------------------------------------
    def _snapshot(self):
        v = self.video
        return (dict(v._RTCRtpReceiver__lsr), v._RTCRtpReceiver__decoder_thread is not None,
                dict(self.audio._RTCRtpReceiver__lsr), self.audio._RTCRtpReceiver__decoder_thread is not None,
                self.sender._RTCRtpSender__force_keyframe)

    def _describe_tx(self, data: bytes):
        rtp = self.rtp
        if rtp.is_rtcp(data):
            out = []
            for p in rtp.RtcpPacket.parse(data):
                if isinstance(p, rtp.RtcpRtpfbPacket) and p.fmt == rtp.RTCP_RTPFB_NACK:
                    out.append(f"nack:{p.media_ssrc}:" + ".".join(str(x) for x in p.lost))
                elif isinstance(p, rtp.RtcpPsfbPacket) and p.fmt == rtp.RTCP_PSFB_PLI:
                    out.append(f"pli:{p.media_ssrc}")
                elif isinstance(p, rtp.RtcpPsfbPacket) and p.fmt == rtp.RTCP_PSFB_APP:
                    # REMB: the value is the estimator's (C15); the SSRC list goes to the oracle, not to the trace
                    self.rembs.append([int.from_bytes(p.fci[i:i + 4], "big") for i in range(8, len(p.fci) - 3, 4)]
                                      if p.fci[:4] == b"REMB" else None)
                elif isinstance(p, (rtp.RtcpRrPacket,)):
                    pass        # periodic receiver report (timer)
                else:
                    out.append("rtcp?" + type(p).__name__)
            return out
        p = rtp.RtpPacket.parse(data)
        if p.ssrc == S_RTX_SSRC:
            return [f"rtx:{p.payload_type}:{p.sequence_number}:{int.from_bytes(p.payload[:2], 'big')}:{len(p.payload) - 2}"]
        return [f"rtp:{p.payload_type}:{p.sequence_number}:{len(p.payload)}"]

    rembs: list = []

    def feed(self, data: bytes):
        """-> (events, elapsed_ms)"""
        self.rembs = []
        before = self._snapshot()
        self.sender._RTCRtpSender__force_keyframe = False
        del self.log[:]
        self.ice.queue.append(data)
        t0 = time.thread_time()
        exc = None
        try:
            with O.cpu_limit():
                self.loop.run_until_complete(self.dtls._recv_next())
        except BaseException as e:  # noqa: BLE001 - every escaping exception is the observation
            exc = e
        ms = (time.thread_time() - t0) * 1000.0
        ev = []
        for item in list(self.log):
            if item[0] == "tx":
                try:
                    ev.extend(self._describe_tx(item[1]))
                except Exception as e:  # noqa: BLE001
                    ev.append("tx-unparsable:" + type(e).__name__)
            elif item[0] == "dec":
                ev.append(f"dec:{item[1]}:{item[2]}:{item[3]}:{hx(item[4])}")
            elif item[0] == "br":
                ev.append(f"br:{item[1]}")
            elif item[0] == "rr":
                ev.append(f"rr:{item[1]}:{item[2]}:{item[3]}")
        after = self._snapshot()
        for tag, b, a in (("v", before[0], after[0]), ("a", before[2], after[2])):
            for k in sorted(a):
                if k not in b or b[k] != a[k]:
                    ev.append(f"lsr:{tag}:{k}:{a[k]}")
        if before[1] and not after[1]:
            ev.append("stop:v")
        if before[3] and not after[3]:
            ev.append("stop:a")
        if after[4]:
            ev.append("kf")
        if exc is not None:
            ev.append("EXC " + _exc_tag(exc))
        if self.dtls.state != getattr(self, "expect_state", "connected"):
            ev.append("STATE " + self.dtls.state)
        return ev, ms

    def close(self):
        async def fin():
            await self.video.stop()
            await self.audio.stop()
        try:
            self.loop.run_until_complete(fin())
        finally:
            self.loop.close()
            if getattr(self, "_clock_saved", None) is not None:
                setattr(self._clock_saved[0], "current_ms", self._clock_saved[1])
                self._clock_saved = None


# ------------------------------------------------------------------------------------------------
# datagram construction (plain struct: independent of the code under test)
# ------------------------------------------------------------------------------------------------

def rtp_hdr(pt, seq, ts, ssrc, marker=0, cc=0, x=0, p=0, v=2):
    return bytes([(v << 6) | (p << 5) | (x << 4) | cc, (marker << 7) | pt]) + struct.pack("!HLL", seq & 0xFFFF, ts & 0xFFFFFFFF, ssrc & 0xFFFFFFFF)


def ext_block(profile, body, words=None):
    pad = (-len(body)) % 4
    body = body + b"\x00" * pad
    return struct.pack("!HH", profile, len(body) // 4 if words is None else words) + body


def one_byte_ext(items):
    return b"".join(bytes([(i << 4) | ((len(v) - 1) & 0xF)]) + v for i, v in items)


def two_byte_ext(items):
    return b"".join(bytes([i, len(v)]) + v for i, v in items)


def vp8_payloads(data: bytes, picture_id: int, chunk: int):
    """`Vp8Encoder._packetize` with a smaller chunk size (same descriptor layout)."""
    out, pos, start = [], 0, 1
    while pos < len(data):
        d = bytes([0x80 | (start << 4), 0x80]) + (bytes([picture_id]) if picture_id < 128 else struct.pack("!H", 0x8000 | picture_id))
        out.append(d + data[pos:pos + chunk])
        pos += chunk
        start = 0
    return out


def rtcp_pkt(pt, count, payload, p=0, v=2, length=None):
    return bytes([(v << 6) | (p << 5) | (count & 31), pt]) + struct.pack("!H", (len(payload) // 4 if length is None else length) & 0xFFFF) + payload


def rtcp_sr(ssrc, ntp, reports=b"", count=0):
    return rtcp_pkt(200, count, struct.pack("!LQLLL", ssrc, ntp, 1, 2, 3) + reports)


def rtcp_report(ssrc, fraction=0, lost=0, hseq=0, jitter=0, lsr=0, dlsr=0):
    return struct.pack("!LB", ssrc, fraction) + (lost & 0xFFFFFF).to_bytes(3, "big") + struct.pack("!LLLL", hseq, jitter, lsr, dlsr)


def rtcp_nack(ssrc, media, entries):
    return rtcp_pkt(205, 1, struct.pack("!LL", ssrc, media) + b"".join(struct.pack("!HH", pid, blp) for pid, blp in entries))


def rtcp_remb(ssrc, n, exp, mantissa, ssrcs, media=0):
    fci = b"REMB" + bytes([n & 255, ((exp & 63) << 2) | ((mantissa >> 16) & 3), (mantissa >> 8) & 255, mantissa & 255]) + b"".join(struct.pack("!L", s) for s in ssrcs)
    return rtcp_pkt(206, 15, struct.pack("!LL", ssrc, media) + fci)


class Media:
    """Deterministic valid video stream (VP8 on V_SSRC) and audio stream."""

    def __init__(self, seq=65500, ts=4294960000, aseq=10, ats=1000, ast=None):
        self.seq, self.ts, self.pic = seq, ts, 5
        self.aseq, self.ats = aseq, ats
        self.ast = ast          # abs-send-time (24 bit, 6.18 fixed point) of the next video packet; None: no extension
        self.n = 0

    def frame(self, h264=False):
        """-> (datagrams, expected encoded frame bytes, rtp timestamp)"""
        self.n += 1
        body = bytes((self.n * 7 + i) % 251 for i in range(25 + self.n % 7))
        out = []
        if h264:
            # single NAL (type 5) then FU-A split of a second NAL (type 1)
            nal1 = bytes([0x65]) + body
            nal2 = bytes([0x41]) + body[::-1]
            pls = [nal1, bytes([0x5C, 0x81]) + nal2[1:10], bytes([0x5C, 0x41]) + nal2[10:]]
            exp = b"\x00\x00\x00\x01" + nal1 + b"\x00\x00\x00\x01" + nal2
            pt = PT_H264
        else:
            pls = vp8_payloads(body, self.pic, 12)
            self.pic = (self.pic + 1) % 32768
            exp = body
            pt = PT_VP8
        for i, pl in enumerate(pls):
            marker = 1 if i == len(pls) - 1 else 0
            if self.ast is None:
                out.append(rtp_hdr(pt, self.seq, self.ts, V_SSRC, marker=marker) + pl)
            else:
                ext = ext_block(0xBEDE, one_byte_ext([(EXT_IDS["abs_send_time"], self.ast.to_bytes(3, "big"))]))
                out.append(rtp_hdr(pt, self.seq, self.ts, V_SSRC, marker=marker, x=1) + ext + pl)
                self.ast = (self.ast + AST_STEP) % (1 << 24)
            self.seq = (self.seq + 1) % 65536
        ts = self.ts
        self.ts = (self.ts + 3000) % (1 << 32)
        return out, exp, ts

    def audio(self):
        d = rtp_hdr(PT_PCMU, self.aseq, self.ats, A_SSRC) + bytes([0x55]) * 8
        self.aseq = (self.aseq + 1) % 65536
        self.ats += 160
        return d


def expand(case):
    """case -> list of (kind, datagram, meta).  kind: 'pre' | 'hostile' | 'post'."""
    m = Media(*case.get("start", [65500, 4294960000]), ast=case.get("ast0"))
    out = []
    for i in range(case["pre"]):
        for d in m.frame(h264=False)[0]:
            out.append(("pre", d, None))
        if i % 2 == 0:
            out.append(("pre", m.audio(), None))
    for op in case["ops"]:
        d = unhx(op[0])
        for _ in range(op[2] if len(op) > 2 else 1):        # [hex, forging, repeat]: a long history of the same feedback
            out.append(("hostile", d, op[1]))
    post = []
    for i in range(case.get("post", 75)):
        ds, exp, ts = m.frame(h264=False)
        for d in ds:
            post.append(("post", d, None))
        post[-1] = ("post", post[-1][1], ("frame", exp))
    out.extend(post)
    out.append(("post", rtcp_sr(V_SSRC, 0x0123456789ABCDEF), ("sr", (0x0123456789ABCDEF >> 16) & 0xFFFFFFFF)))
    out.append(("post", rtcp_nack(77, S_SSRC, [(65535, 0b11)]), ("nack", [65535, 0, 1])))
    return out


def model_line(case):
    ds = ",".join(hx(d) for _, d, _ in expand(case))
    rtx0 = case.get("rtx0", RTX0)
    if case.get("nosrtp"):
        return f"rtpdispatch runpre {case['nosrtp']} {rtx0} {ds}"
    return f"rtpdispatch run {ds}" if rtx0 == RTX0 else f"rtpdispatch runo {rtx0} {ds}"


def run_case(case):
    """-> dict(trace=[...], slow=[(i, ms)], post=[...])"""
    import gc
    gc.collect()
    w = World(case.get("rtx0", RTX0))
    trace, slow, rembs = [], [], []
    gc.disable()            # a generation-2 collection would be billed to whichever datagram triggers it
    hung = False
    try:
        steps = expand(case)
        times = clock_times(case, steps)
        nosrtp = case.get("nosrtp", 0)
        if nosrtp:
            w.set_srtp(False)
        for i, (kind, d, meta) in enumerate(steps):
            if nosrtp and i == nosrtp:
                w.set_srtp(True)
            if times is not None:
                w.set_clock(times[i])
            ev, ms = w.feed(d)
            rembs.extend((i, r) for r in w.rembs)
            if ms > SLOW_MS:
                # re-measure is impossible (state moved on): report, the oracle decides
                slow.append((i, round(ms, 1), len(d)))
            trace.append("+".join(ev) if ev else "-")
            if "EXC hang" in ev:
                # the watchdog tore the handler down: the rest of the case is not fed
                hung = True
                trace.extend(["not-fed"] * (len(steps) - len(trace)))
                slow = []
                break
    finally:
        gc.enable()
        try:
            w.close()
        except Exception:  # noqa: BLE001
            if not hung:
                raise
    return {"trace": trace, "slow": slow, "rembs": rembs}


def clock_times(case, steps):
    """`case["clock"] = {"t0": ms, "pre": step, "ops": [step per op], "post": step, "gap": step}`: the value of
    `clock.current_ms()` when each datagram of the expanded case arrives (None: the wall clock is not touched)."""
    ck = case.get("clock")
    if not ck:
        return None
    per_op = []
    for op, st in zip(case["ops"], ck["ops"]):
        per_op.extend([st] * (op[2] if len(op) > 2 else 1))
    t, out, j, first_post = ck["t0"], [], 0, True
    for kind, _, _ in steps:
        if kind == "pre":
            t += ck["pre"]
        elif kind == "hostile":
            t += per_op[j] if j < len(per_op) else 0
            j += 1
        else:
            t += ck["post"] + (ck.get("gap", 0) if first_post else 0)
            first_post = False
        out.append(t)
    return out


def run_case_timed(case):
    """run_case; a datagram counts as slow only if it is slow in three runs of the case (CPU time of the receiving
    thread, garbage collector off: what remains is work the datagram itself causes)."""
    res = run_case(case)
    for _ in range(2):
        if not res["slow"]:
            break
        again = run_case(case)
        idx = {i for i, _, _ in again["slow"]}
        res["slow"] = [s for s in res["slow"] if s[0] in idx]
    return res


def impl_string(res):
    return "ok " + ";".join(res["trace"])


# ------------------------------------------------------------------------------------------------
# oracle: the property on the implementation's behaviour only
# ------------------------------------------------------------------------------------------------

def remb_oracle(case, rembs):
    """Every REMB the receiver sent while datagram #i was processed names only SSRCs that an RTP-looking datagram up to #i
    carried (read independently from the bytes) and names none twice."""
    if not rembs:
        return None
    steps = expand(case)
    seen, upto = set(), -1
    for i, ssrcs in rembs:
        while upto < i:
            upto += 1
            d = steps[upto][1]
            if len(d) >= 12 and 128 <= d[0] < 192 and not (192 <= d[1] <= 208):
                seen.add(int.from_bytes(d[8:12], "big"))
        if ssrcs is None:
            return f"datagram #{i} made the receiver send a PSFB application message that is not a REMB"
        if len(set(ssrcs)) != len(ssrcs) or not set(ssrcs) <= seen:
            return f"datagram #{i}: REMB lists SSRCs {ssrcs}, seen so far: {sorted(seen)}"
    return None


def forging_bye(case) -> bool:
    """Independent reading of the datagrams: does a hostile datagram carry an RTCP BYE for an SSRC that is registered or
    that an earlier RTP-looking datagram may have latched to a receiver?  Such a BYE is a *valid* protocol action (it
    ends the stream: the receiver stops its decoder), not a malformed packet; over-approximated on purpose."""
    bound = {V_SSRC, V_RTX_SSRC, A_SSRC}
    for kind, d, _ in expand(case):
        if kind != "hostile" or len(d) < 2 or not (128 <= d[0] < 192):
            continue
        if not (192 <= d[1] <= 208):
            if len(d) >= 12:
                bound.add(int.from_bytes(d[8:12], "big"))
            continue
        pos = 0
        while pos + 4 <= len(d):
            n = int.from_bytes(d[pos + 2:pos + 4], "big") * 4
            body = d[pos + 4:pos + 4 + n]
            if d[pos + 1] == 203:
                for j in range(0, len(body) - 3, 4):
                    if int.from_bytes(body[j:j + 4], "big") in bound:
                        return True
            pos += 4 + n
    return False


def oracle(case, impl_out):
    if not impl_out.startswith("ok "):
        return impl_out
    body, _, slow = impl_out[3:].partition(" SLOW ")
    trace = body.split(";")
    steps = expand(case)
    if len(trace) != len(steps):
        return f"trace has {len(trace)} entries for {len(steps)} datagrams"
    for i, (t, (kind, d, meta)) in enumerate(zip(trace, steps)):
        if "EXC " in t:
            return f"datagram #{i} ({kind}, {len(d)} bytes {hx(d)[:80]}) made the receive path raise: {t}"
        if "STATE " in t:
            return f"after datagram #{i} ({kind}) the transport is {t}"
        if "tx-unparsable" in t or "rtcp?" in t:
            return f"datagram #{i} ({kind}) made the stack send something unexpected: {t}"
    if slow:
        return "datagrams took more than %.0f ms: %s" % (SLOW_MS, slow)
    forging = forging_bye(case)
    # afterwards: valid media still reaches the decoder, valid RTCP is still processed
    post = [(t, meta) for t, (kind, d, meta) in zip(trace, steps) if kind == "post"]
    frames = [(t, meta[1]) for t, meta in post if meta and meta[0] == "frame"]
    want_tail = 20

    def delivered(exp):
        tag = ":" + hx(exp)
        return any(x.startswith("dec:v:VP8:") and x.endswith(tag) for t, _ in post for x in t.split("+"))
    if not forging:
        missing = [i for i, (t, exp) in enumerate(frames[-want_tail - 1:-1]) if not delivered(exp)]
        if missing:
            return (f"after the hostile datagrams valid VP8 frames no longer reach the decoder queue: {len(missing)} of the last "
                    f"{want_tail} complete frames missing")
    for t, meta in post:
        if meta and meta[0] == "sr" and f"lsr:v:{V_SSRC}:{meta[1]}" not in t:
            return f"a valid RTCP SR after the hostile datagrams was not processed by the receiver: {t}"
        if meta and meta[0] == "nack":
            got = [int(x.split(":")[3]) for x in t.split("+") if x.startswith("rtx:")]
            if got != meta[1]:
                return f"a valid RTCP NACK after the hostile datagrams was not answered with the retransmissions {meta[1]}: {t}"
    return None


# ------------------------------------------------------------------------------------------------
# hostile datagrams
# ------------------------------------------------------------------------------------------------
FIRST = [0, 1, 19, 20, 63, 64, 127, 128, 129, 143, 144, 159, 160, 176, 191, 192, 255]
SECOND = [0, 72, 73, 77, 78, 79, 100, 101, 102, 103, 104, 105, 106, 127, 191, 192, 199, 200, 201, 202, 203, 204, 205, 206, 207, 208, 209, 228, 229, 230, 255]
JUMPS = [1, 2, 99, 100, 101, 127, 128, 129, 1000, 32766, 32767, 32768, 32769, 65435, 65436, 65535]
SSRC_POOL = [V_SSRC, V_RTX_SSRC, A_SSRC, S_SSRC, S_RTX_SSRC, 0, 1, 0xFFFFFFFF, 777]
VIDEO_PTS = [PT_VP8, PT_RTX_VP8, PT_H264, PT_RTX_H264, PT_RTX_BADAPT, PT_RTX_NOAPT, PT_RTX_STRAPT]


def _rb(rng, n):
    return bytes(rng.randrange(256) for _ in range(n))


def _len(rng):
    r = rng.random()
    if r < 0.5:
        return rng.randrange(0, 40)
    if r < 0.9:
        return rng.randrange(40, 300)
    return rng.choice([1199, 1200, 1300, 1400, 1472])


def h264_payload(rng):
    k = rng.randrange(8)
    if k == 0:      # single NAL of every type incl. 0, 24..31
        return bytes([rng.randrange(256)]) + _rb(rng, rng.randrange(0, 20))
    if k == 1:      # FU-A with every header
        return bytes([0x7C & 0xE0 | 28, rng.randrange(256)]) + _rb(rng, rng.randrange(0, 12))
    if k in (2, 3, 4):  # STAP-A: sizes exact / off by one / zero / max
        out = bytes([24 | (rng.randrange(4) << 5)])
        for _ in range(rng.randrange(0, 5)):
            n = rng.choice([0, 1, 2, 5, 9])
            claim = rng.choice([n, n, n, n + 1, max(n - 1, 0), 0, 65535])
            out += struct.pack("!H", claim) + _rb(rng, n)
        if rng.random() < 0.3:
            out += _rb(rng, 1)          # dangling half length field
        return out
    if k == 5:
        return bytes([rng.choice([0, 24, 25, 26, 27, 28, 29, 30, 31]) | (rng.randrange(8) << 5)])
    return _rb(rng, rng.randrange(0, 6))


def vp8_payload(rng):
    first = rng.choice([0x00, 0x10, 0x80, 0x90, 0x8F, 0xFF, rng.randrange(256)])
    ext = rng.choice([0x00, 0x80, 0x40, 0x20, 0x10, 0xC0, 0xF0, 0xA0, 0x30, rng.randrange(256)])
    pic = rng.choice([b"", b"\x05", b"\x7f", b"\x80", b"\x80\x05", b"\xff\xff"])
    rest = _rb(rng, rng.randrange(0, 6))
    full = bytes([first, ext]) + pic + rest
    return full[:rng.randrange(0, len(full) + 1)] if rng.random() < 0.6 else full


def ext_items(rng, two_byte):
    items = []
    for _ in range(rng.randrange(0, 5)):
        i = rng.choice(list(range(0, 16)) + ([16, 255] if two_byte else []))
        n = rng.choice([0, 1, 2, 3, 4, 16, 17] if two_byte else [1, 2, 3, 4, 16])
        v = _rb(rng, n)
        if i in (1, 6, 7) and rng.random() < 0.5:
            v = rng.choice([b"0", b"a1", b"\xc3\xa9", b"\xff", b"\x80abc", b"ab\x7f"])
        items.append((i, v))
    return items


def hostile_rtp(rng, media):
    """Structure-aware: a valid RTP header aimed at a registered (or latchable) stream, hostile everything else."""
    pt = rng.choice(VIDEO_PTS + [PT_PCMU, 96, 127] + [PT_VP8] * 3)
    ssrc = rng.choice(SSRC_POOL + [V_SSRC] * 4 + [V_RTX_SSRC] * 2)
    base = media.seq if ssrc != A_SSRC else media.aseq
    seq = (base + rng.choice(JUMPS + [0, 0, 0, 1, 1, 65535])) % 65536
    ts = rng.choice([media.ts, media.ts + 3000, 0, 0xFFFFFFFF, rng.randrange(1 << 32)])
    marker = rng.randrange(2)
    if pt in (PT_H264,):
        payload = h264_payload(rng)
    elif pt in (PT_RTX_VP8, PT_RTX_H264, PT_RTX_BADAPT, PT_RTX_NOAPT, PT_RTX_STRAPT):
        inner = vp8_payload(rng) if pt != PT_RTX_H264 else h264_payload(rng)
        payload = rng.choice([b"", b"\x00", struct.pack("!H", (media.seq + rng.choice(JUMPS)) % 65536) + inner,
                              struct.pack("!H", rng.randrange(65536)), _rb(rng, rng.randrange(0, 5))])
    elif pt == PT_VP8:
        payload = vp8_payload(rng)
    else:
        payload = _rb(rng, rng.randrange(0, 10))
    cc = rng.choice([0, 0, 0, 1, 15])
    csrc = _rb(rng, 4 * cc)
    x = rng.randrange(2)
    ext = b""
    if x:
        two = rng.random() < 0.4
        body = two_byte_ext(ext_items(rng, True)) if two else one_byte_ext(ext_items(rng, False))
        profile = rng.choice([0x1000 if two else 0xBEDE] * 6 + [0xBEDE, 0x1000, 0, 0xFFFF])
        ext = ext_block(profile, body, words=rng.choice([None] * 6 + [0, 1, 65535, (len(body) + 3) // 4 + 1]))
    p = 1 if rng.random() < 0.15 else 0
    tail = b""
    if p:
        tail = rng.choice([b"\x00", b"\x01", b"\x00\x00\x03", b"\xff", bytes([len(payload) + 1]), bytes([max(len(payload), 1)])])
    d = rtp_hdr(pt, seq, ts, ssrc, marker=marker, cc=cc, x=x, p=p) + csrc + ext + payload + tail
    return d


def hostile_rtcp(rng, media):
    def one():
        k = rng.randrange(12)
        ssrc = rng.choice(SSRC_POOL)
        media_ssrc = rng.choice(SSRC_POOL + [S_SSRC] * 4)
        if k == 0:      # SR with n reports, count field honest or not
            n = rng.randrange(0, 4)
            reps = b"".join(rtcp_report(rng.choice(SSRC_POOL + [S_SSRC] * 3), rng.randrange(256), rng.choice([0, 1, 0x7FFFFF, 0x800000, 0xFFFFFF]),
                                        rng.randrange(1 << 32), rng.randrange(1 << 32), rng.choice([0, SENDER_LSR, rng.randrange(1 << 32)]), rng.choice([0, 1, 0xFFFFFFFF])) for _ in range(n))
            return rtcp_sr(rng.choice(SSRC_POOL + [V_SSRC] * 3), rng.choice([0, 1 << 63, (1 << 64) - 1, rng.randrange(1 << 64)]), reps,
                           count=rng.choice([n, n, n, n + 1, 31, 0])), False
        if k == 1:      # RR
            n = rng.randrange(0, 4)
            reps = b"".join(rtcp_report(rng.choice(SSRC_POOL + [S_SSRC] * 3), rng.randrange(256), rng.choice([0, 5, 0x7FFFFF, 0x800000, 0xFFFFFF]),
                                        rng.randrange(1 << 32), rng.randrange(1 << 32), rng.choice([0, SENDER_LSR]), rng.choice([0, 1, 0xFFFFFFFF])) for _ in range(n))
            return rtcp_pkt(201, rng.choice([n, n, n, n + 1, 31, 0]), struct.pack("!L", ssrc) + reps), False
        if k == 2:      # SDES with nonsense items
            body = b""
            for _ in range(rng.randrange(0, 3)):
                body += struct.pack("!L", rng.choice(SSRC_POOL))
                for _ in range(rng.randrange(0, 3)):
                    n = rng.choice([0, 1, 5])
                    body += bytes([rng.choice([0, 1, 2, 255]), rng.choice([n, n, n + 1, 255])]) + _rb(rng, n)
                body += b"\x00" * rng.choice([0, 1, 2])
            body += b"\x00" * ((-len(body)) % 4)
            return rtcp_pkt(202, rng.choice([0, 1, 2, 31]), body), False
        if k == 3:      # BYE
            srcs = [rng.choice(SSRC_POOL) for _ in range(rng.randrange(0, 4))]
            cnt = rng.choice([len(srcs)] * 3 + [len(srcs) + 1, 31, 0])
            forging = any(s in (V_SSRC, V_RTX_SSRC, A_SSRC) for s in srcs[:cnt]) and cnt <= len(srcs)
            return rtcp_pkt(203, cnt, b"".join(struct.pack("!L", s) for s in srcs)), forging
        if k in (4, 5):  # NACK, incl. floods
            n = rng.choice([0, 1, 1, 2, 3, 40, 290])
            ents = [(rng.choice(HISTORY + [rng.randrange(65536)]), rng.choice([0, 1, 0xFFFF, 0x8000, rng.randrange(65536)])) for _ in range(n)]
            pkt = rtcp_nack(ssrc, media_ssrc, ents)
            if rng.random() < 0.2:
                pkt = pkt[:2] + struct.pack("!H", rng.choice([0, 1, 2, 0xFFFF])) + pkt[4:]
            if rng.random() < 0.2:
                pkt = bytes([0x80 | rng.randrange(32)]) + pkt[1:]
            return pkt, False
        if k == 6:      # PLI / FIR / other PSFB fmts
            fmt = rng.choice([1, 4, 2, 3, 0, 31])
            return rtcp_pkt(206, fmt, struct.pack("!LL", ssrc, media_ssrc) + _rb(rng, 4 * rng.randrange(0, 3))), False
        if k in (7, 8):  # REMB with right / wrong counts, prefix, exponent
            ss = [rng.choice(SSRC_POOL + [S_SSRC] * 3) for _ in range(rng.randrange(0, 4))]
            n = rng.choice([len(ss)] * 3 + [len(ss) + 1, 255, 0, max(len(ss) - 1, 0)])
            pkt = rtcp_remb(ssrc, n, rng.choice([0, 1, 10, 46, 63]), rng.randrange(1 << 18), ss, media=rng.choice([0, S_SSRC, 5]))
            if rng.random() < 0.15:
                pkt = pkt.replace(b"REMB", b"REMC")
            if rng.random() < 0.2:
                cut = rng.randrange(0, 5) * 4
                body = pkt[4:len(pkt) - cut] if cut else pkt[4:]
                pkt = pkt[:2] + struct.pack("!H", len(body) // 4) + body
            return pkt, False
        if k == 9:      # unknown packet types, XR, APP
            return rtcp_pkt(rng.choice([192, 193, 194, 195, 199, 204, 207, 208]), rng.randrange(32), _rb(rng, 4 * rng.randrange(0, 4))), False
        if k == 10:     # padding games
            body = _rb(rng, 4 * rng.randrange(1, 4))
            body = body[:-1] + bytes([rng.choice([0, 1, 4, len(body), len(body) + 1, 255])])
            return rtcp_pkt(rng.choice([200, 201, 203, 205, 206]), rng.randrange(32), body, p=1), False
        return rtcp_pkt(rng.choice([200, 201, 202, 203, 205, 206]), rng.randrange(32), _rb(rng, 4 * rng.randrange(0, 8))), False
    parts, forging = [], False
    for _ in range(rng.choice([1, 1, 1, 2, 3])):
        b, f = one()
        parts.append(b)
        forging = forging or f
    d = b"".join(parts)
    if rng.random() < 0.1:
        d += _rb(rng, rng.randrange(1, 4))
    return d, forging


def mutate(rng, d, keep=2):
    """Classic malformed stream on a valid datagram: truncation, bit flips, appended garbage."""
    k = rng.randrange(4)
    if k == 0 and len(d) > keep:
        return d[:rng.randrange(keep, len(d))]
    if k == 1 and len(d) > keep:
        b = bytearray(d)
        for _ in range(rng.choice([1, 1, 2, 8])):
            i = rng.randrange(keep, len(b))
            b[i] ^= 1 << rng.randrange(8)
        return bytes(b)
    if k == 2:
        return d + _rb(rng, rng.randrange(1, 8))
    b = bytearray(d)
    if len(b) > keep:
        b[rng.randrange(keep, len(b))] = rng.choice([0, 1, 0x7F, 0x80, 0xFF])
    return bytes(b)


def is_forging_bye(d: bytes) -> bool:
    """Conservative: does the datagram contain a BYE packet type byte and a receiver SSRC?  (A BYE that stops the
    decoder is a valid protocol action, not a malformed packet.)"""
    if len(d) < 2 or not (192 <= d[1] <= 208):
        return False
    has_bye = any(d[i] == 203 for i in range(1, len(d)))
    return has_bye and any(struct.pack("!L", s) in d for s in (V_SSRC, V_RTX_SSRC, A_SSRC))


def gen_hostile(rng, media):
    r = rng.random()
    if r < 0.12:
        n = _len(rng)
        d = _rb(rng, n)
        if n >= 1 and rng.random() < 0.8:
            d = bytes([rng.choice(FIRST + [128, 129, 144] * 3)]) + d[1:]
        if n >= 2 and rng.random() < 0.8:
            d = d[:1] + bytes([rng.choice(SECOND)]) + d[2:]
        return d, is_forging_bye(d), "random"
    if r < 0.5:
        d = hostile_rtp(rng, media)
        if rng.random() < 0.25:
            d = mutate(rng, d)
        return d, False, "rtp"
    if r < 0.9:
        d, f = hostile_rtcp(rng, media)
        if rng.random() < 0.25:
            d = mutate(rng, d)
            f = f or is_forging_bye(d)
        return d, f, "rtcp"
    # mutation of a VALID media packet / SR / NACK
    m2 = Media(media.seq, media.ts)
    base = rng.choice(m2.frame(h264=rng.random() < 0.3)[0] + [rtcp_sr(V_SSRC, 1 << 40), rtcp_nack(1, S_SSRC, [(0, 1)])])
    d = mutate(rng, base, keep=rng.choice([0, 1, 2]))
    return d, is_forging_bye(d), "mutated-valid"


def gen_origins(rng, case):
    """Where the counters under the receive path start: the sender's RTX sequence number (the library draws it itself),
    and what the peer's media starts from (receiver side: NACK generator, stream statistics, jitter buffer origin,
    timestamp mapper, abs-send-time of the bitrate estimator) - close to the wrap points and the sign boundaries."""
    rtx0 = rng.choice([RTX0] * 3 + O.NEAR16 + [65535 - rng.randrange(12), 65535 - rng.randrange(12), rng.randrange(65536)])
    if rtx0 != RTX0:
        case["rtx0"] = rtx0
    if rng.random() < 0.25:
        case["ast0"] = rng.choice([(1 << 24) - 1 - rng.randrange(40) * AST_STEP, (1 << 24) - 1, 0,
                                   (1 << 23) - 5 * AST_STEP, rng.randrange(1 << 24)])
    return case


def feedback_datagram(rng):
    """One WELL-FORMED feedback datagram for the sender / the receivers (cheap: no media has to be encoded)."""
    k = rng.randrange(9)
    if k <= 3:      # generic NACK for packets of the history, a few entries
        ents = [(rng.choice(HISTORY), rng.choice([0, 1, 0x1FF, 0xFFFF, rng.randrange(65536)]))
                for _ in range(rng.choice([1, 1, 1, 2, 5, 30]))]
        return rtcp_nack(rng.choice([1, 77, V_SSRC]), S_SSRC, ents)
    if k == 4:      # PLI / FIR
        return rtcp_pkt(206, rng.choice([1, 4]), struct.pack("!LL", 1, S_SSRC))
    if k == 5:      # RR about the sender, counters at their boundaries
        rep = rtcp_report(S_SSRC, rng.choice([0, 1, 255]), rng.choice([0, 1, 0x7FFFFF, 0x800000, 0xFFFFFF]),
                          rng.choice([0, 65535, 65536, 0xFFFFFFFF, 0xFFFF0000]), rng.choice([0, 1, 0xFFFFFFFF]),
                          rng.choice([0, SENDER_LSR]), rng.choice([0, 1, 65536, 0xFFFFFFFF]))
        return rtcp_pkt(201, 1, struct.pack("!L", 9) + rep)
    if k == 6:      # SR of the peer's video stream (+ a report about the sender)
        rep = rtcp_report(S_SSRC, 3, 5, rng.choice([65535, 65536, 0xFFFFFFFF]), 7, SENDER_LSR, 0xFFFFFFFF)
        return rtcp_sr(V_SSRC, rng.choice([0, 1 << 63, (1 << 64) - 1, 0xFFFFFFFF0000, rng.randrange(1 << 64)]), rep, 1)
    if k == 7:      # REMB naming the sender
        return rtcp_remb(1, 1, rng.choice([0, 1, 10, 46, 63]), rng.randrange(1 << 18), [S_SSRC])
    # NACK flood: 100 entries x 10 packets of the history = 1000 retransmissions for one datagram
    return rtcp_nack(1, S_SSRC, [(65530, 0xFFFF)] * 100)


def gen_long_case(rng, total, full_cycle=False):
    """A LONG history of well-formed feedback (`total` datagrams; NACK / PLI / FIR / RR / SR / REMB, each repeated many
    times) against counters that start close to their wrap point.  `full_cycle`: enough retransmissions to take the
    16-bit RTX sequence number once around from ANY origin."""
    case = {"pre": rng.choice([0, 1]), "start": [65535 - rng.randrange(6), (1 << 32) - 1 - rng.randrange(9000)],
            "ops": [], "post": 25}
    case["rtx0"] = rng.choice([65535 - rng.randrange(0, 40), 65535 - rng.randrange(0, 400), 32767 - rng.randrange(0, 40),
                               65535, 0, rng.randrange(32768)])
    left = total
    if full_cycle:
        case["rtx0"] = rng.randrange(32768)                 # what random_sequence_number() itself can return
        case["ops"].append([hx(rtcp_nack(1, S_SSRC, [(65530, 0xFFFF)] * 100)), False, 67])
        left -= 67
    while left > 0:
        d = feedback_datagram(rng)
        rep = min(left, rng.choice([1, 3, 10, 40, 150]) if len(d) <= 40 else rng.choice([1, 3, 10]) if len(d) < 300 else rng.choice([1, 2, 3]))
        case["ops"].append([hx(d), False, rep])
        left -= rep
    rng.shuffle(case["ops"])
    return case


IDLE_GAPS = [1999, 2000, 2001, 5000, 10000]
STEPS_MS = [0, 1, 5, 10, 20, 33, 100, 500, 1000]


def ast_of(ms):
    """abs-send-time (24 bit, 6.18 fixed point seconds) of a packet sent at `ms`."""
    return ((ms << 18) // 1000) & 0xFFFFFF


def gen_timed_case(rng):
    """ELAPSED TIME and SEVERAL STREAMS per receiver.  The clock the receive path reads advances per datagram by realistic
    and by large steps (0 .. 1000 ms, idle gaps of 1999 / 2000 / 2001 / 5000 / 10000 ms); the main video stream (pre / post
    media, abs-send-time on every packet) flows for >= 4.5 s of simulated time so that the remote bitrate estimator
    produces estimates (REMB); in between, 1..3 secondary streams that reach the same receiver - retransmissions on the RTX
    SSRC, stray SSRCs with a payload type of the receiver - start and fall silent at different times."""
    t0 = rng.choice([1700000000000, 0, (1 << 32) - 3000, (1 << 31) - 3000, rng.randrange(1 << 41)])
    post_step = rng.choice([20, 20, 33, 50, 100])
    start = [rng.choice([100, 65500, 65535 - rng.randrange(9)]), rng.choice([0, 4294960000, 123456])]
    case = {"pre": rng.choice([1, 3, 6]), "start": start, "ops": [], "post": 75,
            "ast0": ast_of(t0) if rng.random() < 0.7 else rng.randrange(1 << 24)}
    streams = rng.sample([(V_RTX_SSRC, PT_RTX_VP8), (777, PT_RTX_NOAPT), (999, PT_RTX_BADAPT), (0xFFFFFFFF, PT_RTX_NOAPT), (V_RTX_SSRC, PT_RTX_H264)],
                         rng.choice([1, 1, 2, 3]))
    t = t0 + case["pre"] * 3 * 10
    steps, seq = [], rng.randrange(65536)
    for _ in range(rng.choice([1, 2, 4, 8, 20])):
        ssrc, pt = rng.choice(streams)
        st = rng.choice(STEPS_MS + IDLE_GAPS)
        t += st
        seq = (seq + 1) % 65536
        ext = ext_block(0xBEDE, one_byte_ext([(EXT_IDS["abs_send_time"], ast_of(t).to_bytes(3, "big"))]))
        payload = struct.pack("!H", (start[0] - 1 - rng.randrange(3)) % 65536) + b"\x10abc"
        case["ops"].append([hx(rtp_hdr(pt, seq, (t * 90) & 0xFFFFFFFF, ssrc, x=1) + ext + payload), False])
        steps.append(st)
    case["clock"] = {"t0": t0, "pre": 10, "ops": steps, "post": post_step, "gap": rng.choice([0, 20] + IDLE_GAPS)}
    if rng.random() < 0.3:
        case["rtx0"] = 65535 - rng.randrange(12)
    return case


def gen_case(rng, nmax=24):
    pre = rng.choice([0, 0, 1, 2, 3, 6])
    start = [rng.choice([0, 100, 65500, 65535, 32760, 32767, 65535 - rng.randrange(9)]),
             rng.choice([0, 4294960000, 123456, (1 << 32) - 1, (1 << 31) - 3000])]
    case = gen_origins(rng, {"pre": pre, "start": start, "ops": []})
    m = Media(*start)
    for i in range(pre):
        m.frame()
    for _ in range(rng.randrange(1, nmax + 1)):
        d, f, _ = gen_hostile(rng, m)
        case["ops"].append([hx(d), bool(f)])
    if rng.random() < 0.15:
        # the hostile datagrams are spread over time (several SSRCs with abs-send-time reach the estimator at different times)
        case["clock"] = {"t0": rng.choice([1700000000000, 0, (1 << 32) - 3000]), "pre": 10,
                         "ops": [rng.choice(STEPS_MS + IDLE_GAPS) for _ in case["ops"]], "post": rng.choice([20, 33, 100]),
                         "gap": rng.choice([0, 20] + IDLE_GAPS)}
        case.setdefault("ast0", ast_of(case["clock"]["t0"]))
    if rng.random() < 0.2:
        # the receive path is entered before the SRTP sessions exist: `_do_handshake` reads datagrams through `_recv_next`
        n = sum(1 for kind, _, _ in expand(case) if kind != "post")
        case["nosrtp"] = rng.randrange(1, n + 1)
    return case


def systematic_cases():
    """Deterministic sweeps (quantifier of the property: every field boundary, every id x length, every first byte)."""
    out = []
    m = Media()
    valid = m.frame()[0][0]
    # 1. every truncation of a valid VP8 packet with a one-byte extension block, of a two-byte form packet, of SR+RR+SDES+BYE-less compound
    with_ext = rtp_hdr(PT_VP8, 65503, 4294963000, V_SSRC, marker=1, x=1) + ext_block(0xBEDE, one_byte_ext([(1, b"0"), (2, b"abc"), (3, b"xyz"), (4, b"\x85"), (5, b"\x00\x07")])) + valid[12:]
    two = rtp_hdr(PT_VP8, 65503, 4294963000, V_SSRC, marker=1, x=1) + ext_block(0x1000, two_byte_ext([(1, b"0"), (2, b"abc"), (6, b"r1"), (7, b"r2"), (16, b"")])) + valid[12:]
    comp = rtcp_sr(V_SSRC, 1 << 40, rtcp_report(S_SSRC, 1, 2, 3, 4, 5, 6), 1) + rtcp_pkt(201, 1, struct.pack("!L", 9) + rtcp_report(S_SSRC)) + \
        rtcp_nack(1, S_SSRC, [(0, 3)]) + rtcp_remb(1, 1, 3, 1000, [S_SSRC]) + rtcp_pkt(206, 1, struct.pack("!LL", 1, S_SSRC))
    for base in (with_ext, two, comp):
        ops = [[hx(base[:i]), False] for i in range(0, len(base) + 1)]
        for j in range(0, len(ops), 24):
            out.append({"pre": 2, "ops": ops[j:j + 24], "post": 30})
    # 2. every extension id x length, one-byte and two-byte form
    ops = []
    for i in range(0, 16):
        for n in (1, 2, 3, 4, 16):
            ops.append([hx(rtp_hdr(PT_VP8, 65504, 4294963000, V_SSRC, x=1) + ext_block(0xBEDE, one_byte_ext([(i, b"a" * n)])) + valid[12:]), False])
    for i in (0, 1, 2, 3, 4, 5, 6, 7, 8, 15, 16, 255):
        for n in (0, 1, 2, 3, 4, 17, 255):
            ops.append([hx(rtp_hdr(PT_VP8, 65504, 4294963000, V_SSRC, x=1) + ext_block(0x1000, two_byte_ext([(i, b"a" * n)])) + valid[12:]), False])
    for j in range(0, len(ops), 24):
        out.append({"pre": 1, "ops": ops[j:j + 24], "post": 30})
    # 3. first byte x second byte demultiplexing grid, lengths 0..3 and 12
    ops = [["-", False]]
    for a in FIRST:
        ops.append([hx(bytes([a])), False])
        for b in (0, 191, 192, 200, 203, 208, 209):
            ops.append([hx(bytes([a, b])), False])
            ops.append([hx(bytes([a, b]) + b"\x00" * 10), False])
    for j in range(0, len(ops), 24):
        out.append({"pre": 0, "ops": ops[j:j + 24], "post": 10})
    # 4. RTX: payload 0/1/2/3 bytes x every RTX payload type x known/unknown RTX SSRC
    ops = []
    for pt in (PT_RTX_VP8, PT_RTX_H264, PT_RTX_BADAPT, PT_RTX_NOAPT, PT_RTX_STRAPT):
        for ssrc in (V_RTX_SSRC, V_SSRC, 999):
            for pl in (b"", b"\x00", b"\xff\xdc", b"\xff\xdd\x10", b"\xff\xde\x90\x80\x05zz"):
                ops.append([hx(rtp_hdr(pt, 300, 5, ssrc) + pl), False])
    for j in range(0, len(ops), 25):
        out.append({"pre": 2, "ops": ops[j:j + 25], "post": 30})
    # 5. sequence jumps while media flows (video and audio)
    for jmp in JUMPS:
        m2 = Media()
        for _ in range(3):
            m2.frame()
        d = rtp_hdr(PT_VP8, (m2.seq + jmp) % 65536, m2.ts, V_SSRC, marker=1) + b"\x10abc"
        a = rtp_hdr(PT_PCMU, (m2.aseq + jmp) % 65536, 7, A_SSRC) + b"abcd"
        out.append({"pre": 3, "ops": [[hx(d), False], [hx(a), False]], "post": 75})
    # 6. codec descriptors cut at every byte
    ops = []
    stap = bytes([0x78]) + struct.pack("!H", 3) + b"\x65ab" + struct.pack("!H", 2) + b"\x41c"
    fua = bytes([0x7C, 0x85]) + b"abc"
    vp8 = bytes([0x90, 0xF0, 0x80, 0x05, 0x07, 0x6A]) + b"xy"
    for base, pt in ((stap, PT_H264), (fua, PT_H264), (vp8, PT_VP8)):
        for i in range(0, len(base) + 1):
            ops.append([hx(rtp_hdr(pt, 65510 + i, 4294969000, V_SSRC, marker=1) + base[:i]), False])
            ops.append([hx(rtp_hdr(PT_RTX_H264 if pt == PT_H264 else PT_RTX_VP8, 40 + i, 4294969000, V_RTX_SSRC, marker=1) + struct.pack("!H", 65520 + i) + base[:i]), False])
    for j in range(0, len(ops), 24):
        out.append({"pre": 2, "ops": ops[j:j + 24], "post": 40})
    # 7. NACK floods and REMB counts
    flood = rtcp_nack(1, S_SSRC, [(65530, 0xFFFF)] * 290)
    out.append({"pre": 1, "ops": [[hx(flood), False]], "post": 10})
    ops = [[hx(rtcp_remb(1, n, 3, 1000, [S_SSRC] * k)), False] for n in (0, 1, 2, 3, 255) for k in (0, 1, 2, 3)]
    out.append({"pre": 1, "ops": ops, "post": 10})
    # 8. before the SRTP sessions exist (DTLS handshake in progress): the first x second byte grid, valid media, valid RTCP
    ops = [["-", False]]
    for a in FIRST:
        ops.append([hx(bytes([a])), False])
        for b in (0, 191, 192, 200, 208, 209):
            ops.append([hx(bytes([a, b]) + b"\x00" * 10), False])
    ops += [[hx(valid), False], [hx(with_ext), False], [hx(comp), False], [hx(rtcp_nack(1, S_SSRC, [(0, 3)])), False]]
    for j in range(0, len(ops), 24):
        chunk = ops[j:j + 24]
        out.append({"pre": 0, "ops": chunk, "post": 10, "nosrtp": len(chunk)})
    out.append({"pre": 2, "ops": ops[-4:], "post": 10, "nosrtp": 3})
    return out


# ------------------------------------------------------------------------------------------------
# components
# ------------------------------------------------------------------------------------------------

def _label(case, impl_out):
    if not impl_out.startswith("ok "):
        return "harness"
    trace = impl_out[3:].split(";")
    steps = expand(case)
    seen = set()
    for t, (kind, d, _) in zip(trace, steps):
        if kind != "hostile":
            continue
        if not d:
            seen.add("empty")
        elif 19 < d[0] < 64:
            seen.add("dtls")
        elif not (127 < d[0] < 192):
            seen.add("ignored")
        elif len(d) >= 2 and 192 <= d[1] <= 208:
            seen.update("rtcp:" + x.split(":")[0] for x in (t.split("+") if t != "-" else ["quiet"]))
        else:
            seen.update("rtp:" + x.split(":")[0] for x in (t.split("+") if t != "-" else ["quiet"]))
    # one label per case: the rarest thing a hostile datagram of the case made the stack do
    for ev in ("stop", "br", "kf", "lsr", "rr", "rtx", "pli", "dec", "nack", "quiet"):
        for side in ("rtcp:", "rtp:"):
            if side + ev in seen:
                return side + ev
    for k in ("empty", "dtls", "ignored"):
        if k in seen:
            return k
    return "none"


class RtpWorld(Component):
    name = "rtp-dispatch"
    theorems = ["recv_next_total", "recv_next_rejected_unchanged", "handle_rtp_data_total", "handle_rtcp_data_total",
                "receiver_handle_rtp_total", "sender_handle_rtcp_total", "nack_add_bounded", "parsers_total_rtp"]
    quick = 260
    thorough = 1200

    def __init__(self):
        self._slow = {}
        self._rembs = {}

    def corpus(self):
        return systematic_cases()

    def cases(self, rng, tier):
        n = self.quick if tier == "quick" else self.thorough
        out = [gen_case(rng) for _ in range(n)]
        # elapsed time and several streams per receiver
        out += [gen_timed_case(rng) for _ in range(12 if tier == "quick" else 120)]
        # long feedback histories over counters that start next to their wrap point
        if tier == "quick":
            out += [gen_long_case(rng, rng.choice([300, 500, 800])) for _ in range(5)]
        else:
            out += [gen_long_case(rng, rng.choice([3000, 6000, 12000])) for _ in range(10)]
            out += [gen_long_case(rng, 2500, full_cycle=True) for _ in range(2)]
        return out

    def model_line(self, case):
        return model_line(case)

    def impl(self, case):
        res = run_case_timed(case)
        key = json.dumps(case, sort_keys=True)
        if res["slow"]:
            self._slow[key] = res["slow"]
        else:
            self._slow.pop(key, None)
        self._rembs[key] = res["rembs"]
        return impl_string(res)

    def oracle(self, case, impl_out):
        r = oracle(case, impl_out)
        if r:
            return r
        slow = self._slow.get(json.dumps(case, sort_keys=True))
        if slow:
            steps = expand(case)
            return "datagrams cost more than %.0f ms of CPU in three runs: %s" % (
                SLOW_MS, [(i, ms, n, hx(steps[i][1])[:60]) for i, ms, n in slow])
        return remb_oracle(case, self._rembs.get(json.dumps(case, sort_keys=True)) or [])

    def label(self, case, impl_out):
        lab = _label(case, impl_out)
        if case.get("clock"):
            n = len(self._rembs.get(json.dumps(case, sort_keys=True)) or [])
            return "timed:" + ("remb" if n else "no-remb") + ":" + lab
        return lab

    def nontrivial(self, case, impl_out):
        lab = _label(case, impl_out)
        return lab.startswith(("rtp:", "rtcp:"))

    def shrink(self, case):
        ops = case["ops"]
        if len(ops) > 8:            # long histories: halves first
            yield dict(case, ops=ops[:len(ops) // 2])
            yield dict(case, ops=ops[len(ops) // 2:])
        for i in range(len(ops)):
            if len(ops) > 1:
                yield dict(case, ops=ops[:i] + ops[i + 1:])
        for i, op in enumerate(ops):
            if len(op) > 2 and op[2] > 1:
                for r in sorted({1, op[2] // 2, op[2] - 1}):
                    if r < op[2]:
                        yield dict(case, ops=ops[:i] + [[op[0], op[1], r]] + ops[i + 1:])
        if case.get("ast0") is not None:
            yield {k: v for k, v in case.items() if k != "ast0"}
        if case.get("clock"):
            ck = case["clock"]
            if len(ck["ops"]) == len(ops):      # keep the schedule aligned with the ops that are left
                for i in range(len(ops)):
                    if len(ops) > 1:
                        yield dict(case, ops=ops[:i] + ops[i + 1:], clock=dict(ck, ops=ck["ops"][:i] + ck["ops"][i + 1:]))
        if case["pre"]:
            yield dict(case, pre=case["pre"] - 1)
        # (no shrinking of `post`: with fewer than ~45 frames after a hole in the sequence numbers the jitter buffer has not
        # moved on yet, and the shrunk case would fail the frame-delivery clause for a reason of its own)
        for i, op in enumerate(ops):
            d = unhx(op[0])
            if len(d) > 2:
                yield dict(case, ops=ops[:i] + [[hx(d[:-1]), op[1]]] + ops[i + 1:])


class NackGen(Component):
    """`NackGenerator.add` alone: state (max_seq, missing) x next sequence number; result, and the number of loop iterations
    the fixed code needs (the oracle bounds the real code's work by counting `set.add` calls)."""
    name = "nack-generator"
    theorems = ["nack_add_bounded", "nack_add_unfixed_walks", "nack_fix_same_result"]

    def corpus(self):
        return [{"max": 0, "missing": [], "seq": 32767}, {"max": 65535, "missing": [65000], "seq": 32766},
                {"max": None, "missing": [], "seq": 5}, {"max": 10, "missing": [], "seq": 11}]

    def cases(self, rng, tier):
        out = []
        for _ in range(300 if tier == "quick" else 4000):
            m = rng.choice([None, 0, 1, 127, 128, 32767, 32768, 65535, rng.randrange(65536)])
            base = 0 if m is None else m
            missing = sorted({(base - rng.randrange(1, 140)) % 65536 for _ in range(rng.randrange(0, 6))})
            seq = (base + rng.choice(JUMPS + [0, 1, 2, 3, 129, 130, 200] + [65536 - k for k in (1, 2, 50, 128, 129)])) % 65536
            out.append({"max": m, "missing": missing, "seq": seq})
        return out

    def model_line(self, case):
        m = "N" if case["max"] is None else str(case["max"])
        ms = ",".join(str(x) for x in case["missing"]) if case["missing"] else "-"
        return f"rtpdispatch nack {m} {ms} {case['seq']}"

    def _run(self, case):
        from aiortc.rtcrtpreceiver import NackGenerator
        from aiortc.rtp import RtpPacket

        class CountingSet(set):
            adds = 0

            def add(self, x):
                CountingSet.adds += 1
                return set.add(self, x)
        g = NackGenerator()
        g.max_seq = case["max"]
        CountingSet.adds = 0
        g.missing = CountingSet(case["missing"])
        with O.cpu_limit():
            missed = g.add(RtpPacket(sequence_number=case["seq"]))
        return g, missed, CountingSet.adds

    def impl(self, case):
        try:
            g, missed, adds = self._run(case)
        except (Exception, O.Hang) as exc:  # noqa: BLE001
            return _exc_tag(exc)
        mx = "N" if g.max_seq is None else str(g.max_seq)
        return f"ok {mx} {'.'.join(str(x) for x in sorted(g.missing))} {1 if missed else 0} {adds}"

    def oracle(self, case, impl_out):
        if not impl_out.startswith("ok "):
            return "NackGenerator.add raised: " + impl_out
        adds = int(impl_out.split(" ")[-1])
        if adds > 128:
            return f"one RTP packet made NackGenerator.add do {adds} set insertions (only the last 128 sequence numbers are kept)"
        return None

    def label(self, case, impl_out):
        if case["max"] is None:
            return "first"
        d = (case["seq"] - case["max"]) % 65536
        return "dup" if d == 0 else "next" if d == 1 else "gap<=128" if d <= 129 else "jump" if d < 32768 else "old"


class NackFixEquivalence(NackGen):
    """fixes/C05b-nack-generator-jump.patch does not change behaviour: the PINNED loop of the model (walks every skipped
    sequence number) against the patched implementation, result only (max_seq, missing, missed)."""
    name = "nack-fix-equivalence"
    theorems = ["nack_add_unfixed_walks"]

    def corpus(self):
        return [{"max": 65535, "missing": [65000], "seq": 32766}, {"max": 10, "missing": [], "seq": 11}]

    def cases(self, rng, tier):
        # the pinned model loop is quadratic in the jump (a Python set is a duplicate-free list there): keep jumps below 3000
        out = []
        for c in super().cases(rng, tier):
            if c["max"] is not None and 3000 <= (c["seq"] - c["max"]) % 65536 < 32768:
                c = dict(c, seq=(c["max"] + rng.choice([129, 130, 200, 1000, 2999])) % 65536)
            out.append(c)
        return out[: (150 if tier == "quick" else 1500)]

    def model_line(self, case):
        return NackGen.model_line(self, case).replace("rtpdispatch nack ", "rtpdispatch nack-pinned-result ")

    def impl(self, case):
        out = super().impl(case)
        return out.rsplit(" ", 1)[0] if out.startswith("ok ") else out

    def oracle(self, case, impl_out):
        return None if impl_out.startswith("ok ") else "NackGenerator.add raised: " + impl_out


class ManyStreams(Component):
    """State that only datagrams can build up: N distinct SSRCs latched to the video receiver (`__remote_streams` is
    never pruned), then the receiver's own RTCP timer fires.  Oracle: the RTCP task survives, every receiver report it
    sends is a parsable RTCP RR with at most 31 report blocks, together they cover every stream, `receiver.stop()`
    returns, and media still flows.  No model counterpart (the RR timer is C18's `runRtcp`)."""
    name = "many-streams"
    theorems = ["still_alive"]

    def corpus(self):
        # "cycles": the extended highest sequence number of every stream starts that far into its 32-bit space (as after
        # 65535 wraps of the 16-bit sequence number; attribute shifted only if it is still there), then the stream wraps
        return [{"n": n} for n in (1, 31, 32, 33, 255, 256, 300)] + [{"n": 2, "cycles": 0xFFFF0000}, {"n": 1, "cycles": 0x7FFF0000}]

    def cases(self, rng, tier):
        out = [{"n": rng.choice([2, 30, 62, 63, 64, 100, 257, 400])} for _ in range(2 if tier == "quick" else 8)]
        out += [{"n": rng.choice([1, 3, 33]), "cycles": rng.choice([0xFFFF0000, 0xFFFE0000, 0x7FFF0000])} for _ in range(1 if tier == "quick" else 4)]
        return out

    def impl(self, case):
        import asyncio
        import aiortc.rtcrtpreceiver as rr
        saved = rr.random.random
        rr.random.random = lambda: -0.49        # RR interval 10 ms instead of 0.5 .. 1.5 s
        w = World()
        out = []
        try:
            cycles = case.get("cycles")
            for i in range(case["n"]):
                ev, _ = w.feed(rtp_hdr(PT_VP8, i if cycles is None else 65535, 0, 100000 + i) + b"\x10abc")
                if any(x.startswith(("EXC", "STATE")) for x in ev):
                    out.append("feed:" + "+".join(ev))
            if cycles is not None:
                _, streams = O.opt_get(w.video, "_RTCRtpReceiver__remote_streams")
                for st in (streams or {}).values():
                    O.opt_set(st, "cycles", cycles)
                for i in range(case["n"]):      # 65535 -> 0: the 16-bit sequence number wraps, `cycles` moves on
                    ev, _ = w.feed(rtp_hdr(PT_VP8, 0, 3000, 100000 + i) + b"\x10abc")
                    if any(x.startswith(("EXC", "STATE")) for x in ev):
                        out.append("feed:" + "+".join(ev))
            sent = []
            w.ice.log = sent
            w.loop.run_until_complete(asyncio.sleep(0.15))
            task = w.video._RTCRtpReceiver__rtcp_task
            if task.done():
                out.append("rtcp-task-died:" + (_exc_tag(task.exception()) if task.exception() else "returned"))
            seen, bad = set(), 0
            for _, data in sent:
                try:
                    for p in w.rtp.RtcpPacket.parse(data):
                        if isinstance(p, w.rtp.RtcpRrPacket):
                            if len(p.reports) > 31:
                                bad += 1
                            seen.update(r.ssrc for r in p.reports)
                except ValueError:
                    bad += 1
            if bad:
                out.append(f"malformed-rr:{bad}")
            missing = {100000 + i for i in range(case["n"])} - seen
            if missing and not task.done():
                out.append(f"streams-not-reported:{len(missing)}")
            w.ice.log = w.log

            async def stop():
                try:
                    await asyncio.wait_for(w.video.stop(), 2)
                    await asyncio.wait_for(w.audio.stop(), 2)
                except asyncio.TimeoutError:
                    out.append("stop-hangs")
            w.loop.run_until_complete(stop())
        finally:
            rr.random.random = saved
            # whatever happened, let the (non-daemon) decoder threads end and drop the loop
            for r in (w.video, w.audio):
                r._RTCRtpReceiver__decoder_queue.put(None)
            for t in asyncio.all_tasks(w.loop):
                t.cancel()
            w.loop.run_until_complete(asyncio.sleep(0))
            w.loop.close()
        return "ok " + (";".join(out) if out else "-")

    def oracle(self, case, impl_out):
        return None if impl_out == "ok -" else f"{case['n']} distinct SSRCs, then the receiver's RTCP timer: {impl_out}"

    def label(self, case, impl_out):
        n = case["n"]
        return ("<=31" if n <= 31 else "<=255" if n <= 255 else ">=256") + (":cycles" if case.get("cycles") is not None else "")


def components(tier):
    from harness import c05history as H
    from harness import c05setup as U
    return [RtpWorld(), NackGen(), NackFixEquivalence(), ManyStreams(), H.FeedbackHistory(), U.Setup()]
