"""C05 (RTP / DTLS part) — the receive path DURING set-up and tear-down.

`RTCDtlsTransport._recv_next` is not only the body of the data pump (`__run`, started after `_setup_srtp()`): `_do_handshake()`
reads every datagram of the handshake through it, when the SRTP sessions do not exist yet and the state is `connecting`.
`rtp-dispatch` feeds an already connected transport; this component drives a REAL pair of `RTCDtlsTransport`s (real
certificates, real OpenSSL handshake, real SRTP sessions) over an in-memory link that the harness steps one datagram at a
time, and injects hostile / early datagrams at EVERY point of the life of the transport:

    before start() | before the k-th datagram of the handshake, k = 0, 1, … in either direction | when one side is
    connected and the other is not (its first real SRTP / SRTCP packets overtake the last flight) | right after
    `connected` | between stop() of one side and the arrival of its close_notify | after `closed`

Datagrams: SRTP / SRTCP-looking (first byte 128..191, valid RTP / RTCP headers + authentication tag), the peer's REAL
protected packets sent early, DTLS-looking (first byte 20..63: truncated / over-long records, wrong version, wrong epoch,
application data before the handshake completes, nonsense handshake fragments, several records), STUN-looking (0..3),
TURN channel data (64..79), empty, 1 byte, 1500+ bytes, duplicates of genuine flights.

Oracle (implementation only): `start()` raises nothing on either side; both sides reach `connected`; RTP, RTCP and DTLS
application data flow in both directions afterwards and after every later hostile datagram; no hostile datagram costs
more than 50 ms of CPU; `stop()` returns and the peer closes.  A hostile datagram that IS a plaintext DTLS record of the
handshake epoch (record header with DTLS version, epoch 0, consistent length) while the handshake runs is a forged
protocol message — OpenSSL may honour a forged alert / handshake message, exactly like a forged SCTP chunk under the right
verification tag — and only waives the `connected` / traffic clauses, never "nothing raises" and "stop() returns".

No Lean counterpart for the handshake itself (OpenSSL is outside); the demultiplexing that these runs exercise is
`recvNext` with `hasSrtp = false` (`recv_next_before_srtp`, `handshake_phase_inert`), compared in `rtp-dispatch` (`nosrtp`).
"""
from __future__ import annotations

import json
import struct
import time

from harness.check import Component
from harness import c05origins as O
from harness import c05rtp as R

SLOW_MS = 50.0
_CERTS = []


def _certs():
    if not _CERTS:
        from aiortc.rtcdtlstransport import RTCCertificate
        _CERTS.extend([RTCCertificate.generateCertificate(), RTCCertificate.generateCertificate()])
    return _CERTS


class Ice:
    """Minimal stand-in for RTCIceTransport: what the transport sends goes to the link's FIFO, what it receives comes from
    a queue the harness fills one datagram at a time."""

    def __init__(self, link, name, role):
        import asyncio
        self.link, self.name, self.role = link, name, role
        self.queue = asyncio.Queue()
        self.waiting = False

    async def _recv(self):
        self.waiting = True
        try:
            data = await self.queue.get()
        finally:
            self.waiting = False
        if data is None:
            raise ConnectionError
        return data

    async def _send(self, data):
        self.link.pending.append(("B" if self.name == "A" else "A", bytes(data)))

    async def stop(self):
        pass


class Sink:
    """Receiver registered with the transport the way RTCRtpReceiver / RTCSctpTransport register themselves."""

    def __init__(self):
        self.rtp, self.rtcp, self.data = [], [], []

    def _handle_disconnect(self):
        pass

    async def _handle_rtp_packet(self, packet, arrival_time_ms):
        self.rtp.append((packet.sequence_number, bytes(packet.payload)))

    async def _handle_rtcp_packet(self, packet):
        self.rtcp.append(type(packet).__name__)

    async def _handle_data(self, data):
        self.data.append(bytes(data))


def plain_dtls_record(d: bytes) -> bool:
    """Independent reading of the bytes: does the datagram start with a DTLS record of the handshake epoch — content type
    20..63, DTLS version (major 254, or the pre-standard 1.0), epoch 0, length not beyond the datagram?"""
    if len(d) < 13 or not (20 <= d[0] <= 63):
        return False
    if d[1] not in (254, 1):
        return False
    epoch = int.from_bytes(d[3:5], "big")
    length = int.from_bytes(d[11:13], "big")
    return epoch == 0 and length <= len(d) - 13


def dtls_records(d: bytes):
    """The DTLS records a datagram consists of, read independently: (type, version major, epoch, body length)."""
    out, pos = [], 0
    while pos + 13 <= len(d):
        n = int.from_bytes(d[pos + 11:pos + 13], "big")
        if pos + 13 + n > len(d):
            break
        out.append((d[pos], d[pos + 1], int.from_bytes(d[pos + 3:pos + 5], "big"), n))
        pos += 13 + n
    return out


AEAD_OVERHEAD = 24      # explicit nonce (8) + tag (16) of the AES-GCM suites OpenSSL negotiates here


def short_protected_record(d: bytes) -> bool:
    """A DTLS record of a protected epoch (>= 1) whose body is shorter than the AEAD overhead.  OpenSSL (4.0.x in this
    environment) does not discard such a record silently: its record layer reports `record layer failure` and the SSL
    object refuses every later read and write (see notes/C05b.md, finding `C05-openssl-short-record`).  Nothing in aiortc is
    involved before the damage is done; the oracle waives the DTLS-application-data clause for such datagrams (SRTP /
    SRTCP traffic must still flow, the state must stay `connected`, nothing may raise)."""
    if not d or not (20 <= d[0] <= 63):
        return False
    return any(major == 254 and epoch >= 1 and 0 < n < AEAD_OVERHEAD for _, major, epoch, n in dtls_records(d))


class Pair:
    def __init__(self):
        import asyncio
        from aiortc.rtcdtlstransport import RTCDtlsTransport
        from aiortc.rtcrtpparameters import RTCRtpCodecParameters, RTCRtpReceiveParameters, RTCRtpDecodingParameters
        self.asyncio = asyncio
        self.pending = []           # (destination, datagram) in sending order
        self.delivered = 0
        self.problems = []
        self.forged = False
        self.stopped_early = False
        self.ssl_dead = set()       # sides whose OpenSSL object was hit by a short protected record
        self.slow = []
        certs = _certs()
        self.ice = {"A": Ice(self, "A", "controlling"), "B": Ice(self, "B", "controlled")}
        self.t = {"A": RTCDtlsTransport(self.ice["A"], [certs[0]]), "B": RTCDtlsTransport(self.ice["B"], [certs[1]])}
        self.sink = {"A": Sink(), "B": Sink()}
        for n in "AB":
            self.t[n]._register_rtp_receiver(self.sink[n], RTCRtpReceiveParameters(
                codecs=[RTCRtpCodecParameters(mimeType="audio/PCMU", clockRate=8000, channels=1, payloadType=0)],
                encodings=[RTCRtpDecodingParameters(ssrc=1234, payloadType=0)]))
            self.t[n]._register_data_receiver(self.sink[n])
        self.tasks = {}
        self.hs_states = ("new", "new")
        self.seq = 100

    # ---- scheduling -------------------------------------------------------------------------------
    def _busy(self):
        for n in "AB":
            ice = self.ice[n]
            if not ice.queue.empty():
                return True
        return False

    async def settle(self, rounds=400):
        """Let both transports run until each is blocked in `_recv` on an empty queue (or done)."""
        asyncio = self.asyncio
        quiet = 0
        for _ in range(rounds):
            await asyncio.sleep(0)
            if self._busy():
                quiet = 0
                continue
            quiet += 1
            if quiet >= 10:
                return

    async def inject(self, side, data, what):
        """Hostile datagram into `side`'s socket; everything it causes is billed to it."""
        t0 = time.thread_time()
        if short_protected_record(data):
            self.ssl_dead.add(side)
        await self.ice[side].queue.put(data)
        try:
            with O.cpu_limit():
                await self.settle()
        except O.Hang:
            self.problems.append(f"{what}: {len(data)} bytes {data.hex()[:80]} to {side}: the receive path does not return (1 s of CPU)")
            return
        ms = (time.thread_time() - t0) * 1000.0
        if ms > SLOW_MS:
            self.slow.append((what, round(ms, 1), len(data)))
        self.check_tasks(f"{what}: {len(data)} bytes {data.hex()[:80]} to {side}")

    async def deliver_one(self):
        dst, data = self.pending.pop(0)
        self.delivered += 1
        await self.ice[dst].queue.put(data)
        await self.settle()
        return dst, data

    async def drain(self):
        while self.pending:
            await self.deliver_one()

    def check_tasks(self, where):
        for n, task in self.tasks.items():
            if task.done() and not task.cancelled() and task.exception() is not None and not getattr(task, "_c05_seen", False):
                task._c05_seen = True
                self.problems.append(f"{where}: start() of {n} raised {R._exc_tag(task.exception())} "
                                     f"({str(task.exception())[:80]}), state {self.t[n].state!r}")
        for n in "AB":
            pump = getattr(self.t[n], "_task", None)
            if pump is not None and pump.done() and not pump.cancelled() and pump.exception() is not None \
                    and not isinstance(pump.exception(), ConnectionError) and not getattr(pump, "_c05_seen", False):
                pump._c05_seen = True
                self.problems.append(f"{where}: the receive loop of {n} died with {R._exc_tag(pump.exception())}")

    def states(self):
        return self.t["A"].state, self.t["B"].state

    # ---- traffic ----------------------------------------------------------------------------------
    def rtp(self):
        self.seq += 1
        return R.rtp_hdr(0, self.seq, self.seq * 160, 1234) + bytes([self.seq % 256]) * 20

    async def traffic(self, where):
        """Valid RTP, RTCP and DTLS application data in both directions must arrive."""
        for src, dst in (("A", "B"), ("B", "A")):
            sink = self.sink[dst]
            n_rtp, n_rtcp, n_data = len(sink.rtp), len(sink.rtcp), len(sink.data)
            pkt = self.rtp()
            msg = b"hello-" + bytes([self.seq % 256])
            with_data = not (self.ssl_dead & {src, dst})
            try:
                await self.t[src]._send_rtp(pkt)
                await self.t[src]._send_rtp(R.rtcp_sr(1234, 1 << 40))
                if with_data:
                    await self.t[src]._send_data(msg)
            except Exception as exc:  # noqa: BLE001
                self.problems.append(f"{where}: sending valid traffic {src}->{dst} raised {R._exc_tag(exc)}")
                return
            await self.drain()
            if len(sink.rtp) != n_rtp + 1 or sink.rtp[-1] != (self.seq, pkt[12:]):
                self.problems.append(f"{where}: a valid RTP packet {src}->{dst} is not delivered to the receiver")
            elif len(sink.rtcp) != n_rtcp + 1:
                self.problems.append(f"{where}: a valid RTCP SR {src}->{dst} is not delivered to the receiver")
            elif with_data and sink.data[n_data:] != [msg]:
                self.problems.append(f"{where}: DTLS application data {src}->{dst} is not delivered to the data receiver")
            if self.problems:
                return


# ------------------------------------------------------------------------------------------------
# hostile datagrams for this layer
# ------------------------------------------------------------------------------------------------

def dtls_record(ctype, version, epoch, seq, body, length=None):
    return bytes([ctype]) + struct.pack("!HH", version, epoch) + seq.to_bytes(6, "big") + \
        struct.pack("!H", len(body) if length is None else length) + body


def hs_fragment(rng):
    """DTLS handshake message header with nonsense lengths / offsets."""
    mtype = rng.choice([0, 1, 2, 3, 11, 12, 13, 14, 15, 16, 20, 255])
    total = rng.choice([0, 1, 50, 0xFFFFFF, 1 << 14, 70000])
    off = rng.choice([0, 0, 1, total, 0xFFFFFF])
    body = R._rb(rng, rng.choice([0, 1, 12, 50]))
    flen = rng.choice([len(body), len(body) + 1, total, 0, 0xFFFFFF])
    return bytes([mtype]) + total.to_bytes(3, "big") + struct.pack("!H", rng.choice([0, 1, 2, 65535])) + \
        off.to_bytes(3, "big") + flen.to_bytes(3, "big") + body


def gen_datagram(rng):
    """-> (datagram, kind)"""
    k = rng.randrange(13)
    if k <= 2:      # SRTP-looking: RTP header of the registered stream (or not) + ciphertext + tag
        d = R.rtp_hdr(rng.choice([0, 0, 96, 127]), rng.randrange(65536), rng.randrange(1 << 32), rng.choice([1234, 1234, 0, 0xFFFFFFFF]),
                      marker=rng.randrange(2), cc=rng.choice([0, 0, 15]), x=rng.randrange(2), p=rng.randrange(2))
        d += R._rb(rng, rng.choice([0, 1, 10, 30, 170]))
        if rng.random() < 0.5:
            d = bytes([rng.randrange(128, 192)]) + d[1:]
        return d, "srtp"
    if k == 3:      # SRTCP-looking
        d = rng.choice([R.rtcp_sr(1234, 1 << 40), R.rtcp_nack(1, 1234, [(0, 1)]), R.rtcp_pkt(203, 1, struct.pack("!L", 1234)),
                        R.rtcp_pkt(rng.randrange(192, 209), rng.randrange(32), R._rb(rng, 4 * rng.randrange(4)))])
        return d + R._rb(rng, rng.choice([0, 4, 14])), "srtcp"
    if k == 4:      # first byte x length grid
        first = rng.choice(R.FIRST + [2, 3, 64, 79, 80])
        n = rng.choice([1, 1, 2, 12, 13, 1500, 1501, 2000, 4000])
        if 128 <= first < 192:
            # the property quantifies over byte strings up to MTU size; beyond 1500 bytes pylibsrtp raises ValueError
            # ("packet is too long"), which closes the transport: notes/C05b.md, finding `C05-srtp-over-mtu`
            n = min(n, 1500)
        return bytes([first]) + R._rb(rng, n - 1), "first-byte"
    if k == 5:
        return b"", "empty"
    if k == 6:      # STUN-looking
        body = R._rb(rng, 4 * rng.randrange(0, 6))
        d = struct.pack("!HHL", rng.choice([0x0001, 0x0101, 0x0111, 0x0003, 0x3FFF]), rng.choice([len(body), 0, 65535]), 0x2112A442) + R._rb(rng, 12) + body
        return d, "stun"
    if k == 7:      # DTLS-looking, not a handshake-epoch record: wrong version / wrong epoch / truncated header / over-long length
        version = rng.choice([0x0303, 0x0301, 0x0000, 0xFFFF, 0xFD00, 0xFEFD, 0xFEFF])
        epoch = rng.choice([1, 1, 2, 0xFFFF]) if version in (0xFEFD, 0xFEFF) else rng.choice([0, 1, 0xFFFF])
        body = R._rb(rng, rng.choice([0, 1, 2, 16, 48, 200]))
        d = dtls_record(rng.choice([20, 21, 22, 23, 23, 24, 25, 26, 63]), version, epoch, rng.randrange(1 << 48), body)
        return d, "dtls-other-epoch"
    if k == 8:      # record header cut short, or length field beyond the datagram
        d = dtls_record(rng.choice([20, 21, 22, 23]), rng.choice([0xFEFD, 0xFEFF]), 0, rng.randrange(1 << 16), R._rb(rng, rng.choice([0, 2, 30])))
        if rng.random() < 0.5:
            return d[:rng.randrange(1, 13)], "dtls-truncated"
        body = d[13:]
        return d[:11] + struct.pack("!H", len(body) + rng.choice([1, 2, 100, 65535 - len(body)])) + body, "dtls-overlong"
    if k == 9:      # application data before the handshake completes / in the clear afterwards
        return dtls_record(23, rng.choice([0xFEFD, 0xFEFF]), rng.choice([0, 1]), rng.randrange(1 << 16), R._rb(rng, rng.choice([0, 1, 16, 100]))), "dtls-appdata"
    if k == 10:     # plaintext handshake-epoch records: alerts, CCS, handshake fragments with nonsense lengths, several records
        recs = []
        for _ in range(rng.choice([1, 1, 2, 3])):
            ctype = rng.choice([20, 21, 22, 22, 22])
            body = bytes([1]) if ctype == 20 else bytes([rng.choice([1, 2, 3]), rng.choice([0, 10, 20, 40, 80, 255])]) if ctype == 21 else hs_fragment(rng)
            recs.append(dtls_record(ctype, rng.choice([0xFEFD, 0xFEFF]), 0, rng.choice([0, 1, 5, (1 << 48) - 1]), body))
        return b"".join(recs), "dtls-plain"
    if k == 11:     # TURN channel data range / nothing aiortc handles
        return bytes([rng.randrange(64, 128)]) + R._rb(rng, rng.choice([0, 3, 20])), "other"
    return R._rb(rng, R._len(rng)), "random"


def gen_case(rng):
    """inj: [point, side, hex]; point -1 = before start(), k >= 0 = before the k-th genuine datagram of the handshake is
    delivered (points beyond the end of the handshake: right after `connected`)."""
    case = {"inj": [], "dup": [], "early": rng.choice([0, 0, 1, 3]), "post": [], "stop": [], "stopper": rng.choice("AB"), "after": []}
    mode = rng.randrange(4)
    n = rng.choice([1, 1, 2, 4, 8]) if mode else 0
    for _ in range(n):
        d, _ = gen_datagram(rng)
        case["inj"].append([rng.choice([-1, -1] + list(range(0, 12))), rng.choice("AB"), R.hx(d)])
    case["inj"].sort(key=lambda x: x[0])
    if rng.random() < 0.3:      # the network duplicates genuine flights
        case["dup"] = sorted({rng.randrange(0, 10) for _ in range(rng.choice([1, 2, 3]))})
    if rng.random() < 0.12:
        case["stop_at"] = rng.randrange(0, 9)
    for key, cnt in (("post", [0, 1, 3, 6]), ("stop", [0, 0, 1, 3]), ("after", [0, 0, 1, 2])):
        for _ in range(rng.choice(cnt)):
            d, _ = gen_datagram(rng)
            case[key].append([rng.choice("AB"), R.hx(d)])
    return case


async def run_async(case):
    import asyncio
    p = Pair()
    t = p.t
    try:
        inj = list(case["inj"])
        # before start(): the datagrams wait in the socket
        for point, side, h in [x for x in inj if x[0] < 0]:
            d = R.unhx(h)
            p.forged = p.forged or plain_dtls_record(d) or short_protected_record(d)
            if short_protected_record(d):
                p.ssl_dead.add(side)
            await p.ice[side].queue.put(d)
        inj = [x for x in inj if x[0] >= 0]
        pa, pb = t["A"].getLocalParameters(), t["B"].getLocalParameters()
        p.tasks = {"A": asyncio.ensure_future(t["A"].start(pb)), "B": asyncio.ensure_future(t["B"].start(pa))}
        try:
            with O.cpu_limit(3.0):
                await p.settle()
        except O.Hang:
            p.problems.append("datagrams received before start(): the receive path does not return")
        p.check_tasks("datagrams received before start()")
        early_left = case["early"]
        deadline = time.time() + 8
        idle = 0
        while not all(task.done() for task in p.tasks.values()) and not p.problems and time.time() < deadline:
            for point, side, h in [x for x in inj if x[0] == p.delivered]:
                d = R.unhx(h)
                p.forged = p.forged or plain_dtls_record(d) or short_protected_record(d)
                await p.inject(side, d, f"during the handshake (before genuine datagram #{point})")
            inj = [x for x in inj if x[0] != p.delivered]
            if p.problems:
                break
            if case.get("stop_at") == p.delivered and not p.stopped_early:
                # tear-down races set-up: stop() of one side in the middle of the handshake (the other side keeps receiving
                # whatever that produces); only "nothing raises, nothing hangs" is required from here on
                p.stopped_early = p.forged = True
                try:
                    await asyncio.wait_for(t[case["stopper"]].stop(), 2)
                except asyncio.TimeoutError:
                    p.problems.append(f"stop() of {case['stopper']} during the handshake hangs")
                except Exception as exc:  # noqa: BLE001
                    p.problems.append(f"stop() of {case['stopper']} during the handshake raised {R._exc_tag(exc)}")
                await p.settle()
                p.check_tasks("stop() during the handshake")
            # one side is done, the other is not: its first media overtakes the last flight
            if early_left:
                for a, b in (("A", "B"), ("B", "A")):
                    if t[a].state == "connected" and t[b].state != "connected" and early_left:
                        mark = len(p.pending)
                        await t[a]._send_rtp(p.rtp())
                        await t[a]._send_rtp(R.rtcp_sr(1234, 1 << 40))
                        early, p.pending[mark:] = p.pending[mark:], []
                        for _, d in early:
                            await p.inject(b, d, "the peer's first SRTP / SRTCP packets overtake its last handshake flight")
                        early_left -= 1
            if p.problems:
                break
            if p.pending:
                k = p.delivered
                dst, data = await p.deliver_one()
                if k in case["dup"]:
                    await p.inject(dst, data, f"duplicate of genuine handshake datagram #{k}")
                idle = 0
            else:
                # nobody has anything to send: a DTLS retransmission timer (1 s) is what moves things on
                await asyncio.sleep(0.02)
                idle += 1
                if p.forged and idle >= 10:
                    break       # a forged handshake-epoch record stalled the handshake: not a failure of aiortc
        p.check_tasks("handshake")
        states = p.hs_states = p.states()
        if not p.problems and states != ("connected", "connected"):
            if p.forged and all(task.done() for task in p.tasks.values()):
                pass        # a forged handshake-epoch record was honoured by OpenSSL: set-up failed cleanly
            elif p.forged:
                pass        # … or left the handshake waiting for retransmissions
            else:
                p.problems.append(f"after the handshake (hostile datagrams: {len(case['inj'])}, none a plaintext DTLS record) the transports are {states}")
        connected = states == ("connected", "connected")
        if connected and not p.problems:
            await p.drain()
            await p.traffic("after the handshake")
            for x in inj:       # points beyond the end of the handshake
                case_post = [[x[1], x[2]]]
                for side, h in case_post:
                    await p.inject(side, R.unhx(h), "right after connected")
            for side, h in case["post"]:
                if p.problems:
                    break
                await p.inject(side, R.unhx(h), "while connected")
                if p.states() != ("connected", "connected"):
                    p.problems.append(f"while connected: {h[:80]} to {side}: the transports are {p.states()}")
            if not p.problems:
                await p.drain()
                await p.traffic("after hostile datagrams while connected")
        # tear-down
        if not p.problems:
            s = case["stopper"]
            o = "B" if s == "A" else "A"
            try:
                await asyncio.wait_for(t[s].stop(), 2)
            except asyncio.TimeoutError:
                p.problems.append(f"stop() of {s} hangs")
            except Exception as exc:  # noqa: BLE001
                p.problems.append(f"stop() of {s} raised {R._exc_tag(exc)}")
            await p.settle()
            for side, h in case["stop"]:
                if p.problems:
                    break
                await p.inject(side, R.unhx(h), f"after stop() of {s}, before its close_notify arrives")
            await p.drain()
            p.check_tasks("tear-down")
            if connected and not p.problems and not p.ssl_dead and not p.stopped_early and t[o].state != "closed":
                p.problems.append(f"{s} stopped, its close_notify was delivered: {o} is {t[o].state!r}")
            for side, h in case["after"]:
                if p.problems:
                    break
                await p.inject(side, R.unhx(h), "after closed")
            try:
                await asyncio.wait_for(t[o].stop(), 2)
            except asyncio.TimeoutError:
                p.problems.append(f"stop() of {o} hangs")
            except Exception as exc:  # noqa: BLE001
                p.problems.append(f"stop() of {o} raised {R._exc_tag(exc)}")
            p.check_tasks("after stop()")
    finally:
        for task in p.tasks.values():
            task.cancel()
        for n in "AB":
            pump = getattr(t[n], "_task", None)
            if pump is not None:
                pump.cancel()
        await asyncio.gather(*p.tasks.values(), return_exceptions=True)
        await asyncio.sleep(0)
    return p


def run(case):
    import asyncio
    import gc
    import logging
    loop = asyncio.new_event_loop()
    asyncio.set_event_loop(loop)
    logging.disable(logging.CRITICAL)
    # no gc.collect() here: a full collection costs 0.1 s and more once the checker holds the traces of the earlier components;
    # a generation-2 collection that lands on a datagram is filtered by the three-run rule of the CPU oracle
    gc.disable()
    try:
        return loop.run_until_complete(run_async(case))
    finally:
        gc.enable()
        logging.disable(logging.NOTSET)
        for task in asyncio.all_tasks(loop):
            task.cancel()
        loop.run_until_complete(asyncio.sleep(0))
        loop.close()


class Setup(Component):
    name = "dtls-setup"
    theorems = ["recv_next_before_srtp", "handshake_phase_inert", "recv_next_total", "still_alive"]

    def __init__(self):
        self._slow = {}

    def corpus(self):
        empty = {"inj": [], "dup": [], "early": 0, "post": [], "stop": [], "stopper": "A", "after": []}
        rtp = R.hx(R.rtp_hdr(0, 1, 160, 1234) + bytes(170))
        rtcp = R.hx(R.rtcp_sr(1234, 1 << 40) + bytes(14))
        out = [empty, dict(empty, early=3), dict(empty, early=1, stopper="B")]
        # one SRTP-looking / SRTCP-looking / empty / 1-byte datagram at every point, either side
        for point in range(-1, 8):
            out.append(dict(empty, inj=[[point, "A", rtp], [point, "B", rtcp]]))
            out.append(dict(empty, inj=[[point, "B", rtp], [point, "A", "-"], [point, "B", "80"], [point, "A", "17"]]))
        out.append(dict(empty, dup=list(range(0, 10))))
        out += [dict(empty, stop_at=k, stopper=who, inj=[[k, "A", rtp], [k + 1, "B", rtcp]]) for k in (0, 2, 4, 6) for who in "AB"]
        out.append(dict(empty, post=[["A", rtp], ["B", rtcp], ["A", "-"], ["B", "16"]], stop=[["A", rtp], ["B", rtp]], after=[["A", rtcp], ["B", rtcp]]))
        return out

    def cases(self, rng, tier):
        return [gen_case(rng) for _ in range(70 if tier == "quick" else 700)]

    def impl(self, case):
        p = run(case)
        slow = p.slow
        for _ in range(2):
            if not slow or p.problems:
                break
            again = {w for w, _, _ in run(case).slow}
            slow = [s for s in slow if s[0] in again]
        key = json.dumps(case, sort_keys=True)
        if slow and not p.problems:
            self._slow[key] = slow
        else:
            self._slow.pop(key, None)
        tag = "forged" if p.forged else "plain"
        return f"ok {tag} {p.hs_states[0]}/{p.hs_states[1]} " + (" | ".join(p.problems) if p.problems else "-")

    def oracle(self, case, impl_out):
        if not impl_out.startswith("ok "):
            return impl_out
        what = impl_out.split(" ", 3)[3]
        if what != "-":
            return what
        slow = self._slow.get(json.dumps(case, sort_keys=True))
        if slow:
            return "hostile datagrams cost more than %.0f ms of CPU in three runs: %s" % (SLOW_MS, slow[:5])
        return None

    def label(self, case, impl_out):
        if not impl_out.startswith("ok "):
            return "harness"
        parts = impl_out.split(" ")
        where = "+".join(name for name, keys in (("handshake", ("inj", "dup", "early")), ("stop-early", ("stop_at",)), ("connected", ("post",)), ("teardown", ("stop", "after")))
                         if any(case.get(k) for k in keys))
        return f"{parts[1]}:{where or 'clean'}:{parts[2]}"

    def nontrivial(self, case, impl_out):
        return impl_out.startswith("ok ")

    def shrink(self, case):
        for key in ("inj", "post", "stop", "after", "dup"):
            items = case.get(key) or []
            for i in range(len(items)):
                yield dict(case, **{key: items[:i] + items[i + 1:]})
        if case.get("early"):
            yield dict(case, early=0)
        if "stop_at" in case:
            yield {k: v for k, v in case.items() if k != "stop_at"}
        for i, x in enumerate(case["inj"]):
            d = R.unhx(x[2])
            if len(d) > 1:
                yield dict(case, inj=case["inj"][:i] + [[x[0], x[1], R.hx(d[:-1])]] + case["inj"][i + 1:])
