"""C07 component `ops`: histories over a pool of LIVE objects (HeaderExtensionsMap, RtpPacket, RTCP packets).

A case is a list of steps over 2 map slots, 4 object slots and 4 byte registers:

  ["mnew", m]                        maps[m] = HeaderExtensionsMap()
  ["cfg", m, [[field|"other", id], …]] maps[m].configure(RTCRtpParameters(headerExtensions=[…]))  (in this order)
  ["new", o, val]                    objs[o] = a fresh object;   val = {"k": "rtp", "p": <rtp spec>} | {"k": "rtcp", "ps": [<rtcp spec>…]}
  ["set", o, val, inplace]           every public field of the LIVE object in slot o is overwritten (lists in place or re-assigned)
  ["host", o, k]                     a hostile owner modifies every mutable part of the live object (c07state.hostile_*)
  ["ser", o, m, b]                   regs[b] = objs[o].serialize(maps[m])  /  b"".join(bytes(p) for p in objs[o])
  ["raw", b, hex]                    regs[b] = literal bytes
  ["prtp", b, m, o]                  objs[o] = RtpPacket.parse(regs[b], maps[m])
  ["prtcp", b, o]                    objs[o] = RtcpPacket.parse(regs[b])
  ["mset", m, ext]                   maps[m].set(HeaderExtensions(**ext))
  ["mget", m, profile, hex]          maps[m].get(profile, bytes)

The same history runs through the pure reference semantics `lean/Aiortc/Model/Rtp/Ops.lean` (`rtpops …`) and every
observation is compared.  The oracle needs no model: it keeps a MIRROR (the id table as the fold of the configure
history, the field values of each slot from the specs / from the implementation's own parse output before anybody
modified it, the provenance of each register) and demands

  * ser:   the bytes parse back (fresh map configured ONCE with the mirrored table) to the mirrored field values,
           serialising again gives the same bytes, and a fresh object + fresh map give the same bytes;
  * parse: the observation equals that of a FRESH map configured once with the mirrored table (the map is a function
           of its configure history), equals the values the bytes were serialised from, and equals any earlier
           observation of the same bytes under the same table;
  * mset/mget: equal to the fresh map's answer.
"""
from __future__ import annotations

import json

from harness.check import Component
from harness import c07state as st
from harness.c07state import EXT_FIELDS, hx, unhx

OTHER_URI = "urn:3gpp:video-orientation"
N_MAPS, N_OBJS, N_REGS = 2, 4, 4


def C():
    from harness.props import C07
    return C07


# ----------------------------------------------------------------------------------------------
# value syntax of the model driver (lean/Aiortc/Drv/RtpOps.lean)
# ----------------------------------------------------------------------------------------------

def ext_str(e: dict) -> str:
    def o(f, fn):
        v = e.get(f)
        return "N" if v is None else fn(v)
    return ";".join([
        o("abs_send_time", str),
        o("audio_level", lambda a: ("1" if a[0] else "0") + "/" + str(a[1])),
        o("mid", lambda s: hx(s.encode("utf8"))),
        o("repaired_rtp_stream_id", lambda s: hx(s.encode("ascii"))),
        o("rtp_stream_id", lambda s: hx(s.encode("ascii"))),
        o("transmission_offset", str),
        o("transport_sequence_number", str),
    ])


def val_str(val) -> str:
    c = C()
    if val["k"] == "rtp":
        s = val["p"]
        return "rtp@" + "!".join([str(s["m"]), str(s["pt"]), str(s["seq"]), str(s["ts"]), str(s["ssrc"]), c.nats(s["csrc"]),
                                  ext_str(s["ext"]), s["payload"], str(s["pad"]), s.get("padbytes", "-")])
    ps = val["ps"]
    return "rtcp@" + ("!".join(c.show_rtcp(st.build_rtcp(s)) for s in ps) if ps else "-")


def cfg_str(entries) -> str:
    if not entries:
        return "-"
    return ",".join(f"{EXT_FIELDS.index(f) if f in EXT_FIELDS else 7}={i}" for f, i in entries)


# ----------------------------------------------------------------------------------------------
# running a history on live objects, with the mirror
# ----------------------------------------------------------------------------------------------

def fresh_map(ids: dict):
    """A map configured ONCE with the whole table."""
    from aiortc.rtcrtpparameters import RTCRtpHeaderExtensionParameters, RTCRtpParameters
    m = st.R().HeaderExtensionsMap()
    m.configure(RTCRtpParameters(headerExtensions=[RTCRtpHeaderExtensionParameters(id=i, uri=C().URIS[f])
                                                   for f, i in ids.items()]))
    return m


def ids_legal(ids: dict) -> bool:
    v = list(ids.values())
    return all(0 < i < 256 for i in v) and len(set(v)) == len(v)


def restricted(spec: dict, ids: dict) -> dict:
    return dict(spec, ext={f: v for f, v in spec["ext"].items() if ids.get(f)})


def show_val(val) -> str:
    c = C()
    if val["k"] == "rtp":
        return c.show_rtp(st.build_rtp(val["p"]))
    return c.show_rtcps([st.build_rtcp(s) for s in val["ps"]])


def same_compound(want_specs, got) -> bool:
    """Value equality of RTCP packets, NACK lists as sets unless strictly ascending."""
    c = C()
    rtp = st.R()
    want = [st.build_rtcp(s) for s in want_specs]
    if len(want) != len(got):
        return False
    for a, b in zip(want, got):
        if isinstance(a, rtp.RtcpRtpfbPacket) and isinstance(b, rtp.RtcpRtpfbPacket):
            if (a.fmt, a.ssrc, a.media_ssrc) != (b.fmt, b.ssrc, b.media_ssrc) or not c.nack_ok(a.lost, b.lost):
                return False
        elif a != b:
            return False
    return True


class Run:
    """One execution of a history. `obs[i]` is the observation of step i, `puts[i]` the field values a `host` step
    left in its slot (for the model line), `fails` what the mirror-based oracle objects to."""

    def __init__(self, steps, check=True):
        self.obs, self.puts, self.fails = [], {}, []
        c = C()
        rtp = st.R()
        maps, objs, regs = {}, {}, {}
        m_ids = {}                 # mirror: map slot -> {field: id} (fold of the configure history)
        m_hist = {}                # map slot -> list of configure calls, for messages
        o_val = {}                 # mirror: object slot -> val ({"k": …}) as last written / first observed
        r_src = {}                 # register -> ("ser", val, ids) | ("raw",)
        seen = {}                  # (kind, bytes, ids) -> first observation

        def the_map(m):
            if m is None:
                return None
            if m not in maps:
                maps[m] = rtp.HeaderExtensionsMap()
                m_ids[m], m_hist[m] = {}, []
            return maps[m]

        def ids_key(m):
            return tuple(sorted(m_ids.get(m, {}).items()))

        def fail(i, what):
            if check:
                self.fails.append(f"step {i} {json.dumps(steps[i])[:160]}: {what}")

        for i, step in enumerate(steps):
            op = step[0]
            try:
                if op == "mnew":
                    maps[step[1]] = rtp.HeaderExtensionsMap()
                    m_ids[step[1]], m_hist[step[1]] = {}, []
                    self.obs.append(".")
                elif op == "cfg":
                    from aiortc.rtcrtpparameters import RTCRtpHeaderExtensionParameters, RTCRtpParameters
                    m = the_map(step[1])
                    m.configure(RTCRtpParameters(headerExtensions=[
                        RTCRtpHeaderExtensionParameters(id=x, uri=c.URIS.get(f, OTHER_URI)) for f, x in step[2]]))
                    for f, x in step[2]:
                        if f in EXT_FIELDS:
                            m_ids[step[1]][f] = x
                    m_hist[step[1]].append(step[2])
                    self.obs.append(".")
                elif op in ("new", "set"):
                    o, val = step[1], step[2]
                    cur = objs.get(o)
                    if op == "set" and cur is not None and cur["k"] == val["k"]:
                        if val["k"] == "rtp":
                            st.assign_rtp(cur["obj"], val["p"], bool(step[3]))
                        else:
                            cur["obj"] = st.assign_compound(cur["obj"], val["ps"], bool(step[3]))
                    else:
                        objs[o] = {"k": val["k"], "obj": st.build_rtp(val["p"]) if val["k"] == "rtp"
                                   else [st.build_rtcp(s) for s in val["ps"]]}
                    o_val[o] = val
                    self.obs.append(".")
                elif op == "host":
                    o, k = step[1], step[2]
                    cur = objs.get(o)
                    if cur is not None:
                        if cur["k"] == "rtp":
                            val = {"k": "rtp", "p": st.hostile_rtp(cur["obj"], k)}
                        else:
                            cur["obj"], specs = st.hostile_compound(cur["obj"], k)
                            val = {"k": "rtcp", "ps": specs}
                        o_val[o] = val
                        self.puts[i] = val
                    self.obs.append(".")
                elif op == "ser":
                    o, m, b = step[1], step[2], step[3]
                    cur = objs.get(o)
                    if cur is None:
                        self.obs.append("not-wf")
                        continue
                    val = o_val[o]
                    if cur["k"] == "rtp":
                        mp = the_map(m)
                        with c.urandom(unhx(val["p"].get("padbytes", "-"))):
                            # m = None: the default argument of serialize / parse (one map object shared by all callers)
                            data = cur["obj"].serialize(mp) if mp is not None else cur["obj"].serialize()
                            again = cur["obj"].serialize(mp) if mp is not None else cur["obj"].serialize()
                    else:
                        data = b"".join(bytes(p) for p in cur["obj"])
                        again = b"".join(bytes(p) for p in cur["obj"])
                    regs[b] = data
                    ids = dict(m_ids.get(m, {})) if cur["k"] == "rtp" else {}
                    r_src[b] = ("ser", val, ids)
                    self.obs.append("ok " + hx(data))
                    if check:
                        self._check_ser(i, fail, val, ids, data, again)
                elif op == "raw":
                    regs[step[1]] = unhx(step[2])
                    r_src[step[1]] = ("raw",)
                    self.obs.append(".")
                elif op == "prtp":
                    b, m, o = step[1], step[2], step[3]
                    data = regs.get(b, b"")
                    mp = the_map(m)
                    try:
                        p = rtp.RtpPacket.parse(data, mp) if mp is not None else rtp.RtpPacket.parse(data)
                        out = "ok " + c.show_rtp(p)
                        pb = data[len(data) - p.padding_size:len(data) - 1] if p.padding_size else b""
                        objs[o] = {"k": "rtp", "obj": p}
                        o_val[o] = {"k": "rtp", "p": st.spec_of_rtp(p, hx(pb))}
                    except ValueError:
                        out = "ValueError"
                    self.obs.append(out)
                    if check:
                        ids = m_ids.get(m, {})
                        try:
                            ref = "ok " + c.show_rtp(rtp.RtpPacket.parse(data, fresh_map(ids)))
                        except ValueError:
                            ref = "ValueError"
                        if out != ref:
                            fail(i, f"RtpPacket.parse with the live map (configure history {m_hist.get(m)}) gives [{out[:300]}], "
                                    f"a fresh map configured once with the same table {ids} gives [{ref[:300]}]")
                        src = r_src.get(b, ("raw",))
                        if src[0] == "ser" and src[1]["k"] == "rtp" and src[2] == ids and ids_legal(ids):
                            want = "ok " + c.show_rtp(st.build_rtp(restricted(src[1]["p"], ids)))
                            if out != want:
                                fail(i, f"packet [{want[3:303]}] serialised and parsed with id table {ids} "
                                        f"(configure history {m_hist.get(m)}) comes back as [{out[:300]}]")
                        key = ("rtp", data, ids_key(m))
                        if seen.setdefault(key, out) != out:
                            fail(i, f"the same bytes parsed earlier in this history with the same id table gave [{seen[key][:300]}], now [{out[:300]}]")
                elif op == "prtcp":
                    b, o = step[1], step[2]
                    data = regs.get(b, b"")
                    try:
                        ps = rtp.RtcpPacket.parse(data)
                        out = "ok " + c.show_rtcps(ps)
                        objs[o] = {"k": "rtcp", "obj": ps}
                        o_val[o] = {"k": "rtcp", "ps": [st.spec_of_rtcp(p) for p in ps]}
                    except ValueError:
                        ps, out = None, "ValueError"
                    self.obs.append(out)
                    if check:
                        src = r_src.get(b, ("raw",))
                        if src[0] == "ser" and src[1]["k"] == "rtcp" and (ps is None or not same_compound(src[1]["ps"], ps)):
                            fail(i, f"compound [{show_val(src[1])[:300]}] serialised and parsed comes back as [{out[:300]}]")
                        key = ("rtcp", data)
                        if seen.setdefault(key, out) != out:
                            fail(i, f"the same bytes parsed earlier in this history gave [{seen[key][:300]}], now [{out[:300]}]")
                elif op == "mset":
                    m, e = step[1], step[2]
                    prof, val = the_map(m).set(st.build_ext(e))
                    out = f"ok {prof} {hx(val)}"
                    self.obs.append(out)
                    if check:
                        p2, v2 = fresh_map(m_ids.get(m, {})).set(st.build_ext(e))
                        if (p2, v2) != (prof, val):
                            fail(i, f"HeaderExtensionsMap.set on the live map (configure history {m_hist.get(m)}) gives {prof:#x} {hx(val)}, "
                                    f"a fresh map configured once with {m_ids.get(m, {})} gives {p2:#x} {hx(v2)}")
                elif op == "mget":
                    m, prof, data = step[1], step[2], unhx(step[3])
                    try:
                        out = "ok " + c.show_ext(the_map(m).get(prof, data))
                    except ValueError:
                        out = "ValueError"
                    self.obs.append(out)
                    if check:
                        try:
                            ref = "ok " + c.show_ext(fresh_map(m_ids.get(m, {})).get(prof, data))
                        except ValueError:
                            ref = "ValueError"
                        if out != ref:
                            fail(i, f"HeaderExtensionsMap.get on the live map (configure history {m_hist.get(m)}) gives [{out}], "
                                    f"a fresh map configured once with {m_ids.get(m, {})} gives [{ref}]")
                else:
                    self.obs.append("bad-step")
            except Exception as e:  # noqa  (unexpected: struct.error, AssertionError, … escape)
                if len(self.obs) == i:
                    self.obs.append(c.tag_exc(e))
                fail(i, f"raises {c.tag_exc(e)}: {str(e)[:120]}")

    def _check_ser(self, i, fail, val, ids, data, again):
        c = C()
        rtp = st.R()
        if again != data:
            fail(i, f"serialising the same object twice in a row gives {hx(data)[:120]} then {hx(again)[:120]}")
        if val["k"] == "rtp":
            with c.urandom(unhx(val["p"].get("padbytes", "-"))):
                ref = st.build_rtp(val["p"]).serialize(fresh_map(ids))
            if ref != data:
                fail(i, f"the live packet, whose fields are [{show_val(val)[:300]}], serialises with the live map to {hx(data)[:160]}; "
                        f"a fresh packet with these values and a fresh map with the same table {ids} give {hx(ref)[:160]}")
            if ids_legal(ids):
                want = c.show_rtp(st.build_rtp(restricted(val["p"], ids)))
                try:
                    got = c.show_rtp(rtp.RtpPacket.parse(data, fresh_map(ids)))
                except ValueError:
                    got = "ValueError"
                if got != want:
                    fail(i, f"packet [{want[:300]}] (live object, fields overwritten) parses back as [{got[:300]}]")
        else:
            ref = b"".join(bytes(st.build_rtcp(s)) for s in val["ps"])
            if ref != data:
                fail(i, f"the live RTCP objects, whose fields are [{show_val(val)[:300]}], serialise to {hx(data)[:160]}; "
                        f"fresh objects with these values give {hx(ref)[:160]}")
            try:
                got = rtp.RtcpPacket.parse(data)
            except ValueError:
                got = None
            if got is None or not same_compound(val["ps"], got):
                fail(i, f"compound [{show_val(val)[:300]}] (live objects, fields overwritten) parses back as "
                        f"[{'ValueError' if got is None else c.show_rtcps(got)[:300]}]")


# ----------------------------------------------------------------------------------------------
# generators
# ----------------------------------------------------------------------------------------------

def gen_table(rng, fields=None, style=None):
    """A LEGAL id assignment for some fields: {field: id}, ids distinct."""
    c = C()
    fields = fields if fields is not None else rng.sample(EXT_FIELDS, rng.choice([1, 2, 3, 4, 7]))
    style = rng.randrange(3) if style is None else style
    pool = [i for i in c.ID_POOL if i <= 14] if style == 0 else [i for i in c.ID_POOL if i > 14] if style == 1 else list(c.ID_POOL)
    pool = pool + [rng.randrange(1, 15) if style == 0 else rng.randrange(1, 256) for _ in range(8)]
    ids, used = {}, set()
    for f in fields:
        i = rng.choice(pool)
        while i in used:
            i = rng.randrange(1, 15) if style == 0 and len(used) < 12 else rng.randrange(1, 256)
        used.add(i)
        ids[f] = i
    return ids


def table_ids(table):
    return [table.get(f) for f in EXT_FIELDS]


def gen_packet(rng, table, small=True):
    c = C()
    s = c.gen_rtp(rng, table_ids(table))
    if small:
        s["csrc"] = s["csrc"][:2]
        if rng.random() < 0.7:
            s["pad"], s["padbytes"] = 0, "-"
    # in-range strings only (the model's serialiser domain)
    for f in ("mid", "repaired_rtp_stream_id", "rtp_stream_id"):
        if f in s["ext"] and len(s["ext"][f].encode("utf8")) > 40 and rng.random() < 0.8:
            s["ext"][f] = s["ext"][f][:8]
    return s


def full_packet(rng, table):
    """A packet that carries a value for EVERY extension the table configures."""
    c = C()
    s = gen_packet(rng, table)
    for f in table:
        while f not in s["ext"]:
            s["ext"].update({k: v for k, v in c.gen_ext(rng, table_ids(table)).items() if k == f})
    return s


def rt(o, m, b, dst):
    return [["ser", o, m, b], ["prtp", b, m, dst]]


def gen_reconfigure(rng):
    """configure, use, configure again (adding / re-numbering / same URI new id / unknown URIs / repeated
    entries), use — optionally a third time, with a second map on the side that is configured differently."""
    steps = []
    m, m2 = rng.sample(range(N_MAPS), 2)
    table = gen_table(rng, rng.sample(EXT_FIELDS, rng.choice([0, 1, 2, 3])))
    side = rng.random() < 0.4
    steps.append(["mnew", m])
    entries = list(table.items())
    if rng.random() < 0.3:
        entries.insert(rng.randrange(len(entries) + 1), ["other", rng.randrange(1, 15)])
    steps.append(["cfg", m, [list(e) for e in entries]])
    if side:
        t2 = gen_table(rng)
        steps += [["mnew", m2], ["cfg", m2, [list(e) for e in t2.items()]]]
    first = True
    for phase in range(rng.choice([2, 2, 3])):
        # use the map: round trips, get/set, a raw parse
        for _ in range(rng.choice([1, 1, 2])):
            p = full_packet(rng, table) if rng.random() < 0.8 else gen_packet(rng, table)
            if first or rng.random() < 0.4:
                steps.append(["new", 0, {"k": "rtp", "p": p}])
            else:
                steps.append(["set", 0, {"k": "rtp", "p": p}, rng.random() < 0.5])
            first = False
            use = rng.randrange(4)
            if use == 0:
                steps.append(["ser", 0, m, 0])           # `set` only: the first use of `get` comes later
            elif use == 1:
                steps.append(["mset", m, p["ext"]])
            else:
                steps += rt(0, m, rng.randrange(N_REGS), 1)
            if side and rng.random() < 0.5:
                steps += rt(0, m2, 3, 2)
            elif rng.random() < 0.15:
                steps += rt(0, None, 3, 2)                # the default-argument map: no extension has an id
        if rng.random() < 0.3:
            steps.append(["mget", m, rng.choice([0xBEDE, 0x1000]), "-"])
        # configure again
        mode = rng.randrange(5)
        new_fields = [f for f in EXT_FIELDS if f not in table]
        add = {}
        if mode in (0, 1, 4) and new_fields:              # add extensions that were not configured so far
            for f in rng.sample(new_fields, rng.randrange(1, len(new_fields) + 1)):
                add[f] = None
        if mode in (1, 2) and table:                       # same URI, new id
            for f in rng.sample(list(table), rng.randrange(1, len(table) + 1)):
                add[f] = None
        if mode == 3 and len(table) >= 2:                  # two extensions swap their ids
            a, b = rng.sample(list(table), 2)
            table[a], table[b] = table[b], table[a]
            entries = [[a, table[a]], [b, table[b]]]
            if rng.random() < 0.3:                         # … half-way only: two extensions share an id (not a legal table:
                entries = entries[:1]                      # only the comparison with the fresh map / the model applies)
                table[b] = table[a]
        else:
            used = {v for f, v in table.items() if f not in add}
            fresh = gen_table(rng, list(add))
            for f in add:
                i = fresh[f]
                while i in used:
                    i = rng.randrange(1, 256)
                used.add(i)
                table[f] = i
            entries = [[f, table[f]] for f in add]
            if mode == 4 or rng.random() < 0.3:            # plus entries that repeat what is already there
                entries = [[f, table[f]] for f in table if f not in add and rng.random() < 0.6] + entries
        if rng.random() < 0.25:
            entries.insert(rng.randrange(len(entries) + 1), ["other", rng.choice([1, 4, 200])])
        if rng.random() < 0.15 and entries:                # the same URI twice in one call: the last one wins
            f = entries[-1][0]
            if f in EXT_FIELDS:
                entries.insert(0, [f, rng.choice([i for i in range(1, 256) if i not in table.values()])])
        rng_shuffle_keep_last(rng, entries)
        steps.append(["cfg", m, entries])
    # final uses: every configured extension
    for _ in range(rng.choice([1, 2])):
        p = full_packet(rng, table)
        steps.append(["set", 0, {"k": "rtp", "p": p}, rng.random() < 0.5])
        steps += rt(0, m, rng.randrange(N_REGS), 1)
    steps.append(["mset", m, p["ext"]])
    return steps


def rng_shuffle_keep_last(rng, entries):
    """Shuffle configure entries without changing which entry of a URI comes last."""
    last = {}
    for i, e in enumerate(entries):
        last[e[0]] = i
    finals = [entries[i] for i in sorted(last.values())]
    others = [e for i, e in enumerate(entries) if last[e[0]] != i]
    rng.shuffle(finals)
    entries[:] = others + finals


def gen_rtcp_val(rng, types=None):
    c = C()
    if types is None:
        types = [rng.choice(["bye", "psfb", "rr", "rtpfb", "sdes", "sr"]) for _ in range(rng.choice([1, 1, 2, 3]))]
    return {"k": "rtcp", "ps": [c.gen_rtcp(rng, t) for t in types]}


def gen_reuse(rng):
    """One live object swept through several values: set, ser, (ser), parse, hostile, parse the same bytes
    again, serialise what was parsed — with a second object of the same kind interleaved."""
    steps = [["mnew", 0]]
    table = gen_table(rng) if rng.random() < 0.7 else {}
    steps.append(["cfg", 0, [list(e) for e in table.items()]])
    kind = rng.choice(["rtp", "rtcp", "rtcp"])
    types = None
    if kind == "rtcp":
        types = [rng.choice(["bye", "psfb", "rr", "rtpfb", "sdes", "sr"]) for _ in range(rng.choice([1, 1, 2]))]

    def value():
        return {"k": "rtp", "p": gen_packet(rng, table)} if kind == "rtp" else gen_rtcp_val(rng, types)

    def parse(b, o):
        return ["prtp", b, 0, o] if kind == "rtp" else ["prtcp", b, o]
    steps.append(["new", 0, value()])
    steps.append(["new", 1, value()])
    for _ in range(rng.choice([2, 3, 5])):
        o = rng.choice([0, 0, 1])
        b = rng.randrange(2)
        steps.append(["set", o, value(), rng.random() < 0.5])
        steps.append(["ser", o, 0, b])
        r = rng.randrange(5)
        if r == 0:
            steps.append(["ser", 1 - o, 0, 2])
        elif r == 1:
            steps += [parse(b, 2), ["host", 2, rng.randrange(1, 30)], parse(b, 3), ["ser", 3, 0, 3], ["ser", 2, 0, 2]]
        elif r == 2:
            steps += [parse(b, 2), ["host", 2, rng.randrange(1, 30)], ["ser", 2, 0, 3], parse(3, 3), parse(b, 2)]
        elif r == 3:
            steps += [["host", o, rng.randrange(1, 30)], ["ser", o, 0, b], parse(b, 2)]
        else:
            steps.append(parse(b, 3))
    return steps


def gen_mix(rng):
    """Random mix over the whole pool, values and bytes drawn from a small per-history set so that the same
    values / bytes recur in different objects at different times."""
    tables = [gen_table(rng), gen_table(rng)]
    merged = dict(tables[0])
    vals = [{"k": "rtp", "p": gen_packet(rng, merged)} for _ in range(2)] + [gen_rtcp_val(rng) for _ in range(2)]
    steps = [["mnew", 0], ["cfg", 0, [list(e) for e in tables[0].items()]], ["mnew", 1], ["cfg", 1, [list(e) for e in tables[1].items()]]]
    live = {}
    regk = {}
    for _ in range(rng.choice([8, 14, 22])):
        r = rng.randrange(9)
        if r <= 1 or not live:
            o = rng.randrange(N_OBJS)
            v = rng.choice(vals)
            if o in live and live[o] == v["k"] and rng.random() < 0.7:
                steps.append(["set", o, v, rng.random() < 0.5])
            else:
                steps.append(["new", o, v])
            live[o] = v["k"]
        elif r <= 4:
            o = rng.choice(list(live))
            b = rng.randrange(N_REGS)
            steps.append(["ser", o, rng.choice([0, 1, 0, 1, None]), b])
            regk[b] = live[o]
        elif r == 5 and regk:
            b = rng.choice(list(regk))
            o = rng.randrange(N_OBJS)
            steps.append(["prtp", b, rng.choice([0, 1, 0, 1, None]), o] if regk[b] == "rtp" else ["prtcp", b, o])
            live[o] = regk[b]
        elif r == 6:
            steps.append(["host", rng.choice(list(live)), rng.randrange(1, 40)])
        elif r == 7:
            v = rng.choice(vals[:2])
            steps.append(["mset", rng.randrange(N_MAPS), v["p"]["ext"]])
        else:
            f = rng.choice(EXT_FIELDS)
            used = set(tables[0].values())
            i = rng.choice([x for x in range(1, 256) if x not in used])
            tables[0][f] = i
            steps.append(["cfg", 0, [[f, i]]])
    return steps


SEEDED = [
    # minimised: audio receiver registers, the map is used, a video receiver registers on the same transport
    [["mnew", 0], ["cfg", 0, [["mid", 1], ["audio_level", 2]]],
     ["new", 0, {"k": "rtp", "p": {"m": 0, "pt": 111, "seq": 65535, "ts": 1234, "ssrc": 5678, "csrc": [],
                                   "ext": {"mid": "0", "audio_level": [True, 42]}, "payload": "78", "pad": 0, "padbytes": "-"}}],
     ["ser", 0, 0, 0], ["prtp", 0, 0, 1],
     ["cfg", 0, [["mid", 1], ["abs_send_time", 3], ["transport_sequence_number", 15]]],
     ["set", 0, {"k": "rtp", "p": {"m": 0, "pt": 96, "seq": 0, "ts": 1234, "ssrc": 5678, "csrc": [],
                                   "ext": {"mid": "1", "abs_send_time": 16777215, "transport_sequence_number": 65535},
                                   "payload": "78", "pad": 0, "padbytes": "-"}}, True],
     ["ser", 0, 0, 1], ["prtp", 1, 0, 1]],
]


class Ops(Component):
    name = "ops"
    theorems = ["ops_ser_current_value", "ops_ser_twice", "ops_parse_pure", "ops_reparse_same", "ops_reuse_roundtrip",
                "ops_reuse_roundtrip_rtcp", "configure_append", "configure_history", "configure_sets", "configure_keeps"]

    def __init__(self):
        self._runs = {}

    def corpus(self):
        return [{"steps": s} for s in SEEDED]

    def cases(self, rng, tier):
        n = 1200 if tier == "quick" else 12000
        out = []
        for i in range(n):
            g = (gen_reconfigure, gen_reconfigure, gen_reuse, gen_mix)[i % 4]
            out.append({"gen": g.__name__[4:], "steps": g(rng)})
        return out

    def _run(self, case):
        key = json.dumps(case, sort_keys=True)
        r = self._runs.get(key)
        if r is None:
            r = self._runs[key] = Run(case["steps"])
            if len(self._runs) > 20000:
                self._runs.clear()
        return r

    def impl(self, case):
        return " ;; ".join(self._run(case).obs)

    def model_line(self, case):
        try:
            run = self._run(case)
        except Exception:  # noqa
            return None
        parts = []
        for i, s in enumerate(case["steps"]):
            op = s[0]
            if op == "mnew":
                parts.append(f"mnew@{s[1]}")
            elif op == "cfg":
                parts.append(f"cfg@{s[1]}@{cfg_str(s[2])}")
            elif op in ("new", "set"):
                parts.append(f"put@{s[1]}@{val_str(s[2])}")
            elif op == "host":
                if i in run.puts:
                    parts.append(f"put@{s[1]}@{val_str(run.puts[i])}")
                else:
                    parts.append("raw@9@-")         # nothing in the slot: a step without effect
            elif op == "ser":
                parts.append(f"ser@{s[1]}@{9 if s[2] is None else s[2]}@{s[3]}")
            elif op == "raw":
                parts.append(f"raw@{s[1]}@{s[2]}")
            elif op == "prtp":
                parts.append(f"prtp@{s[1]}@{9 if s[2] is None else s[2]}@{s[3]}")
            elif op == "prtcp":
                parts.append(f"prtcp@{s[1]}@{s[2]}")
            elif op == "mset":
                parts.append(f"mset@{s[1]}@{ext_str(s[2])}")
            elif op == "mget":
                parts.append(f"mget@{s[1]}@{s[2]}@{s[3]}")
            else:
                return None
        return "rtpops " + " ".join(parts)

    def oracle(self, case, impl_out):
        run = self._run(case)
        return run.fails[0] if run.fails else None

    def label(self, case, impl_out):
        ops = [s[0] for s in case["steps"]]
        kind = case.get("gen", "corpus")
        flags = "".join(t for t, o in (("h", "host"), ("s", "set"), ("R", "prtcp"), ("P", "prtp"), ("g", "mget"), ("e", "mset")) if o in ops)
        bad = next((o.split(" ")[0] for o in impl_out.split(" ;; ") if o.startswith("crash") or o == "not-wf"), "")
        return f"{kind}:{flags}{':' + bad if bad else ''}"

    def shrink(self, case):
        steps = case["steps"]
        n = len(steps)
        if n > 3:
            yield {"steps": steps[:n // 2]}
            yield {"steps": steps[n // 2:]}
        for i in range(n):
            yield {"steps": steps[:i] + steps[i + 1:]}
        for i, s in enumerate(steps):
            if s[0] == "set":
                yield {"steps": steps[:i] + [["new", s[1], s[2]]] + steps[i + 1:]}
            if s[0] == "cfg" and len(s[2]) > 1:
                for j in range(len(s[2])):
                    yield {"steps": steps[:i] + [["cfg", s[1], s[2][:j] + s[2][j + 1:]]] + steps[i + 1:]}
            if s[0] in ("new", "set") and s[2]["k"] == "rtp":
                p = s[2]["p"]
                for f in list(p["ext"]):
                    e = dict(p["ext"])
                    del e[f]
                    yield {"steps": steps[:i] + [s[:2] + [{"k": "rtp", "p": dict(p, ext=e)}] + s[3:]] + steps[i + 1:]}
                if p["csrc"] or p["pad"] or p["payload"] != "-":
                    yield {"steps": steps[:i] + [s[:2] + [{"k": "rtp", "p": dict(p, csrc=[], pad=0, padbytes="-", payload="-")}] + s[3:]] + steps[i + 1:]}
            if s[0] in ("new", "set") and s[2]["k"] == "rtcp" and len(s[2]["ps"]) > 1:
                yield {"steps": steps[:i] + [s[:2] + [{"k": "rtcp", "ps": s[2]["ps"][:1]}] + s[3:]] + steps[i + 1:]}
