"""C07 helper (used by harness/props/C07.py and harness/c07ops.py only): live RTP/RTCP objects as *state*.

The model is a set of pure functions of values; the implementation is a set of mutable objects (`RtpPacket`,
the RTCP packet classes, `HeaderExtensionsMap`).  Everything here goes through PUBLIC attributes only:

  spec_of_*      read the field values of a live object into the JSON spec the generators use
  assign_*       overwrite every field of a live object with the values of a spec (lists in place or by
                 assignment, nested objects field by field or replaced)
  hostile_spec_* what a hostile owner turns a value into (deterministic in k, always inside the wire ranges)
  hostile_*      apply that to a live object (half of the k in place, half by assignment)
"""
from __future__ import annotations

EXT_FIELDS = ["abs_send_time", "audio_level", "mid", "repaired_rtp_stream_id", "rtp_stream_id",
              "transmission_offset", "transport_sequence_number"]


def R():
    from aiortc import rtp
    return rtp


def hx(b: bytes) -> str:
    return bytes(b).hex() if b else "-"


def unhx(s: str) -> bytes:
    return b"" if s == "-" else bytes.fromhex(s)


# ----------------------------------------------------------------------------------------------
# reading live objects
# ----------------------------------------------------------------------------------------------

def spec_of_ext(e) -> dict:
    out = {}
    for f in EXT_FIELDS:
        v = getattr(e, f, None)
        if v is not None:
            out[f] = [bool(v[0]), int(v[1])] if f == "audio_level" else v
    return out


def spec_of_rtp(p, padbytes: str = "-") -> dict:
    return {"m": int(p.marker), "pt": int(p.payload_type), "seq": int(p.sequence_number), "ts": int(p.timestamp),
            "ssrc": int(p.ssrc), "csrc": [int(c) for c in p.csrc], "ext": spec_of_ext(p.extensions),
            "payload": hx(p.payload), "pad": int(p.padding_size), "padbytes": padbytes}


def spec_of_ri(r) -> list:
    return [r.ssrc, r.fraction_lost, r.packets_lost, r.highest_sequence, r.jitter, r.lsr, r.dlsr]


def spec_of_rtcp(p) -> dict:
    rtp = R()
    if isinstance(p, rtp.RtcpByePacket):
        return {"t": "bye", "sources": list(p.sources)}
    if isinstance(p, rtp.RtcpPsfbPacket):
        return {"t": "psfb", "fmt": p.fmt, "ssrc": p.ssrc, "media": p.media_ssrc, "fci": hx(p.fci)}
    if isinstance(p, rtp.RtcpRrPacket):
        return {"t": "rr", "ssrc": p.ssrc, "reports": [spec_of_ri(r) for r in p.reports]}
    if isinstance(p, rtp.RtcpRtpfbPacket):
        return {"t": "rtpfb", "fmt": p.fmt, "ssrc": p.ssrc, "media": p.media_ssrc, "lost": list(p.lost)}
    if isinstance(p, rtp.RtcpSdesPacket):
        return {"t": "sdes", "chunks": [{"ssrc": c.ssrc, "items": [[t, hx(v)] for t, v in c.items]} for c in p.chunks]}
    if isinstance(p, rtp.RtcpSrPacket):
        i = p.sender_info
        return {"t": "sr", "ssrc": p.ssrc, "info": [i.ntp_timestamp, i.rtp_timestamp, i.packet_count, i.octet_count],
                "reports": [spec_of_ri(r) for r in p.reports]}
    raise TypeError(type(p).__name__)


# ----------------------------------------------------------------------------------------------
# building / overwriting live objects
# ----------------------------------------------------------------------------------------------

def ext_value(f, v):
    return tuple(v) if f == "audio_level" and v is not None else v


def build_ext(spec: dict):
    return R().HeaderExtensions(**{f: ext_value(f, v) for f, v in spec.items()})


def build_ri(v):
    return R().RtcpReceiverInfo(ssrc=v[0], fraction_lost=v[1], packets_lost=v[2], highest_sequence=v[3],
                                jitter=v[4], lsr=v[5], dlsr=v[6])


RI_FIELDS = ["ssrc", "fraction_lost", "packets_lost", "highest_sequence", "jitter", "lsr", "dlsr"]
SI_FIELDS = ["ntp_timestamp", "rtp_timestamp", "packet_count", "octet_count"]


def build_rtcp(s):
    rtp = R()
    t = s["t"]
    if t == "bye":
        return rtp.RtcpByePacket(sources=list(s["sources"]))
    if t == "psfb":
        return rtp.RtcpPsfbPacket(fmt=s["fmt"], ssrc=s["ssrc"], media_ssrc=s["media"], fci=unhx(s["fci"]))
    if t == "rr":
        return rtp.RtcpRrPacket(ssrc=s["ssrc"], reports=[build_ri(v) for v in s["reports"]])
    if t == "rtpfb":
        return rtp.RtcpRtpfbPacket(fmt=s["fmt"], ssrc=s["ssrc"], media_ssrc=s["media"], lost=list(s["lost"]))
    if t == "sdes":
        return rtp.RtcpSdesPacket(chunks=[build_chunk(c) for c in s["chunks"]])
    if t == "sr":
        i = s["info"]
        return rtp.RtcpSrPacket(ssrc=s["ssrc"], sender_info=rtp.RtcpSenderInfo(ntp_timestamp=i[0], rtp_timestamp=i[1],
                                                                                 packet_count=i[2], octet_count=i[3]),
                                reports=[build_ri(v) for v in s["reports"]])
    raise KeyError(t)


def build_chunk(c):
    return R().RtcpSourceInfo(ssrc=c["ssrc"], items=[(i[0], unhx(i[1])) for i in c["items"]])


def build_rtp(s):
    rtp = R()
    p = rtp.RtpPacket(payload_type=s["pt"], marker=s["m"], sequence_number=s["seq"], timestamp=s["ts"], ssrc=s["ssrc"],
                      payload=unhx(s["payload"]))
    p.csrc = list(s["csrc"])
    p.padding_size = s["pad"]
    for k, v in s["ext"].items():
        setattr(p.extensions, k, ext_value(k, v))
    return p


def set_list(obj, name, values, inplace):
    """obj.<name> becomes `values`: slice assignment on the live list, or a new list."""
    cur = getattr(obj, name, None)
    if inplace and isinstance(cur, list):
        cur[:] = values
    else:
        setattr(obj, name, list(values))


def assign_ris(obj, specs, inplace):
    cur = getattr(obj, "reports", None)
    if inplace and isinstance(cur, list) and len(cur) == len(specs):
        for r, v in zip(cur, specs):      # the nested objects stay, their fields change
            for f, x in zip(RI_FIELDS, v):
                setattr(r, f, x)
    else:
        set_list(obj, "reports", [build_ri(v) for v in specs], inplace)


def kind_of_rtcp(p) -> str:
    return spec_of_rtcp(p)["t"]


def assign_rtcp(p, s, inplace: bool):
    """Overwrite every public field of the live RTCP packet `p` (same class as the spec) with `s`."""
    t = s["t"]
    if t == "bye":
        set_list(p, "sources", s["sources"], inplace)
    elif t == "psfb":
        p.fmt, p.ssrc, p.media_ssrc, p.fci = s["fmt"], s["ssrc"], s["media"], unhx(s["fci"])
    elif t == "rr":
        p.ssrc = s["ssrc"]
        assign_ris(p, s["reports"], inplace)
    elif t == "rtpfb":
        p.fmt, p.ssrc, p.media_ssrc = s["fmt"], s["ssrc"], s["media"]
        set_list(p, "lost", s["lost"], inplace)
    elif t == "sdes":
        cur = p.chunks
        if inplace and isinstance(cur, list) and len(cur) == len(s["chunks"]):
            for c, cs in zip(cur, s["chunks"]):
                c.ssrc = cs["ssrc"]
                set_list(c, "items", [(i[0], unhx(i[1])) for i in cs["items"]], True)
        else:
            set_list(p, "chunks", [build_chunk(c) for c in s["chunks"]], inplace)
    elif t == "sr":
        p.ssrc = s["ssrc"]
        if inplace:
            for f, x in zip(SI_FIELDS, s["info"]):
                setattr(p.sender_info, f, x)
        else:
            i = s["info"]
            p.sender_info = R().RtcpSenderInfo(ntp_timestamp=i[0], rtp_timestamp=i[1], packet_count=i[2], octet_count=i[3])
        assign_ris(p, s["reports"], inplace)
    else:
        raise KeyError(t)


def assign_compound(ps: list, specs: list, inplace: bool) -> list:
    """The live list of RTCP packets becomes `specs`; objects of the right class are kept and overwritten."""
    new = []
    for i, s in enumerate(specs):
        if i < len(ps) and kind_of_rtcp(ps[i]) == s["t"]:
            assign_rtcp(ps[i], s, inplace)
            new.append(ps[i])
        else:
            new.append(build_rtcp(s))
    if inplace:
        ps[:] = new
        return ps
    return new


def assign_rtp(p, s, inplace: bool):
    p.marker, p.payload_type, p.sequence_number, p.timestamp, p.ssrc = s["m"], s["pt"], s["seq"], s["ts"], s["ssrc"]
    set_list(p, "csrc", s["csrc"], inplace)
    if inplace and getattr(p, "extensions", None) is not None:
        for f in EXT_FIELDS:
            setattr(p.extensions, f, ext_value(f, s["ext"].get(f)))
    else:
        p.extensions = build_ext(s["ext"])
    p.payload = unhx(s["payload"])
    p.padding_size = s["pad"]


# ----------------------------------------------------------------------------------------------
# the hostile owner
# ----------------------------------------------------------------------------------------------

def h_list(l, k, new, limit):
    """clear / append / overwrite the first element / drop the last, by k."""
    l = list(l)
    mode = k % 4
    if mode == 0:
        return []
    if mode == 1:
        return l + [new] if len(l) < limit else l[:-1]
    if mode == 2:
        return [new] + l[1:] if l else [new]
    return l[:-1] if l else [new]


def h_ri(v, k):
    return [(v[0] + k) % 2**32, (v[1] + k) % 256, ((v[2] + 2**23 + k) % 2**24) - 2**23, (v[3] + k) % 2**32,
            (v[4] + 3 * k) % 2**32, (v[5] + k) % 2**32, (v[6] + 7 * k) % 2**32]


def hostile_spec_rtcp(s, k):
    t = s["t"]
    k = max(int(k), 1)
    if t == "bye":
        return {"t": t, "sources": h_list(s["sources"], k, (0xDEAD0000 + k) % 2**32, 31)}
    if t == "psfb":
        fci = unhx(s["fci"])
        fci = [b"", fci + bytes([k % 256] * 4), bytes(4), fci[:-4]][k % 4]
        return {"t": t, "fmt": (s["fmt"] + k) % 32, "ssrc": (s["ssrc"] + k) % 2**32, "media": (s["media"] + 2 * k) % 2**32,
                "fci": hx(fci)}
    if t == "rr":
        rs = [h_ri(v, k) for v in s["reports"]]
        return {"t": t, "ssrc": (s["ssrc"] + k) % 2**32, "reports": h_list(rs, k, h_ri([1, 2, 3, 4, 5, 6, 7], k), 31)}
    if t == "rtpfb":
        lost = h_list(s["lost"], k, (k * 257) % 65536, 60)
        return {"t": t, "fmt": (s["fmt"] + k) % 32, "ssrc": (s["ssrc"] + k) % 2**32, "media": (s["media"] + 2 * k) % 2**32,
                "lost": lost}
    if t == "sdes":
        chunks = [{"ssrc": (c["ssrc"] + k) % 2**32,
                   "items": h_list([list(i) for i in c["items"]], k + 1, [1 + k % 255, hx(bytes([k % 256] * (k % 5)))], 6)}
                  for c in s["chunks"]]
        return {"t": t, "chunks": h_list(chunks, k, {"ssrc": k, "items": [[1, "6869"]]}, 31)}
    if t == "sr":
        i = s["info"]
        rs = [h_ri(v, k) for v in s["reports"]]
        return {"t": t, "ssrc": (s["ssrc"] + k) % 2**32,
                "info": [(i[0] + k) % 2**64, (i[1] + k) % 2**32, (i[2] + k) % 2**32, (i[3] + 5 * k) % 2**32],
                "reports": h_list(rs, k, h_ri([7, 6, 5, 4, 3, 2, 1], k), 31)}
    raise KeyError(t)


def hostile_spec_compound(specs, k):
    out = [hostile_spec_rtcp(s, k + i) for i, s in enumerate(specs)]
    if k % 5 == 4 and len(out) > 1:
        out = out[:-1]
    elif k % 5 == 3:
        out = out + [{"t": "bye", "sources": [k % 2**32]}]
    return out


def hostile_spec_ext(e, k):
    out = {}
    for j, f in enumerate(EXT_FIELDS):
        v = e.get(f)
        if v is None:
            if (k + j) % 3 == 0:     # a value appears
                out[f] = {"abs_send_time": k % 2**24, "audio_level": [bool(k % 2), k % 128], "mid": "h%d" % (k % 10),
                          "repaired_rtp_stream_id": "r%d" % (k % 10), "rtp_stream_id": "s%d" % (k % 10),
                          "transmission_offset": -(k % 2**23), "transport_sequence_number": k % 65536}[f]
            continue
        if (k + j) % 4 == 1:         # a value disappears
            continue
        if f == "abs_send_time":
            out[f] = (v + k) % 2**24
        elif f == "audio_level":
            out[f] = [not v[0], (v[1] + k) % 128]
        elif f in ("mid", "repaired_rtp_stream_id", "rtp_stream_id"):
            out[f] = (v + "x")[:200] if len(v.encode("utf8")) < 200 else "y"
        elif f == "transmission_offset":
            out[f] = ((v + 2**23 + k) % 2**24) - 2**23
        else:
            out[f] = (v + k) % 65536
    return out


def hostile_spec_rtp(s, k):
    k = max(int(k), 1)
    payload = unhx(s["payload"])
    payload = [payload + bytes([k % 256]), payload[:-1], bytes([k % 256, 0xFF]), payload[::-1] + b"\x00"][k % 4]
    pad = [0, (s["pad"] + k) % 256, 1, s["pad"]][k % 4]
    return {"m": s["m"] ^ (k % 2), "pt": (s["pt"] + k) % 128, "seq": (s["seq"] + k) % 65536, "ts": (s["ts"] + 90 * k) % 2**32,
            "ssrc": (s["ssrc"] + k) % 2**32, "csrc": h_list(s["csrc"], k, (0xC0000000 + k) % 2**32, 15),
            "ext": hostile_spec_ext(s["ext"], k), "payload": hx(payload), "pad": pad,
            "padbytes": hx(bytes((k + i) % 256 for i in range(max(pad - 1, 0))))}


def hostile_rtp(p, k):
    """The owner of a live RtpPacket modifies every mutable part of it. Returns the spec it now has."""
    s = hostile_spec_rtp(spec_of_rtp(p), k)
    assign_rtp(p, s, inplace=(k % 2 == 0))
    return s


def hostile_compound(ps: list, k):
    """… of the list `RtcpPacket.parse` returned (the list itself and every packet in it)."""
    specs = hostile_spec_compound([spec_of_rtcp(p) for p in ps], k)
    new = assign_compound(ps, specs, inplace=(k % 2 == 0))
    return new, specs


def hostile_value(v, k):
    """Results of the small helpers (lists, tuples containing lists): modify what can be modified in place."""
    if isinstance(v, list):
        if k % 2:
            v.clear()
        else:
            v.append(v[0] if v else k)
            v.reverse()
    elif isinstance(v, tuple):
        for x in v:
            hostile_value(x, k)
    elif isinstance(v, bytearray):
        v[:] = bytes(len(v))
