"""Helpers of harness/props/C09.py only: a hostile owner, deep public snapshots, process isolation.

The Lean model of sdp.py is a set of pure functions; the implementation returns graphs of MUTABLE objects
(SessionDescription -> MediaDescription -> lists of dataclasses, dicts ...).  "Parsing recovers every field that
is in the text" therefore has a second reading which single-shot cases cannot see: the result of a parse depends
on the text only - not on what was parsed before and not on what the owner of an earlier result did with it.

* `snapshot(obj)`   canonical string of EVERYTHING reachable through public attributes (no private names, no
                    identities), used to compare "the same thing observed twice".
* `hostile(obj, k)` the owner of a result modifies every mutable part of it, through public attributes only:
                    str -> other str, int -> int + k, bool flipped, None -> a value, every list / dict changed
                    IN PLACE (elements overwritten, appended, removed) and, for odd k, re-assigned as well.
                    Attributes that cannot be set (frozen dataclass, read-only property) are skipped: making a
                    result immutable is a harmless refactoring.
* `Isolated`        evaluation in forked children (the bulk of a run in one child, every shrink / replay step in
                    its own): hostile steps plus hidden state in the library must not leak between evaluations,
                    and never into the parent (where the oracles compute their pure references).
"""
from __future__ import annotations

import enum
import json
import os

from harness.check import Component

PRIMS = (str, int, float, bool, bytes, type(None))


def _is_lib_obj(o) -> bool:
    mod = type(o).__module__ or ""
    return mod.split(".")[0] == "aiortc" and not isinstance(o, (enum.Enum, type))


def _public_attrs(o) -> list[str]:
    names = []
    d = getattr(o, "__dict__", None)
    if isinstance(d, dict):
        names += [n for n in d if not n.startswith("_")]
    for cls in type(o).__mro__:
        for n in getattr(cls, "__slots__", ()) or ():
            if isinstance(n, str) and not n.startswith("_") and n not in names and hasattr(o, n):
                names.append(n)
    return names


def snapshot(o, depth: int = 0, seen=None) -> str:
    if seen is None:
        seen = set()
    if o is None:
        return "~"
    if isinstance(o, bool):
        return "T" if o else "F"
    if isinstance(o, (int, float)):
        return repr(o)
    if isinstance(o, str):
        return json.dumps(o)
    if isinstance(o, bytes):
        return "b" + o.hex()
    if isinstance(o, enum.Enum):
        return type(o).__name__ + "." + o.name
    if depth > 12:
        return "<deep>"
    if isinstance(o, (list, tuple, dict)) or _is_lib_obj(o):
        if id(o) in seen:
            return "<cycle>"
        seen = seen | {id(o)}
    if isinstance(o, (list, tuple)):
        return ("[" if isinstance(o, list) else "(") + ",".join(snapshot(x, depth + 1, seen) for x in o) + ("]" if isinstance(o, list) else ")")
    if isinstance(o, dict):
        return "{" + ",".join(snapshot(k, depth + 1, seen) + ":" + snapshot(v, depth + 1, seen) for k, v in o.items()) + "}"
    if isinstance(o, (set, frozenset)):
        return "set{" + ",".join(sorted(snapshot(x, depth + 1, seen) for x in o)) + "}"
    if _is_lib_obj(o):
        return type(o).__name__ + "(" + ",".join(n + "=" + snapshot(getattr(o, n, None), depth + 1, seen) for n in sorted(_public_attrs(o))) + ")"
    return "<" + type(o).__name__ + ">"


def snap_diff(a: str, b: str) -> str:
    """Readable excerpt around the first difference of two snapshots."""
    n = min(len(a), len(b))
    i = next((j for j in range(n) if a[j] != b[j]), n)
    lo = max(0, i - 60)
    return f"…{a[lo:i + 50]}…  BECOMES  …{b[lo:i + 50]}…"


def _new_scalar(v, k: int, name: str = ""):
    if isinstance(v, bool):
        return not v
    if isinstance(v, int):
        return v + k
    if isinstance(v, float):
        return v + k
    if isinstance(v, str):
        return (v + "h" + str(k)) if k % 3 else ("h" + str(k))
    if isinstance(v, bytes):
        return v + b"h"
    if v is None:
        # the signalling layer fills sdpMid / sdpMLineIndex of a parsed candidate; an owner may fill anything
        low = name.lower()
        if "index" in low or "port" in low or low in ("channels", "label"):
            return k
        return "h" + str(k)
    return v


def hostile(o, k: int = 1, skip_types: tuple = (), depth: int = 0, seen=None, name: str = ""):
    """Modify `o` as thoroughly as public access allows; returns the value the owner stores in its place
    (the same object for mutable ones, a different value for immutable ones)."""
    if seen is None:
        seen = set()
    if isinstance(o, PRIMS):
        return _new_scalar(o, k, name)
    if isinstance(o, enum.Enum) or depth > 12 or id(o) in seen:
        return o
    if type(o).__name__ in skip_types:
        return o
    seen.add(id(o))
    if isinstance(o, list):
        for i in range(len(o)):
            try:
                o[i] = hostile(o[i], k, skip_types, depth + 1, seen, name)
            except Exception:  # noqa: BLE001
                pass
        try:
            mode = k % 4
            if mode == 0:
                del o[:]
            elif mode == 1:
                o.append(o[0] if o else "h")
            elif mode == 2 and o:
                o.pop()
                o.reverse()
            else:
                o.insert(0, o[-1] if o else 0)
        except Exception:  # noqa: BLE001
            pass
        return o
    if isinstance(o, dict):
        for key in list(o.keys()):
            try:
                o[key] = hostile(o[key], k, skip_types, depth + 1, seen, str(key))
            except Exception:  # noqa: BLE001
                pass
        try:
            if k % 3 == 0:
                o.clear()
            else:
                if o and k % 3 == 2:
                    del o[next(iter(o))]
                o["h" + str(k)] = k
        except Exception:  # noqa: BLE001
            pass
        return o
    if isinstance(o, tuple):
        return tuple(hostile(x, k, skip_types, depth + 1, seen, name) for x in o)
    if isinstance(o, (set, frozenset)):
        return o
    if _is_lib_obj(o):
        for n in _public_attrs(o):
            try:
                v = getattr(o, n)
            except Exception:  # noqa: BLE001
                continue
            if callable(v) and not isinstance(v, PRIMS):
                continue
            nv = hostile(v, k, skip_types, depth + 1, seen, n)
            if nv is v and isinstance(v, (list, dict)) and k % 2 == 1:
                nv = type(v)(v)  # odd k: also store a NEW container (the old one stays modified)
            if nv is not v:
                try:
                    setattr(o, n, nv)
                except Exception:  # noqa: BLE001 - frozen / read-only: fine
                    pass
        return o
    return o


class Isolated(Component):
    """Runs `_impl` in forked children, see the module docstring."""

    def _impl(self, case) -> str:
        raise NotImplementedError

    def _warm(self) -> None:
        """Import the library in the parent (children inherit it)."""
        import aiortc.sdp  # noqa: F401
        import aiortc.contrib.signaling  # noqa: F401

    def _impl_all(self, cases):
        outs = []
        for c in cases:
            try:
                outs.append(self._impl(c))
            except Exception as exc:  # noqa: BLE001
                outs.append("HARNESS-EXC " + type(exc).__name__ + ": " + str(exc)[:200])
        return outs

    def impl_many(self, cases):
        outs = self._fork_all(cases)
        if len(cases) > 1:
            # A deviation seen in the bulk child may be the after-effect of an EARLIER case (state left behind in the
            # library).  Re-evaluate the first failing cases alone, each in a fresh child of this (never modified)
            # process, and prefer the ones that fail on their own: the reported case then replays in a fresh process.
            failing = [i for i, o in enumerate(outs) if " => " in o][:12]
            alone = {i: self._fork_all([cases[i]])[0] for i in failing}
            if any(" => " in o for o in alone.values()):
                for i, o in alone.items():
                    outs[i] = o
        return outs

    def _fork_all(self, cases):
        self._warm()
        parent = os.getpid()
        import gc
        try:
            r, w = os.pipe()
            gc.freeze()  # the child's collector leaves what exists now alone (no copy-on-write storm)
            try:
                pid = os.fork()
            finally:
                if os.getpid() == parent:
                    gc.unfreeze()
        except OSError:
            return self._impl_all(cases)
        if pid == 0:
            code = 1
            try:
                os.close(r)
                data = json.dumps(self._impl_all(cases)).encode()
                with os.fdopen(w, "wb") as f:
                    f.write(data)
                code = 0
            finally:
                os._exit(code)
        os.close(w)
        with os.fdopen(r, "rb") as f:
            data = f.read()
        os.waitpid(pid, 0)
        try:
            outs = json.loads(data.decode())
            assert len(outs) == len(cases)
            return outs
        except Exception:  # noqa: BLE001
            return ["HARNESS-EXC child process failed"] * len(cases)

    # A fork of this process costs 0.1-0.5 s on the machines the check runs on (copy-on-write faults), and
    # harness/check.py shrinks by single evaluations.  All Isolated components of one run share this budget of single
    # evaluations; once it is used up `may_shrink()` is False and the components' shrink() yield nothing more (the
    # case reported is then a correct but not minimal one).  The green path never gets here.
    SINGLE_EVAL_BUDGET = 60
    _single_evals = 0

    def may_shrink(self) -> bool:
        return Isolated._single_evals < Isolated.SINGLE_EVAL_BUDGET

    def _shrink(self, case):
        return []

    def shrink(self, case):
        for cand in self._shrink(case):
            if not self.may_shrink():
                return
            yield cand

    def impl(self, case):
        Isolated._single_evals += 1
        return self._fork_all([case])[0]
