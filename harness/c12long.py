"""C12 — LONG histories for the RtpRouter correspondence / oracle (helper of harness/props/C12.py only).

Class of regression aimed at: a limit that is reached only after a long history (a table capped at N entries, a counter that
saturates, a list that is cut after N elements, "only the first N packets may latch", an LRU that forgets, ...).  The routing
tables of `RtpRouter` are unbounded in the property ("for all sequences of register / unregister operations ... interleaved with
packets") and in the Lean model, so every history below has a demanded outcome; the independent reference (`Ref` in C12.py)
computes it, nothing here knows about any particular limit.

Every generator returns a plain list of router operations (same vocabulary as C12.py):
    ["rr", r, ssrcs, pts, mid]  ["rs", s, ssrc]  ["ur", r]  ["us", s]  ["p", ssrc, pt]
    ["sr", ssrc, reports]  ["rrp", ssrc, reports]  ["sdes", chunks]  ["bye", sources]  ["fb", fmt, ssrc, media]  ["ps", fmt, ssrc, media, fci hex]

`n` is the number of DISTINCT streams / endpoints / cycles the history is about (60..70, 127..130, 255..257, 1000+): the tables go
through every size up to n (and beyond: a few extra entries are always added), and EVERY one of the n entries is probed
afterwards (RTP again after a competing receiver for the payload type was registered = "sticks from then on"; SR / BYE for it =
"RTCP reaches the receiver whose SSRC it reports on"; RR / NACK / PLI / REMB for a sender SSRC), so a limit L <= n anywhere in
the tables shows on the entries past the L-th.
"""
from __future__ import annotations

SIZES = {
    "quick": [60, 61, 62, 63, 64, 65, 66, 67, 68, 69, 70, 127, 128, 129, 130, 255, 256, 257],
    "thorough": [60, 61, 62, 63, 64, 65, 66, 67, 68, 69, 70, 127, 128, 129, 130, 255, 256, 257,
                 511, 512, 513, 1000, 1023, 1024, 1025, 1500, 2047, 2048, 2049, 4095, 4096, 4097],
}
SHAPES = ["latch", "registered", "churn", "pts", "random"]


def ssrc_pool(rng, n, avoid=()):
    """n distinct SSRCs: a consecutive run (from 0, near 2^31, ending at 2^32-1), a strided run, or random 32-bit values."""
    avoid = set(avoid)
    mode = rng.randrange(4)
    for _ in range(20):
        if mode == 0:
            base = rng.choice([0, 1, 10000, 2 ** 31 - n // 2, 2 ** 32 - n - len(avoid) - rng.choice([0, 7])])
            pool = [base + i for i in range(n + len(avoid))]
        elif mode == 1:
            stride = rng.choice([2, 256, 65536, 65537, 1000003])
            stride = min(stride, (2 ** 32 - 1) // (n + len(avoid) + 1))
            base = rng.randrange(0, 2 ** 32 - stride * (n + len(avoid)))
            pool = [base + i * stride for i in range(n + len(avoid))]
        else:
            pool = list({rng.randrange(2 ** 32) for _ in range(n + len(avoid) + 8)})
            rng.shuffle(pool)
        pool = [x for x in pool if x not in avoid and 0 <= x < 2 ** 32][:n]
        if len(pool) == n and len(set(pool)) == n:
            if mode == 0 and rng.random() < 0.3:
                rng.shuffle(pool)
            return pool
        mode = 2
    raise RuntimeError("ssrc_pool")


def _mid(rng, i):
    return rng.choice([None, None, "", f"m{i}", f"m{i % 3}", "audio"])


def _remb(ssrcs, bitrate=123456):
    from aiortc import rtp
    return rtp.pack_remb_fci(bitrate, list(ssrcs)).hex()


def _chunks(xs, size):
    return [xs[i:i + size] for i in range(0, len(xs), size)]


def _order(rng, xs):
    """Probe order: as learnt, newest first, or shuffled."""
    xs = list(xs)
    m = rng.randrange(3)
    if m == 1:
        xs.reverse()
    elif m == 2:
        rng.shuffle(xs)
    return xs


# ------------------------------------------------------------------------------------------------

def long_latch(rng, n):
    """n streams with previously unknown SSRCs show up on 1..3 receivers (disjoint payload types) and latch; then a competing
    receiver is registered for every payload type and every stream is probed: RTP again (must stay), SR / BYE (must reach the
    receiver the stream latched to). Finally an owner is unregistered and streams re-latch to the competitor."""
    nr = rng.choice([1, 1, 2, 3])
    pts = rng.sample(range(128), 2 * nr)
    own = {r: pts[2 * r: 2 * r + rng.choice([1, 2])] for r in range(nr)}
    extra = rng.choice([1, 2, 5, 17])
    pre = ssrc_pool(rng, rng.choice([0, 0, 1, 3]) + 1)
    pool = ssrc_pool(rng, n + extra, avoid=pre)
    ops = []
    for r in range(nr):
        ops.append(["rr", r, [pre[r % len(pre)]] if rng.random() < 0.5 else [], list(own[r]), _mid(rng, r)])
    owner = {}
    for i, x in enumerate(pool):
        r = rng.randrange(nr)
        owner[x] = r
        ops.append(["p", x, rng.choice(own[r])])
        if rng.random() < 0.12:
            y = pool[rng.randrange(i + 1)]
            ops.append(rng.choice([["sr", y, []], ["bye", [y]], ["p", y, rng.choice(own[owner[y]])]]))
    if rng.random() < 0.85:
        for r in range(nr):
            ops.append(["rr", nr + r, [], list(own[r]), _mid(rng, nr + r)])
    for x in _order(rng, pool):
        k = rng.randrange(5)
        pt = rng.choice(own[owner[x]])
        if k == 0:
            ops.append(["p", x, pt])
        elif k == 1:
            ops.append(["sr", x, []])
        elif k == 2:
            ops.append(["bye", [x] + ([rng.choice(pool)] if rng.random() < 0.3 else [])])
        elif k == 3:
            ops += [["p", x, pt], ["sr", x, [rng.choice(pool)]]]
        else:
            ops += [["sr", x, []], ["p", x, pt], ["p", x, rng.choice(range(128))]]
    if rng.random() < 0.4:
        gone = rng.randrange(nr)
        ops.append(["ur", gone])
        for x in _order(rng, pool)[: min(len(pool), 90)]:
            ops.append(["p", x, rng.choice(own[owner[x]])])
            if rng.random() < 0.5:
                ops.append(["sr", x, []])
    return ops


def long_registered(rng, n):
    """n SSRCs registered explicitly (1 receiver with n SSRCs ... n receivers with one each; several calls per receiver), n
    sender SSRCs (1 sender object on many SSRCs ... n senders), payload types spread over all 128; everything is probed; then
    every third endpoint is unregistered and everything is probed again."""
    extra = rng.choice([1, 2, 5])
    pool = ssrc_pool(rng, n + extra)
    spool = pool if rng.random() < 0.3 else ssrc_pool(rng, n + extra)
    k = min(len(pool), rng.choice([1, 2, 7, 31, n, n + extra]))
    ks = min(len(spool), rng.choice([1, 3, 31, n, n + extra]))
    step = rng.choice([1, 3, 5, 7, 127])
    base = rng.randrange(128)
    npts = rng.choice([1, 1, 2, 3])
    rpts = {r: [(base + (r * npts + j) * step) % 128 for j in range(npts)] for r in range(k)}
    if rng.random() < 0.15:
        rpts[0] = list(range(128))
    reg = []
    owner = {}
    for r in range(k):
        mine = pool[r::k]
        for x in mine:
            owner[x] = r
        parts = _chunks(mine, rng.choice([1, 16, 50, 10 ** 6]))
        for j, part in enumerate(parts):
            reg.append(["rr", r, list(part), list(rpts[r]) if j == 0 or rng.random() < 0.5 else [], _mid(rng, r)])
    sowner = {}
    for s in range(ks):
        for x in spool[s::ks]:
            sowner[x] = s
            reg.append(["rs", s, x])
    if rng.random() < 0.7:
        rng.shuffle(reg)
    ops = list(reg)

    def probes(sample=None):
        out = []
        xs = _order(rng, pool)
        ys = _order(rng, spool)
        if sample:
            xs, ys = xs[:sample], ys[:sample]
        for x in xs:
            k_ = rng.randrange(4)
            if k_ == 0:
                out.append(["p", x, rng.choice(rpts[owner[x]])])
            elif k_ == 1:
                out.append(["p", x, rng.randrange(128)])
            elif k_ == 2:
                out.append(["sr", x, [rng.choice(spool) for _ in range(rng.choice([0, 1, 2]))]])
            else:
                out.append(["bye", [x]])
        for part in _chunks(xs, rng.choice([2, 31, 40, 100])):
            out.append(["bye", list(part)])
        for y in ys:
            k_ = rng.randrange(5)
            if k_ == 0:
                out.append(["rrp", 9, [y]])
            elif k_ == 1:
                out.append(["fb", rng.choice([1, 15]), 9, y])
            elif k_ == 2:
                out.append(["ps", rng.choice([1, 2, 4]), 9, y, ""])
            elif k_ == 3:
                out.append(["ps", 15, 9, 0, _remb([y])])
            else:
                out.append(["sr", rng.choice(pool), [y]])
        for part in _chunks(ys, rng.choice([2, 31, 64, 100])):
            out.append([rng.choice(["rrp", "sr"]), 9, list(part)])
        for part in _chunks(ys, rng.choice([3, 64, 128, 255])):
            out.append(["ps", 15, 9, rng.choice([0, 0, part[0]]), _remb(part)])
        return out

    ops += probes()
    for r in range(0, k, 3):
        ops.append(["ur", r])
    for s in range(0, ks, 3):
        ops.append(["us", s])
    ops += probes(sample=min(len(pool), 120))
    return ops


def long_churn(rng, n):
    """n register / traffic / unregister cycles (receiver and sender ids reused from a pool of 3 or fresh every time; most
    endpoints go away again, some stay), then a last receiver / sender and traffic for them: limits on what was EVER seen."""
    fresh = rng.random() < 0.5
    keep = rng.choice([0.0, 0.1, 0.5])
    pts = rng.sample(range(128), 3)
    pool = ssrc_pool(rng, 3 * n + 6)
    ops = []
    live_r, live_s = [], []
    for i in range(n):
        rid = i if fresh else i % 3
        sid = i if fresh else i % 3
        pt = pts[i % 3] if rng.random() < 0.5 else pts[0]
        reg, unk, snd = pool[3 * i], pool[3 * i + 1], pool[3 * i + 2]
        ops.append(["rr", rid, [reg] if rng.random() < 0.7 else [], [pt], _mid(rng, i)])
        live_r.append((rid, reg, unk, pt))
        ops.append(["p", unk, pt])
        ops.append(rng.choice([["sr", unk, []], ["bye", [unk, reg]], ["p", reg, pt], ["sr", reg, [snd]]]))
        if rng.random() < 0.6:
            ops.append(["rs", sid, snd])
            live_s.append((sid, snd))
            ops.append(rng.choice([["rrp", 9, [snd]], ["fb", 1, 9, snd], ["ps", 15, 9, 0, _remb([snd])]]))
            if rng.random() >= keep:
                ops.append(["us", sid])
        if rng.random() >= keep:
            ops.append(["ur", rid])
        if rng.random() < 0.1 and live_r:
            _rid, reg0, unk0, pt0 = rng.choice(live_r)
            ops.append(rng.choice([["p", unk0, pt0], ["sr", reg0, []], ["bye", [unk0]]]))
    a, b, c = pool[3 * n: 3 * n + 3]
    last = n + 5
    ops += [["rr", last, [a], [pts[0]], None], ["p", b, pts[0]], ["sr", b, []], ["sr", a, []], ["rr", last + 1, [], [pts[0]], None],
            ["p", b, pts[0]], ["p", a, pts[0]], ["bye", [b, a]], ["rs", last, c], ["rrp", 9, [c]], ["ps", 15, 9, 0, _remb([c])]]
    for _rid, reg0, unk0, pt0 in live_r[-40:] + live_r[:10]:
        ops.append(rng.choice([["p", unk0, pt0], ["sr", reg0, []], ["bye", [unk0, reg0]], ["sr", unk0, []]]))
    for _sid, snd0 in live_s[-20:] + live_s[:5]:
        ops.append(["rrp", 9, [snd0]])
    return ops


def long_pts(rng, n):
    """All 128 payload types: one receiver accepting all of them, 128 receivers with one each, or overlapping windows; n streams
    spread over the payload types latch; then a competitor and a second packet for every stream."""
    variant = rng.randrange(3)
    pool = ssrc_pool(rng, n + rng.choice([1, 3]))
    ops = []
    accept = {}
    if variant == 0:
        ops.append(["rr", 0, [], list(range(128)), None])
        if rng.random() < 0.5:
            ops.append(["rr", 1, [], list(range(0, 128, 2)), "a"])
    elif variant == 1:
        order = list(range(128))
        rng.shuffle(order)
        for pt in order:
            ops.append(["rr", pt, [], [pt], _mid(rng, pt)])
    else:
        w = rng.choice([8, 12, 16])
        for i in range(0, 128, 8):
            ops.append(["rr", i // 8, [], [(i + j) % 128 for j in range(w)], _mid(rng, i)])
    ptof = {}
    for i, x in enumerate(pool):
        ptof[x] = (i * rng.choice([1, 1, 1, 3])) % 128 if rng.random() < 0.9 else rng.randrange(128)
        ops.append(["p", x, ptof[x]])
    if rng.random() < 0.7:
        ops.append(["rr", 500, [], list(range(128)) if rng.random() < 0.5 else rng.sample(range(128), 40), "z"])
    for x in _order(rng, pool):
        ops.append(["p", x, ptof[x]])
        if rng.random() < 0.4:
            ops.append(rng.choice([["sr", x, []], ["bye", [x]], ["p", x, (ptof[x] + 1) % 128]]))
    return ops


def long_random(rng, n, gen_op):
    """The random operation mix of the short histories over a pool of n SSRCs, 3n..4n operations."""
    nr, ns = rng.choice([2, 3, 6]), rng.choice([2, 3, 6])
    pool = ssrc_pool(rng, n)
    pts = rng.sample(range(128), rng.choice([1, 2, 3]))
    ops = []
    for r in range(nr):
        ops.append(["rr", r, [rng.choice(pool) for _ in range(rng.choice([0, 1, 5]))], [rng.choice(pts) for _ in range(rng.choice([1, 2]))], _mid(rng, r)])
    # a window that slides over the pool keeps re-using recent SSRCs while new ones keep arriving
    total = rng.randint(3 * n, 4 * n)
    for i in range(total):
        hi = min(len(pool), 2 + i * len(pool) // max(1, total - n // 2))
        lo = max(0, hi - rng.choice([4, 16, 64, hi]))
        ops.append(gen_op(rng, nr, ns, pool[lo:hi] or pool[:1], pts))
    return ops


def gen_long(rng, shape, n, gen_op):
    if shape == "latch":
        return long_latch(rng, n)
    if shape == "registered":
        return long_registered(rng, n)
    if shape == "churn":
        return long_churn(rng, n)
    if shape == "pts":
        return long_pts(rng, n)
    if shape == "random":
        return long_random(rng, n, gen_op)
    raise ValueError(shape)


def bucket(ops):
    """Histogram suffix: how many distinct SSRCs a history is about."""
    seen = set()
    for op in ops:
        k = op[0]
        if k == "rr":
            seen.update(op[2])
        elif k in ("rs", "fb", "ps"):
            seen.add(op[2] if k == "rs" else op[3])
        elif k == "p":
            seen.add(op[1])
        elif k in ("sr", "rrp"):
            seen.add(op[1])
            seen.update(op[2])
        elif k in ("bye", "sdes"):
            seen.update(op[1])
    n = len(seen)
    for lim in (4096, 1000, 256, 128, 64):
        if n > lim:
            return f">{lim}ssrcs"
    return "<=64ssrcs"


# ------------------------------------------------------------------------------------------------
# delta debugging for long histories (the generic one-op-at-a-time shrinker would spend its whole budget on the prefix)
# ------------------------------------------------------------------------------------------------

def ddmin(ops, fails, max_evals=2500, max_seconds=5.0):
    """Remove chunks of decreasing size (from the end towards the front) while `fails(ops)` stays true."""
    import time
    t0 = time.time()
    evals = [0]

    def ok(c):
        if evals[0] >= max_evals or time.time() - t0 > max_seconds:
            return False
        evals[0] += 1
        try:
            return bool(fails(c))
        except Exception:  # noqa: BLE001
            return False
    chunk = max(1, len(ops) // 2)
    while True:
        changed = False
        i = len(ops)
        while i > 0:
            lo = max(0, i - chunk)
            cand = ops[:lo] + ops[i:]
            if cand != ops and ok(cand):
                ops = cand
                changed = True
            i = lo
        if evals[0] >= max_evals or time.time() - t0 > max_seconds:
            break
        if chunk == 1:
            if not changed:
                break
        else:
            chunk = max(1, chunk // 2)
    return ops
