"""C17 part 2, RTP side — origin independence of the REAL stateful RTP objects (helper of harness/props/C17.py).

Every component here plays ONE scripted history, written in origin-free terms (packet k of the stream, "the packet
j positions back", timestamp offsets), from several origins of every 16/32-bit counter the object carries and
compares what the object does after subtracting the origins.  The same absolute runs go through the Lean models
(`video sender` / `video recv` / `video tsmap` request lines of Drv/Video.lean, shared with C11).

  sender-origin    RTCRtpSender: sequence number, RTX sequence number, timestamp origin; packetisation loop,
                   retransmission history, NACK branch of the RTCP entry point (optionally through the RTCP codec)
  receiver-origin  video RTCRtpReceiver: RTX unwrap -> NackGenerator -> JitterBuffer -> TimestampMapper
  tsmap-origin     TimestampMapper alone (arbitrary 32-bit walks)
  rate-origin      RemoteBitrateEstimator / InterArrival: 24-bit abs-send-time origin (oracle only)

The rigs (fake transport, scripted track / encoder, tapped decoder queue) are C11's; they are imported, not copied.
"""
from __future__ import annotations

import asyncio
import json

from harness.check import Component, case_key
from harness.props import C11 as V

M16 = 1 << 16
M24 = 1 << 24
M32 = 1 << 32
HIST = 128
PT, RTX_PT = V.PT, V.RTX_PT
SSRC, RTX_SSRC = 1234, 2345

# sequence-number origins the property text names: small, at the wrap, one history (128) before the wrap, mid-space
SEQ_ORIGINS = [0, 100, 65535, 65534, 65533, 65531, 65536 - 128 - 1, 65536 - 128, 65536 - 128 + 1, 65536 - 256,
               32767, 32768, 32767 - 128]
TS_ORIGINS = [0, 1, M32 - 1, M32 - 3000, M32 - 90000, M32 // 2, M32 // 2 - 1]
J_EDGES = [0, 1, 2, 126, 127, 128, 129, 130, 254, 255, 256, 257, 383, 384, 385, 399, 400]

UNDRIVEABLE = "undriveable "


def _skey(x) -> str:
    return json.dumps(x, sort_keys=True)


class _Memo:
    def __init__(self, limit=4000):
        self.d = {}
        self.limit = limit

    def get(self, key, fn):
        if key not in self.d:
            if len(self.d) > self.limit:
                self.d.clear()
            self.d[key] = fn()
        return self.d[key]


def _harness_side(exc) -> bool:
    """an exception that says the harness could not drive the object (renamed internals), not that the object failed"""
    return isinstance(exc, (AttributeError, TypeError, ImportError, NameError, KeyError, asyncio.TimeoutError))


# ------------------------------------------------------------------------------------------------
# sender
# ------------------------------------------------------------------------------------------------
def _payload(idx: int, first: bool) -> bytes:
    """VP8-looking payload that names the stream index of its packet"""
    return bytes([0x10 if first else 0x00]) + (idx % (1 << 24)).to_bytes(3, "big")


class _Rig(V.SenderRig):
    """C11's rig; waiting for `_run_rtp` to come back to track.recv() does not look at private attributes"""

    async def _wait_idle(self):
        """wait until `_run_rtp` is back at track.recv(); when the loop dies instead (it swallows exceptions) it stops the
        track, which is public behaviour (`ended` event); the private task handle is used only if it is there"""
        if not hasattr(self, "_ended"):
            self._ended = asyncio.Event()
            self.track.on("ended", lambda: self._ended.set())
        waits = [asyncio.ensure_future(self.track.idle.wait()), asyncio.ensure_future(self._ended.wait())]
        task = getattr(self.sender, "_RTCRtpSender__rtp_task", None)
        done, pending = await asyncio.wait(waits + ([task] if task is not None else []),
                                           return_when=asyncio.FIRST_COMPLETED, timeout=5)
        for w in waits:
            if w not in done:
                w.cancel()
        if waits[0] not in done:
            raise V.SenderStopped("_run_rtp stopped (an exception escaped the packetisation loop)")

    async def nack_wire(self, lost):
        """the NACK as bytes through the RTCP codec, as it would come from the transport"""
        from aiortc.rtp import RTCP_RTPFB_NACK, RtcpPacket, RtcpRtpfbPacket
        pkt = RtcpRtpfbPacket(fmt=RTCP_RTPFB_NACK, ssrc=V.RTCP_SSRC, media_ssrc=self.cfg["ssrc"])
        pkt.lost = list(lost)
        got = []
        for p in RtcpPacket.parse(bytes(pkt)):
            got += list(p.lost)
            await self.sender._handle_rtcp_packet(p)
        return got, self._rtp_only(self.transport.take())


def sender_script(rng, packets):
    """origin-free history: ["f", enc_ts, n] = a frame of n payloads; ["k", [j, …]] = one NACK listing the packets
    j positions before the newest one (j >= number sent: a number from before the origin; j < 0: not sent yet)"""
    ops = []
    sent = 0
    enc_ts = rng.choice([0, 5, 1 << 31, M32 - 1, M32 - 4000])

    def pick(sent):
        m = rng.randrange(10)
        if m < 2:
            return rng.randrange(0, 20)
        if m < 5:
            return rng.choice(J_EDGES)
        if m < 7:
            return rng.randrange(1, 401)
        if m < 9:                      # the first packets of the stream / just before the origin
            return sent - 1 - rng.choice([0, 0, 1, 2, 3, 5, -1, -2, rng.randrange(0, max(1, min(sent, 130)))])
        return rng.choice([-1, -2, rng.randrange(0, 20) + HIST * rng.randrange(1, 4)])

    while sent < packets:
        n = rng.choice([1, 1, 2, 3, 5, 8]) if rng.randrange(10) else rng.choice([40, 127, 128, 129])
        ops.append(["f", enc_ts, n])
        sent += n
        enc_ts += rng.choice([3000, 3000, 1, 90000, M32 - 1])
        x = rng.random()
        if x < 0.25:
            ops.append(["k", [pick(sent) for _ in range(rng.choice([1, 1, 2, 5, 12]))]])
        elif x < 0.4:                  # a burst loss: consecutive numbers in sending order, as a receiver lists them
            j0 = pick(sent)
            ops.append(["k", [j0 - i for i in range(rng.choice([2, 3, 8, 17, 20]))]])
    # every boundary distance once more at the end, one decision per NACK
    for j in J_EDGES + [sent - 2, sent - 1, sent, sent + 1]:
        ops.append(["k", [j]])
    return ops


def _abs_ops(case):
    """the script at the case's origin: [["f", enc_ts, [hex…]] | ["k", [absolute seq…]]]"""
    out = []
    sent = 0
    for op in case["ops"]:
        if op[0] == "f":
            out.append(["f", op[1], [_payload(sent + i, i == 0).hex() for i in range(op[2])]])
            sent += op[2]
        else:
            out.append(["k", [(case["seq0"] + sent - 1 - j) % M16 for j in op[1]]])
    return out


class SenderOrigin(Component):
    name = "sender-origin"
    theorems = ["history_slot_shift", "history_size_is_128", "sendFrame_shift", "histLookup_shift", "retransmit_sends_lookup",
                "retransmit_shift", "handleNack_shift_plain", "rtp_sender_origin_independent", "rtp_sender_decisions_origin_independent"]

    BASE = {"seq0": 100, "rtx_seq0": 7, "ts0": 1000}

    def __init__(self):
        self._obs = _Memo()

    def corpus(self):
        # 130 single-packet frames from 65535: the packet 128 back was sent before the wrap and has left the history
        ops = [["f", 3000 * i, 1] for i in range(130)] + [["k", [j]] for j in (0, 127, 128, 129)]
        two = [["f", 0, 3], ["k", [0, 1, 2, 3, -1]], ["f", 3000, 127], ["k", [127, 128, 129]], ["f", 6000, 2], ["k", [128, 127, 131]]]
        out = []
        for o in (self.BASE, {"seq0": 65535, "rtx_seq0": 65535, "ts0": M32 - 1}, {"seq0": 65536 - 129, "rtx_seq0": 65534, "ts0": M32 - 3000}):
            out.append(dict(o, rtx=True, ext=False, wire=False, ops=ops))
            out.append(dict(o, rtx=False, ext=True, wire=True, ops=two))
        return out

    def cases(self, rng, tier):
        nscripts = 30 if tier == "quick" else 150
        out = []
        for s in range(nscripts):
            packets = rng.choice([140, 300, 420]) if tier == "quick" else rng.choice([140, 300, 420, 900])
            ops = sender_script(rng, packets)
            flags = {"rtx": s % 2 == 0, "ext": s % 5 == 0, "wire": s % 3 == 0}
            origins = [dict(self.BASE), {"seq0": 0, "rtx_seq0": 0, "ts0": 0}]
            picks = rng.sample(SEQ_ORIGINS[2:], 4) + [65536 - rng.randrange(1, packets), 65535 - rng.randrange(0, 6),
                                                      65536 - HIST + rng.randrange(-2, 3)]
            for seq0 in picks:
                origins.append({"seq0": seq0 % M16,
                                "rtx_seq0": rng.choice([65535, 65534, 65536 - rng.randrange(1, 40), 32767, rng.randrange(M16)]),
                                "ts0": rng.choice(TS_ORIGINS + [rng.randrange(M32)])})
            for o in origins:
                out.append(dict(o, ops=ops, **flags))
        return out

    # -- running the real sender -------------------------------------------------------------------
    def observe(self, case):
        return self._obs.get(case_key(case), lambda: self._observe(case))

    def _observe(self, case):
        cfg = {"seq0": case["seq0"], "rtx_seq0": case["rtx_seq0"], "ts0": case["ts0"], "ssrc": SSRC, "rtx_ssrc": RTX_SSRC,
               "rtx": case["rtx"], "ext": case["ext"]}
        ops = _abs_ops(case)

        async def go():
            rig = _Rig(cfg)
            await rig.start()
            steps = []
            try:
                for op in ops:
                    if op[0] == "f":
                        raw = await rig.frame(op[1], [bytes.fromhex(h) for h in op[2]])
                        steps.append((op, [rig.parse(d) for d in raw]))
                    else:
                        # an exception out of the RTCP entry point (or the RTCP codec) is the answer to THIS NACK; the
                        # history goes on, so that one failing NACK does not hide what the later ones do
                        try:
                            if case["wire"]:
                                got, raw = await rig.nack_wire(op[1])
                            else:
                                got, raw = op[1], await rig.nack(op[1])
                            steps.append((["k", got], [rig.parse(d) for d in raw]))
                        except Exception as exc:
                            if _harness_side(exc):
                                raise
                            rig.transport.take()
                            steps.append((["k", op[1], "raised " + V._exc_tag(exc)], []))
            finally:
                await rig.stop()
            return steps

        try:
            steps = V._run(go())
        except V.SenderStopped as exc:
            return {"out": "crash SenderStopped", "steps": None, "why": str(exc)}
        except Exception as exc:
            if _harness_side(exc):
                return {"out": UNDRIVEABLE + type(exc).__name__ + ": " + str(exc)[:120], "steps": None, "why": str(exc)[:200]}
            return {"out": V._exc_tag(exc), "steps": None, "why": str(exc)[:200]}
        raised = [op[2] for op, _ in steps if op[0] == "k" and len(op) > 2]
        if raised:
            out = raised[0][len("raised "):]
        else:
            out = "ok " + ";".join((",".join(V._show_pkt(p) for p in pk) if pk else "-") for _, pk in steps)
        return {"out": out, "steps": steps}

    def impl(self, case):
        return self.observe(case)["out"]

    def model_line(self, case):
        obs = self.observe(case)
        ops = [op for op, _ in obs["steps"]] if obs["steps"] is not None else _abs_ops(case)
        enc = []
        for op in ops:
            if op[0] == "f":
                enc.append("f:%d:%s" % (op[1], "/".join(op[2]) if op[2] else "-"))
            else:
                enc.append("k:" + (".".join(str(x) for x in op[1]) if op[1] else "-"))
        # the request carries the negotiated codec list (Drv/Video.lean): [the codec] or [the codec, its rtx]
        table = "%d:m:n" % PT + (",%d:r:%d" % (RTX_PT, PT) if case["rtx"] else "")
        return "video sender %d %d %s %d %d %d %s" % (SSRC, RTX_SSRC, table, case["ts0"],
                                                      case["seq0"], case["rtx_seq0"], ";".join(enc) if enc else "-")

    # -- origin-free view --------------------------------------------------------------------------
    @staticmethod
    def relative(case, steps):
        """per op: the packets sent with every counter expressed relative to its origin"""
        rel = []
        for op, pk in steps:
            row = []
            for p in pk:
                base = (p.payload_type, p.ssrc, p.marker, (p.timestamp - case["ts0"]) % M32)
                if op[0] == "k" and case["rtx"] and p.payload_type == RTX_PT and len(p.payload) >= 2:
                    osn = int.from_bytes(p.payload[:2], "big")
                    row.append(base + ("rtx#%d" % ((p.sequence_number - case["rtx_seq0"]) % M16),
                                       "osn#%d" % ((osn - case["seq0"]) % M16), p.payload[2:].hex()))
                else:
                    row.append(base + ("seq#%d" % ((p.sequence_number - case["seq0"]) % M16), p.payload.hex()))
            asked = None if op[0] == "f" else [(x - case["seq0"]) % M16 for x in op[1]]
            rel.append((op[0], asked, row + (list(op[2:]) if op[0] == "k" else [])))
        return rel

    def _base_case(self, case):
        return dict(case, **self.BASE)

    def _base_sane(self, bcase, steps):
        """do the scripted origins land where the rig put them (first packet / first retransmission of the base run)?"""
        first = next((pk[0] for op, pk in steps if op[0] == "f" and pk), None)
        if first is not None:
            f0 = next(op for op, pk in steps if op[0] == "f" and pk)
            if first.sequence_number != bcase["seq0"] or first.timestamp != (bcase["ts0"] + f0[1]) % M32:
                return False
        if bcase["rtx"]:
            r0 = next((pk[0] for op, pk in steps if op[0] == "k" and pk), None)
            if r0 is not None and (r0.payload_type != RTX_PT or r0.sequence_number != bcase["rtx_seq0"]):
                return False
        return True

    def oracle(self, case, impl_out):
        obs = self.observe(case)
        bcase = self._base_case(case)
        base = self.observe(bcase)
        if base["out"].startswith(UNDRIVEABLE) or (base["steps"] is not None and not self._base_sane(bcase, base["steps"])):
            return None            # the harness cannot drive this sender at all: the correspondence with the model reports it
        if (obs["steps"] is None) != (base["steps"] is None):
            return (f"RTP sender from origin seq={case['seq0']} rtx={case['rtx_seq0']} ts={case['ts0']}: {obs['out']} "
                    f"({obs.get('why', '')}); from origin {self.BASE}: {base['out']} ({base.get('why', '')})")
        if obs["steps"] is None:
            return None            # fails the same way from both origins: not an origin dependence (C11 reports it)
        a, b = self.relative(self._base_case(case), base["steps"]), self.relative(case, obs["steps"])
        sent = 0
        for i, (x, y) in enumerate(zip(a, b)):
            if x != y:
                where = f"op {i} after {sent} packets"
                if x[0] == "k":
                    js = [((sent - 1 - r + M16 // 2) % M16) - M16 // 2 for r in y[1]]
                    return (f"retransmission depends on the sequence-number origin: {where}, NACK for the packets {js} positions back "
                            f"(sequence numbers {[(case['seq0'] + r) % M16 for r in y[1]]}): from origin seq={case['seq0']} "
                            f"rtx={case['rtx_seq0']} ts={case['ts0']} the sender answers {y[2]}, from origin seq={self.BASE['seq0']} it answers {x[2]}")
                return (f"packetisation depends on the origin: {where}: origin seq={case['seq0']} ts={case['ts0']} sends {y[2][:3]}, "
                        f"origin seq={self.BASE['seq0']} sends {x[2][:3]}")
            if x[0] == "f":
                sent += len(x[2])
        return None

    def label(self, case, impl_out):
        obs = self.observe(case)
        if obs["steps"] is None:
            return impl_out[:24]
        sent = sum(len(pk) for op, pk in obs["steps"] if op[0] == "f")
        hit = sum(len(pk) for op, pk in obs["steps"] if op[0] == "k")
        asked = sum(len(op[1]) for op, _ in obs["steps"] if op[0] == "k")
        wrap = "wrap" if case["seq0"] + sent >= M16 else "nowrap"
        rwrap = "-rtxwrap" if case["rtx"] and case["rtx_seq0"] + hit >= M16 else ""
        exc = "-raised" if any(op[0] == "k" and len(op) > 2 for op, _ in obs["steps"]) else ""
        return ("rtx" if case["rtx"] else "plain") + "-" + wrap + rwrap + ("-hit" if hit else "") + ("-miss" if asked > hit else "") + exc

    def nontrivial(self, case, impl_out):
        return self.observe(case)["steps"] is not None

    def shrink(self, case):
        ops = case["ops"]
        n = len(ops)
        size = n // 2
        while size >= 1:                      # drop chunks of ops (NACK positions are relative, they stay meaningful)
            for i in range(0, n, size):
                rest = ops[:i] + ops[i + size:]
                if rest:
                    yield dict(case, ops=rest)
            size //= 2
        for i, op in enumerate(ops):
            if op[0] == "k" and len(op[1]) > 1:
                for j in range(len(op[1])):
                    yield dict(case, ops=ops[:i] + [["k", op[1][:j] + op[1][j + 1:]]] + ops[i + 1:])
            if op[0] == "f" and op[2] > 1:
                yield dict(case, ops=ops[:i] + [["f", op[1], op[2] // 2]] + ops[i + 1:])
                yield dict(case, ops=ops[:i] + [["f", op[1], op[2] - 1]] + ops[i + 1:])
        for k, v in (("ext", False), ("wire", False), ("ts0", 0), ("rtx_seq0", 0)):
            if case[k] != v:
                yield dict(case, **{k: v})


# ------------------------------------------------------------------------------------------------
# receiver
# ------------------------------------------------------------------------------------------------
def receiver_script(rng, nframes, rtx=True):
    """origin-free arrival pattern: frames = [[ts offset, n packets]…]; arr = [["p", i] | ["x", i, k]]: packet i of the
    stream / its retransmission as RTX packet number k"""
    frames = []
    ts = 0
    for _ in range(nframes):
        frames.append([ts, rng.choice([1, 1, 2, 3, 4, 6])])
        ts += rng.choice([3000, 3000, 3000, 1, 90000, rng.randrange(1, 10000)])
    total = sum(n for _, n in frames)
    arr = []
    rtxk = 0
    i = 0
    while i < total:
        m = rng.randrange(100)
        if m < 62:
            arr.append(["p", i])
        elif m < 72:
            pass
        elif m < 78:
            arr += [["p", i], ["p", i]]
        elif m < 88 and i > 0 and rtx:
            arr.append(["x", rng.randrange(max(0, i - 140), i), rtxk])
            rtxk += 1
            arr.append(["p", i])
        elif m < 91:
            i += rng.choice([2, 5, 16, 100, 127, 128, 129, 200])
            continue
        else:
            arr.append(["p", rng.randrange(max(0, i - 130), i + 1)])
        i += 1
    for _ in range(rng.randrange(0, 5)):
        if len(arr) > 2:
            a = rng.randrange(len(arr) - 1)
            b = min(len(arr) - 1, a + rng.randrange(1, 6))
            arr[a], arr[b] = arr[b], arr[a]
    return frames, arr


class ReceiverOrigin(Component):
    name = "receiver-origin"
    theorems = ["nackAdd_shift", "nack_origin_independent", "jitter_add_shift", "jitter_origin_independent",
                "jitter_origin_independent_fresh", "tsmap_shift", "tsmap_origin_independent"]

    BASE = {"seq0": 100, "rtx_seq0": 7, "ts0": 1000}

    def __init__(self):
        self._obs = _Memo()

    def corpus(self):
        frames = [[0, 2], [3000, 3], [6000, 1], [9000, 1], [12000, 2]]
        arr = [["p", 0], ["p", 1], ["p", 2], ["p", 4], ["x", 3, 0], ["p", 5], ["p", 6], ["p", 8], ["p", 7]]
        return [dict(o, frames=frames, arr=arr) for o in (self.BASE, {"seq0": 65534, "rtx_seq0": 65535, "ts0": M32 - 3000})]

    def cases(self, rng, tier):
        nscripts = 25 if tier == "quick" else 120
        out = []
        for k in range(nscripts):
            frames, arr = receiver_script(rng, rng.choice([6, 20, 60]) if tier == "quick" else rng.choice([6, 20, 60, 150]), rtx=k % 3 != 2)
            total = sum(n for _, n in frames)
            origins = [dict(self.BASE), {"seq0": 0, "rtx_seq0": 0, "ts0": 0}]
            for seq0 in rng.sample(SEQ_ORIGINS[2:], 2) + [65536 - rng.randrange(1, total + 1), 65535 - rng.randrange(0, 4)]:
                span = frames[-1][0] + 1
                origins.append({"seq0": seq0 % M16, "rtx_seq0": rng.choice([65535, 65534, rng.randrange(M16)]),
                                "ts0": rng.choice(TS_ORIGINS + [M32 - rng.randrange(1, span + 1), rng.randrange(M32)])})
            for o in origins:
                out.append(dict(o, frames=frames, arr=arr))
        return out

    @staticmethod
    def packets(case):
        """[pt, seq, ts, ssrc, marker, hex] per arrival (the format of C11's `video recv` request)"""
        stream = []
        for ts, n in case["frames"]:
            for i in range(n):
                idx = len(stream)
                stream.append([(case["seq0"] + idx) % M16, (case["ts0"] + ts) % M32, 1 if i == n - 1 else 0, _payload(idx, i == 0).hex()])
        out = []
        for a in case["arr"]:
            if a[1] >= len(stream):
                continue
            seq, ts, m, h = stream[a[1]]
            if a[0] == "p":
                out.append([PT, seq, ts, SSRC, m, h])
            else:
                out.append([RTX_PT, (case["rtx_seq0"] + a[2]) % M16, ts, RTX_SSRC, m, seq.to_bytes(2, "big").hex() + h])
        return out

    def observe(self, case):
        return self._obs.get(case_key(case), lambda: self._observe(case))

    def _observe(self, case):
        from aiortc.rtp import RtpPacket
        cfg = {"rtx": True, "codec": "vp8", "rtcp_ssrc": V.RTCP_SSRC, "rtxmap": [[RTX_SSRC, SSRC]]}
        pkts = self.packets(case)

        async def go():
            rig = V.ReceiverRig(cfg)
            await rig.start()
            res = []
            try:
                for t, (pt, seq, ts, ssrc, m, h) in enumerate(pkts):
                    p = RtpPacket(payload_type=pt, sequence_number=seq, timestamp=ts, marker=m)
                    p.ssrc = ssrc
                    p.payload = bytes.fromhex(h)
                    fbs, items, fwd = await rig.feed(p, t)
                    lost = [list(f.lost) for f in fwd if hasattr(f, "lost")]
                    res.append((fbs, items, lost))
                # the receiver statistics (StreamStatistics inside the real receiver) through the public getStats()
                stats = None
                try:
                    rep = await rig.receiver.getStats()
                    stats = sorted((st.ssrc, st.packetsReceived, st.packetsLost) for st in rep.values()
                                   if getattr(st, "type", "") == "inbound-rtp")
                except Exception:
                    pass
            finally:
                await rig.stop()
            return res, stats

        try:
            res, stats = V._run(go())
        except Exception as exc:
            if _harness_side(exc):
                return {"out": UNDRIVEABLE + type(exc).__name__ + ": " + str(exc)[:120], "res": None, "why": str(exc)[:200]}
            return {"out": V._exc_tag(exc), "res": None, "why": str(exc)[:200]}
        return {"out": "ok " + ";".join(V._show_res(f, i) for f, i, _ in res), "res": res, "stats": stats}

    def impl(self, case):
        return self.observe(case)["out"]

    def model_line(self, case):
        pk = ";".join(".".join(str(x) for x in p) for p in self.packets(case)) or "-"
        return "video recv %d:vp8:n,%d:rtx:%d %d:%d %d 1 %s" % (PT, RTX_PT, PT, RTX_SSRC, SSRC, V.RTCP_SSRC, pk)

    @staticmethod
    def relative(case, res):
        rel = []
        for fbs, items, lost in res:
            kinds = [fb if fb.startswith("P") else fb.split(":")[0] for fb in fbs]
            rel.append((kinds, [sorted((x - case["seq0"]) % M16 for x in l) for l in lost], items))
        return rel

    def oracle(self, case, impl_out):
        obs = self.observe(case)
        bcase = dict(case, **self.BASE)
        base = self.observe(bcase)
        if base["out"].startswith(UNDRIVEABLE):
            return None            # the harness cannot drive this receiver at all: the correspondence with the model reports it
        if (obs["res"] is None) != (base["res"] is None):
            return (f"RTP receiver from origin seq={case['seq0']} ts={case['ts0']}: {obs['out']} ({obs.get('why', '')}); "
                    f"from origin {self.BASE}: {base['out']} ({base.get('why', '')})")
        if obs["res"] is None:
            return None
        a, b = self.relative(bcase, base["res"]), self.relative(case, obs["res"])
        for i, (x, y) in enumerate(zip(a, b)):
            if x != y:
                return (f"RTP receiver depends on the origins: arrival {i} ({case['arr'][i] if i < len(case['arr']) else '?'}): from origin "
                        f"seq={case['seq0']} rtx={case['rtx_seq0']} ts={case['ts0']} feedback/NACK(relative)/decoder item = {str(y)[:300]}, "
                        f"from origin seq={self.BASE['seq0']} ts={self.BASE['ts0']}: {str(x)[:300]}")
        if obs.get("stats") != base.get("stats"):
            return (f"receiver statistics (getStats: ssrc, packetsReceived, packetsLost) depend on the origins: from origin seq={case['seq0']} "
                    f"rtx={case['rtx_seq0']}: {obs.get('stats')}, from origin seq={self.BASE['seq0']} rtx={self.BASE['rtx_seq0']}: {base.get('stats')}")
        return None

    def label(self, case, impl_out):
        obs = self.observe(case)
        if obs["res"] is None:
            return impl_out[:24]
        total = sum(n for _, n in case["frames"])
        w = ("seqwrap" if case["seq0"] + total >= M16 else "") + ("tswrap" if case["ts0"] + case["frames"][-1][0] >= M32 else "")
        nack = any(l for _, _, l in obs["res"])
        items = any(i for _, i, _ in obs["res"])
        return (w or "nowrap") + ("-nack" if nack else "") + ("-frames" if items else "")

    def nontrivial(self, case, impl_out):
        return impl_out.startswith("ok ")

    def shrink(self, case):
        arr = case["arr"]
        n = len(arr)
        size = n // 2
        while size >= 1:
            for i in range(0, n, size):
                rest = arr[:i] + arr[i + size:]
                if rest:
                    yield dict(case, arr=rest)
            size //= 2


# ------------------------------------------------------------------------------------------------
# TimestampMapper
# ------------------------------------------------------------------------------------------------
class TsMapOrigin(Component):
    name = "tsmap-origin"
    theorems = ["tsmap_shift", "tsmap_origin_independent"]

    def cases(self, rng, tier):
        n = 100 if tier == "quick" else 1500
        out = []
        for _ in range(n):
            d = [0]
            for _ in range(rng.choice([1, 3, 10, 40])):
                step = rng.choice([0, 1, 3000, 90000, M32 // 2, M32 - 1, M32 - 3000, rng.randrange(1, 200000), rng.randrange(M32)])
                d.append((d[-1] + step) % M32)
            for t0 in [0, rng.choice(TS_ORIGINS[1:]), M32 - rng.randrange(1, 200000), rng.randrange(M32)]:
                out.append({"t0": t0, "d": d})
        return out

    @staticmethod
    def _ts(case):
        return [(case["t0"] + x) % M32 for x in case["d"]]

    def model_line(self, case):
        return "video tsmap " + ",".join(str(t) for t in self._ts(case))

    @staticmethod
    def _map(ts):
        from aiortc.rtcrtpreceiver import TimestampMapper
        m = TimestampMapper()
        return [m.map(t) for t in ts]

    def impl(self, case):
        try:
            return "ok " + ",".join(str(v) for v in self._map(self._ts(case)))
        except Exception as exc:
            return V._exc_tag(exc)

    def oracle(self, case, impl_out):
        try:
            base = "ok " + ",".join(str(v) for v in self._map(case["d"]))
        except Exception as exc:
            base = V._exc_tag(exc)
        if impl_out != base:
            return (f"TimestampMapper depends on the timestamp origin: offsets {case['d'][:8]}… from origin {case['t0']} map to {impl_out[:120]}, "
                    f"from origin 0 to {base[:120]}")
        return None

    def label(self, case, impl_out):
        return "wrap" if any(case["t0"] + x >= M32 for x in case["d"]) else "nowrap"

    def shrink(self, case):
        d = case["d"]
        for i in range(1, len(d)):
            yield dict(case, d=d[:i] + d[i + 1:])


# ------------------------------------------------------------------------------------------------
# RemoteBitrateEstimator (InterArrival works on abs_send_time << 8, a 32-bit serial number)
# ------------------------------------------------------------------------------------------------
class RateOrigin(Component):
    name = "rate-origin"
    theorems = []

    def cases(self, rng, tier):
        n = 16 if tier == "quick" else 150
        out = []
        for _ in range(n):
            now, a, sched = 1000, 0, []
            for _ in range(rng.choice([50, 300, 900])):
                d = rng.choice([0, 1, 5, 10, 20, 33, 100])
                now = max(0, now + d + rng.choice([0, 0, 1, -1, 3, 30]))
                a += int(d * 262.144) + rng.choice([0, 0, -300, 50])
                sched.append([now, a, rng.choice([50, 100, 1200])])
            # origins: the 24-bit wrap (and the sign change of the 32-bit serial comparison, half way) lands exactly ON a
            # packet / one tick before or after it — inside a group as well as between groups —, at the ends, anywhere
            ks = [rng.randrange(len(sched)) for _ in range(4)]
            os_ = [M24 - 1, M24 - sched[ks[0]][1], M24 - sched[ks[1]][1] - 1, M24 - sched[ks[2]][1] + 1,
                   M24 // 2 - sched[ks[3]][1], rng.randrange(M24)]
            for o in os_:
                out.append({"o": o % M24, "p": sched})
        return out

    @staticmethod
    def _run(case, o):
        from aiortc.rate import RemoteBitrateEstimator
        e = RemoteBitrateEstimator()
        try:
            out = [repr(e.add(now, (a + o) % M24, size, SSRC)) for now, a, size in case["p"]]
        except Exception as exc:
            out = [V._exc_tag(exc)]
        # the inter-arrival filter on its own (finer than the estimate, which moves only when the detector changes state);
        # skipped when the estimator does not expose one
        ia = getattr(RemoteBitrateEstimator(), "inter_arrival", None)
        if ia is not None and hasattr(ia, "compute_deltas"):
            try:
                for now, a, size in case["p"]:
                    d = ia.compute_deltas((((a + o) % M24) << 8) % M32, now, size)
                    out.append("None" if d is None else repr((getattr(d, "timestamp", None), getattr(d, "arrival_time", None), getattr(d, "size", None))))
            except Exception as exc:
                out.append(V._exc_tag(exc))
        return out

    def impl(self, case):
        a, b = self._run(case, 0), self._run(case, case["o"])
        if a == b:
            return "same estimates=%d" % sum(1 for x in a[:len(case["p"])] if x != "None")
        k = next((i for i, (x, y) in enumerate(zip(a, b)) if x != y), min(len(a), len(b)))
        n = len(case["p"])
        if k >= n:
            return f"differ inter-arrival-deltas packet={k - n} origin0={a[k] if k < len(a) else '-'} shifted={b[k] if k < len(b) else '-'}"
        return f"differ packet={k} origin0={a[k] if k < len(a) else '-'} shifted={b[k] if k < len(b) else '-'}"

    def oracle(self, case, impl_out):
        if impl_out.startswith("same"):
            return None
        return (f"remote bitrate estimator depends on the abs-send-time origin ({case['o']} of 2^24): " + impl_out)

    def label(self, case, impl_out):
        wraps = any(a + case["o"] >= M24 for _, a, _ in case["p"])
        return ("wrap" if wraps else "nowrap") + ("" if impl_out.startswith("same") else "-DIFF")

    def nontrivial(self, case, impl_out):
        return "estimates=0" not in impl_out

    def shrink(self, case):
        p = case["p"]
        n = len(p)
        size = n // 2
        while size >= 1:
            for i in range(0, n, size):
                rest = p[:i] + p[i + size:]
                if rest:
                    yield dict(case, p=rest)
            size //= 2
