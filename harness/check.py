"""./check Cnn [--tier quick|thorough] [--replay file]

Flow (DESIGN.md §1.4):
  regenerate Gen -> lake build Props.Cnn + driver -> axiom/sorry audit -> correspondence
  (model driver vs implementation, same inputs) -> oracle (the property itself, evaluated on the
  IMPLEMENTATION's behaviour for every generated case and every disagreeing case).

Verdict:
  * an oracle failure that no known finding covers  -> VIOLATION ... replay=<failing input>
  * else a broken obligation (gen/build/audit) or a model/impl disagreement
                                                    -> VIOLATION ... replay=<names obligation> no-failing-input-found
  * else exit 0 (printing KNOWN-FINDING lines for listed findings).
Exit 2 = infrastructure failure (never a verdict).
"""
from __future__ import annotations

import argparse
import hashlib
import importlib
import json
import os
import sys
import time
import traceback

from . import core, gen


class Component:
    """One modelled unit with a correspondence and an implementation-side oracle."""

    name = "component"
    #: theorems (short names) that this component's correspondence backs; informational
    theorems: list[str] = []

    def cases(self, rng, tier):  # -> iterable of JSON-able cases
        raise NotImplementedError

    def corpus(self):  # cases that always run first
        return []

    def model_line(self, case) -> str | None:
        """Request line for the model driver, or None if the case has no model counterpart."""
        return None

    def impl(self, case) -> str:
        """Canonical observable result of the real code on `case`."""
        raise NotImplementedError

    def impl_many(self, cases) -> list[str]:
        """impl() over all cases (a component may override this to use a process pool)."""
        outs = []
        for c in cases:
            try:
                outs.append(self.impl(c))
            except Exception as exc:  # harness bug or unmodelled crash of the impl: keep it visible
                outs.append("HARNESS-EXC " + type(exc).__name__ + ": " + str(exc)[:200])
        return outs

    def oracle(self, case, impl_out: str) -> str | None:
        """The property on the implementation: None if it holds for this case, else what fails."""
        return None

    def label(self, case, impl_out: str) -> str:
        """Histogram label (branch / error kind) of the case."""
        return impl_out.split(" ", 1)[0][:24] if impl_out else "empty"

    def nontrivial(self, case, impl_out: str) -> bool:
        return True

    def shrink(self, case):
        """Candidate simplifications of a case (each strictly smaller)."""
        return []


def case_key(case) -> str:
    return hashlib.sha1(json.dumps(case, sort_keys=True, default=str).encode()).hexdigest()


def shrink_case(comp: Component, case, still_fails, budget: int = 400):
    """Greedy delta-debugging using comp.shrink."""
    cur = case
    n = 0
    improved = True
    while improved and n < budget:
        improved = False
        for cand in comp.shrink(cur):
            n += 1
            if n >= budget:
                break
            try:
                if still_fails(cand):
                    cur = cand
                    improved = True
                    break
            except Exception:
                continue
    return cur


def finding_matches(mod, finding, comp_name, case, what) -> bool:
    if finding.get("component") not in (None, comp_name):
        return False
    clf = getattr(mod, "classify_finding", None)
    if clf is None:
        return False
    try:
        return bool(clf(finding, comp_name, case, what))
    except Exception:
        return False


def run(prop: str, tier: str, replay: str | None) -> int:
    timer = core.Timer()
    core.use_repo()
    mod = importlib.import_module(f"harness.props.{prop}")
    findings = [f for f in core.load_findings().get("findings", []) if f.get("property") == prop]
    seedv = core.seed()
    broken: list[dict] = []  # broken obligations / correspondences

    # ---- 1. regenerate ------------------------------------------------------------------
    g = gen.regenerate()
    targets = list(getattr(mod, "LEAN_TARGETS", [f"Aiortc.Props.{prop}"]))
    has_driver = bool(getattr(mod, "DRIVERS", []))
    closure = core.import_closure(targets + ([f"Drivers.{prop}"] if has_driver else []), modules=True)
    gen_errors = {u: e for u, e in g["errors"].items() if f"Aiortc.Gen.{u}" in closure}
    for u, e in gen_errors.items():
        broken.append({"kind": "gen", "unit": u, "what": e})

    # ---- 2. build -----------------------------------------------------------------------
    build_ok = False
    driver_ok = False
    if not gen_errors:
        ok, out = core.lake_build(targets)
        build_ok = ok
        if not ok:
            errs = [l for l in out.splitlines() if "error" in l.lower()][:20]
            broken.append({"kind": "build", "what": "lake build " + " ".join(targets) + " failed", "errors": errs})
    if has_driver:
        # the driver only needs the executable model; try to build it even if a proof broke
        ok2, out2 = core.lake_build([f"drv_{prop}"])
        driver_ok = ok2
        if not ok2:
            errs = [l for l in out2.splitlines() if "error" in l.lower()][:20]
            broken.append({"kind": "build", "what": f"lake build drv_{prop} failed", "errors": errs})

    # ---- 3. audit -----------------------------------------------------------------------
    names: list[str] = []
    discharged = 0
    if build_ok:
        a = core.audit(prop, getattr(mod, "AUDIT_PROPS", None))
        names = a["theorems"]
        if a["ok"]:
            discharged = len(names)
        else:
            bad = set(a["bad_axioms"].keys())
            discharged = len([n for n in names if n not in bad]) if not a["forbidden"] and "<not reported>" not in bad else 0
            broken.append({"kind": "audit", "what": "axiom / forbidden-token audit failed",
                           "bad_axioms": a["bad_axioms"], "forbidden": a["forbidden"], "output": a["output"][-2000:]})
        if tier == "thorough" and a["ok"] and os.environ.get("VERIF_NO_LEANCHECKER") != "1":
            import subprocess
            p = subprocess.run(["lake", "env", "leanchecker"] + targets, cwd=core.LEAN_DIR,
                               stdout=subprocess.PIPE, stderr=subprocess.STDOUT, text=True)
            if p.returncode != 0:
                broken.append({"kind": "leanchecker", "what": "leanchecker rejected " + " ".join(targets), "output": p.stdout[-2000:]})
    else:
        for pf in getattr(mod, "AUDIT_PROPS", None) or [prop]:
            props_file = os.path.join(core.LEAN_DIR, "Aiortc", "Props", f"{pf}.lean")
            if os.path.exists(props_file):
                names += core.theorem_names(props_file)

    # ---- 4/5. correspondence + oracle ------------------------------------------------------
    comps: list[Component] = mod.components(tier)
    if replay:
        with open(replay) as f:
            rp = json.load(f)
    evaluations = 0
    distinct: set[str] = set()
    histogram: dict[str, int] = {}
    samples: list = []
    disagreements: list[dict] = []
    oracle_failures: list[dict] = []
    known_hits: dict[str, dict] = {}
    per_component = {}
    infra = []

    for comp in comps:
        t_comp = time.time()
        if replay:
            if rp.get("component") not in (None, comp.name):
                continue
            if "case" not in rp:
                continue
            cases = [rp["case"]]
        else:
            r = core.rng(prop + ":" + comp.name)
            cases = list(comp.corpus()) + list(comp.cases(r, tier))
        # implementation side
        impl_outs = comp.impl_many(cases)
        # model side
        model_outs: list[str | None] = [None] * len(cases)
        if driver_ok:
            idx = [i for i, c in enumerate(cases) if comp.model_line(c) is not None]
            lines = [comp.model_line(cases[i]) for i in idx]
            if lines:
                try:
                    outs = core.run_driver(prop, lines)
                    for i, o in zip(idx, outs):
                        model_outs[i] = o
                except Exception as exc:
                    broken.append({"kind": "driver", "what": f"model driver failed on component {comp.name}: {exc}"})
        n_dis = 0
        n_or = 0
        for c, io, mo in zip(cases, impl_outs, model_outs):
            if isinstance(io, str) and io.startswith("HARNESS-EXC TimeoutError"):
                # the harness itself ran out of time (overloaded machine): evaluate the case again on its own; a second
                # timeout is an infrastructure failure (exit 2), never a verdict about the code
                try:
                    io = comp.impl(c)
                except Exception as exc:  # noqa: BLE001
                    io = "HARNESS-EXC " + type(exc).__name__
                if isinstance(io, str) and io.startswith("HARNESS-EXC TimeoutError"):
                    infra.append({"component": comp.name, "case": c})
                    continue
            evaluations += 1
            lab = comp.label(c, io)
            histogram[f"{comp.name}:{lab}"] = histogram.get(f"{comp.name}:{lab}", 0) + 1
            if comp.nontrivial(c, io):
                distinct.add(comp.name + ":" + case_key(c))
            if len(samples) < 6 and evaluations % 7 == 1:
                samples.append({"component": comp.name, "case": c, "impl": io[:300], "model": (mo or "")[:300]})
            failure = None
            try:
                failure = comp.oracle(c, io)
            except Exception as exc:
                failure = "oracle raised " + type(exc).__name__ + ": " + str(exc)[:200]
            if failure:
                n_or += 1
                hit = None
                for fd in findings:
                    if finding_matches(mod, fd, comp.name, c, failure):
                        hit = fd
                        break
                if hit is not None:
                    known_hits.setdefault(hit["id"], hit)
                else:
                    oracle_failures.append({"component": comp.name, "case": c, "impl": io, "what": failure})
            if mo is not None and mo != io:
                n_dis += 1
                # a disagreement on a case covered by a known finding is expected only if the
                # model is of the full-strength behaviour; we still record it.
                disagreements.append({"component": comp.name, "case": c, "impl": io, "model": mo})
        per_component[comp.name] = {"cases": len(cases), "disagreements": n_dis, "oracle_failures": n_or,
                                    "wall_s": round(time.time() - t_comp, 1)}

    # shrink the first few failures / disagreements
    comp_by_name = {c.name: c for c in comps}

    def shrink_oracle(item):
        comp = comp_by_name[item["component"]]

        def still(c):
            o = comp.impl(c)
            f = comp.oracle(c, o)
            # do not let shrinking drift into a case that a listed known finding covers
            return bool(f) and not any(finding_matches(mod, fd, comp.name, c, f) for fd in findings)

        small = shrink_case(comp, item["case"], still)
        if small is not item["case"]:
            o = comp.impl(small)
            item = dict(item, case=small, impl=o, what=comp.oracle(small, o), shrunk_from=item["case"])
        return item

    def shrink_dis(item):
        comp = comp_by_name[item["component"]]

        def still(c):
            line = comp.model_line(c)
            if line is None:
                return False
            return core.run_driver(prop, [line])[0] != comp.impl(c)

        small = shrink_case(comp, item["case"], still, budget=150)
        if small is not item["case"]:
            item = dict(item, case=small, impl=comp.impl(small), model=core.run_driver(prop, [comp.model_line(small)])[0],
                        shrunk_from=item["case"])
        return item

    try:
        oracle_failures = [shrink_oracle(x) for x in oracle_failures[:3]] + oracle_failures[3:]
        if driver_ok:
            disagreements = [shrink_dis(x) for x in disagreements[:3]] + disagreements[3:]
    except Exception:
        traceback.print_exc()

    # ---- verdict ---------------------------------------------------------------------------
    rc = 0
    lines_out = []
    # known findings: witnesses are replayed by the corpus of the component; print every listed one
    if not replay:
        for fd in findings:
            lines_out.append(f"KNOWN-FINDING: property={prop} {fd['id']}: {fd['what']}")
    if oracle_failures:
        item = oracle_failures[0]
        path = core.write_replay(prop, "violation_" + case_key(item["case"])[:10], {
            "kind": "counterexample", "component": item["component"], "case": item["case"],
            "observed": item["impl"], "what": item["what"], "seed": seedv, "tier": tier,
            "shrunk_from": item.get("shrunk_from"),
            "other_failures": len(oracle_failures) - 1,
            "broken_obligations": broken, "model_disagreements": len(disagreements),
        })
        lines_out.append(f"VIOLATION property={prop} replay={path}")
        rc = 1
    elif broken or disagreements:
        payload = {"kind": "broken-obligation", "seed": seedv, "tier": tier,
                   "broken": broken, "theorems": names}
        if disagreements:
            d0 = disagreements[0]
            comp = comp_by_name[d0["component"]]
            payload.update({"correspondence": d0["component"], "backs_theorems": comp.theorems,
                            "component": d0["component"], "case": d0["case"],
                            "impl": d0["impl"], "model": d0["model"],
                            "disagreements": len(disagreements)})
        path = core.write_replay(prop, "obligation", payload)
        lines_out.append(f"VIOLATION property={prop} replay={path} no-failing-input-found")
        rc = 1
    if rc == 0 and infra:
        # nothing wrong was found, but some cases could not be evaluated at all: not a verdict
        print(f"[{prop}] infrastructure failure: {len(infra)} case(s) timed out twice in the harness "
              f"(first: component {infra[0]['component']})", file=sys.stderr)
        return 2

    # ---- evidence --------------------------------------------------------------------------
    ev = {
        "property_id": prop,
        "tier": tier,
        "seed": seedv,
        "level": "proof",
        "coverage": {
            "obligations": max(len(names), 1),
            "discharged": discharged if not broken else min(discharged, max(len(names) - 1, 0)),
            "checker_cmd": "cd lean && lake build " + " ".join(targets) + " && #print axioms on every theorem of Aiortc/Props/%s.lean (harness/core.py:audit)" % prop
                           + (" && lake env leanchecker " + " ".join(targets) if tier == "thorough" else ""),
            "trusted_base": core.TRUSTED_BASE + list(getattr(mod, "TRUSTED_EXTRA", [])),
            "theorems": names,
            "gen_changed": g["changed"],
            "evaluations": evaluations,
            "distinct_nontrivial": len(distinct),
            "rule": getattr(mod, "RULE", "cases generated per component from VERIF_SEED; distinct = distinct canonical case (sha1 of JSON) for which the component's nontrivial() predicate holds"),
            "samples": samples,
            "histogram": histogram,
            "per_component": per_component,
            "disagreements_checked": evaluations,
            "disagreements": len(disagreements),
            "known_findings_hit": sorted(known_hits.keys()),
            "exhaustive": False,
        },
        "assumptions": list(getattr(mod, "ASSUMPTIONS", [])),
        "wall_s": timer.s(),
        "violations": (1 if rc == 1 else 0),
    }
    if not replay:
        core.write_evidence(prop, ev)
    for l in lines_out:
        print(l)
    print(f"[{prop}] tier={tier} seed={seedv} theorems={len(names)} discharged={ev['coverage']['discharged']} "
          f"cases={evaluations} distinct={len(distinct)} disagreements={len(disagreements)} "
          f"oracle_failures={len(oracle_failures)} known={len(known_hits)} wall={timer.s()}s rc={rc}")
    return rc


def main() -> int:
    ap = argparse.ArgumentParser()
    ap.add_argument("prop")
    ap.add_argument("--tier", default=os.environ.get("VERIF_TIER", "quick"), choices=["quick", "thorough"])
    ap.add_argument("--replay")
    a = ap.parse_args()
    try:
        return run(a.prop, a.tier, a.replay)
    except SystemExit:
        raise
    except Exception:
        traceback.print_exc()
        print(f"[{a.prop}] infrastructure failure", file=sys.stderr)
        return 2


if __name__ == "__main__":
    sys.exit(main())
