"""C19 — systematic interleaving explorer on REAL RTCPeerConnection pairs (helper of harness/props/C19.py).

A *scenario* is the script of application calls of a complete session on a pair (offerer = peer 0):
    add media ... createOffer, setLocalDescription(offer) | setRemoteDescription(offer), add media ..., createAnswer,
    setLocalDescription(answer) | setRemoteDescription(answer) | <connected> | transceiver.stop(), createDataChannel, addTrack,
    createOffer, setLocalDescription, setRemoteDescription, createAnswer, setLocalDescription, setRemoteDescription
over a configuration (bundle policy of both peers, media kinds and their creation order, BUNDLE accepted or stripped).
A *case* picks one call of the script: everything before it is awaited in order, the chosen call is started as a task whose
steps are counted (a `collections.abc.Coroutine` wrapper around the coroutine: one `send` = one resumption, i.e. the call has
passed one more suspension point), and once it has passed k suspension points (or finished, if it has fewer) `close()` is issued
- on the same peer, on the other peer, twice on the same peer, on both.  Then everything is left to finish under timeouts and the
property is evaluated on the real objects (public behaviour only; see `judge` in harness/props/C19.py):
close() returned and raised nothing, a further close() returns at once, states closed, channels closed, tracks end, nothing left
running (tasks created since the pair was built, timers, threads, sockets of the process), the interrupted call returned.
The lifecycle trace is recorded as in close_world.py, so the same run is also replayed through the Lean model.
"""
from __future__ import annotations

import asyncio
import collections.abc
import os
import threading
import time

from harness import close_world as cw

POLICIES = ("balanced", "max-compat", "max-bundle")
CLOSERS = ("same", "other", "same2", "both")


class Counted(collections.abc.Coroutine):
    """a coroutine that counts how often it was resumed and calls `hook(steps, finished)` after every step"""

    def __init__(self, coro, hook):
        self.coro = coro
        self.steps = 0
        self.hook = hook
        self.__qualname__ = "explore.call"

    def _after(self, finished):
        self.steps += 1
        self.hook(self.steps, finished)

    def send(self, value):
        try:
            res = self.coro.send(value)
        except BaseException:
            self._after(True)
            raise
        self._after(False)
        return res

    def throw(self, *args):
        try:
            res = self.coro.throw(*args)
        except BaseException:
            self._after(True)
            raise
        self._after(False)
        return res

    def close(self):
        return self.coro.close()

    def __await__(self):
        return self


HISTORIES = ("std", "dir", "reoffer", "abort", "abortclose", "gone", "badfp", "stopped", "stopearly", "sctpinject", "latestun")
INJECTS = ("shutdown", "shutdownack", "shutdowncomplete", "abort", "error", "heartbeat", "reconfig")


def script(cfg):
    """the calls of a session: [peer, op, arg].  `cfg["hist"]` selects the family of session histories:
      std        the plain session (negotiate, connect, transceiver.stop(), more media, a second offer/answer round)
      dir        the answerer restricts the direction of its first transceiver (`cfg["dir"]`: sendonly / inactive / recvonly):
                 receivers that exist, have a track, and are never started although their transport connects
      reoffer    connected, then a follow-up offer adding `cfg["extra"]` is applied by the answerer and not answered
      abort      connected with a data channel, the remote stops its SCTP transport (association aborted, the local connection
                 stays up), then the local application creates things (`cfg["after"]`)
      abortclose the remote closes; the local application re-creates a channel from the `close` handler of its channel
      gone       the remote's sockets die underneath it; the local application creates things (`cfg["after"]`)
      badfp      the answer carries a wrong DTLS fingerprint: the offerer's transport fails with remote tracks present
      stopped    both applications stop their first transceiver after the pair is connected
      stopearly  the offerer stops its first transceiver while ICE / DTLS are still to connect, then the pair connects
      latestun   after ICE completed, an authenticated STUN binding request reaches peer 1 from an address that was never
                 signalled (a fresh UDP socket): aioice learns a peer-reflexive candidate and starts a triggered check
      sctpinject the remote SCTP stack does something aiortc's own never does: through its real SCTP transport it sends
                 `cfg["inj"]` (SHUTDOWN, SHUTDOWN ACK, SHUTDOWN COMPLETE, ABORT, ERROR, HEARTBEAT, a RE-CONFIG resetting all
                 streams) at stage `cfg["stage"]` (`open`: channels open on both sides; `early`: as soon as the injector's own
                 association exists); the local close() follows after `cfg["steps"]` loop steps"""
    h = cfg.get("hist", "std")
    media = cfg["media"]
    calls = [[0, "add", m] for m in media]
    calls += [[0, "createOffer", None], [0, "setLocal", None], [1, "setRemote", None]]
    calls += [[1, "add", m] for m in media if m != "dc"]
    if h == "dir":
        calls.append([1, "setDir", cfg.get("dir", "sendonly")])
    if h == "badfp":
        calls += [[1, "createAnswer", None], [1, "setLocal", None], [0, "setRemoteBadFp", None], [None, "settleAny", None],
                  [0, "nop", None]]
        return calls
    if h == "sctpinject":
        calls += [[1, "createAnswer", None], [1, "setLocal", None], [0, "setRemote", None]]
        if cfg.get("stage", "open") == "open":
            calls += [[None, "settle", None], [1, "add", "dc"], [None, "waitOpen", None]]
        else:
            calls += [[1, "waitAssoc", None]]
        calls += [[1, "inject", cfg.get("inj", "shutdown")], [0, "yield", cfg.get("steps", 0)]]
        return calls
    calls += [[1, "createAnswer", None], [1, "setLocal", None]]
    if h == "stopearly":
        calls.append([0, "trxStop", 0])
    calls += [[0, "setRemote", None], [None, "settle", None]]
    after = []
    for a in cfg.get("after", []):
        after += {"dc": [[0, "add", "dc"]], "audio": [[0, "add", "audio"]], "video": [[0, "add", "video"]],
                  "offer": [[0, "createOffer", None], [0, "setLocal", None]]}[a]
    if h == "std":
        if any(m != "dc" for m in media):
            calls.append([0, "trxStop", 0])
        calls += [[0, "add", "dc"], [0, "add", "audio"], [0, "createOffer", None], [0, "setLocal", None], [1, "setRemote", None],
                  [1, "createAnswer", None], [1, "setLocal", None], [0, "setRemote", None]]
    elif h == "dir":
        calls.append([0, "nop", None])
    elif h == "reoffer":
        calls += [[0, "add", cfg.get("extra", "video")], [0, "createOffer", None], [0, "setLocal", None], [1, "setRemote", None]]
    elif h == "abort":
        calls += [[1, "sctpStop", None], [0, "waitClosed", None]] + (after or [[0, "add", "dc"]])
    elif h == "abortclose":
        calls += [[0, "onCloseAddDc", None], [1, "close", None]]
    elif h == "gone":
        calls += [[1, "killSockets", None]] + (after or [[0, "add", "dc"]])
    elif h == "latestun":
        calls += [[1, "stunProbe", None], [1, "yield", cfg.get("steps", 0)]]
    elif h == "stopearly":
        calls.append([0, "nop", None])
    elif h == "stopped":
        calls += [[0, "trxStop", 0], [1, "trxStop", 0], [0, "nop", None]]
    return calls


def opname(call):
    return call[1] + (":" + str(call[2]) if call[1] == "add" else "")


def resolve(calls, desc):
    """index of the nth call `op` of `peer` in the script (None if the configuration has no such call)"""
    peer, op, nth = desc
    n = 0
    for i, c in enumerate(calls):
        if c[0] == peer and opname(c) == op:
            if n == nth:
                return i
            n += 1
    return None


def all_calls(cfg):
    """descriptors [peer, op, nth] of every call of the script of a configuration"""
    seen = {}
    out = []
    for c in script(cfg):
        if c[1] in ("settle", "settleAny", "waitClosed", "onCloseAddDc", "killSockets", "sctpStop", "setDir", "waitOpen", "waitAssoc", "stunProbe"):
            continue
        key = (c[0], opname(c))
        out.append([c[0], opname(c), seen.get(key, 0)])
        seen[key] = seen.get(key, 0) + 1
    return out


class Session:
    def __init__(self, world, cfg):
        self.world = world
        self.cfg = cfg
        self.last = [None, None]      # last description created by the peer

    def setup(self):
        from aiortc import RTCBundlePolicy, RTCConfiguration, RTCPeerConnection
        pol = {"balanced": RTCBundlePolicy.BALANCED, "max-compat": RTCBundlePolicy.MAX_COMPAT,
               "max-bundle": RTCBundlePolicy.MAX_BUNDLE}[self.cfg["policy"]]
        for p in (0, 1):
            pc = RTCPeerConnection(RTCConfiguration(iceServers=[], bundlePolicy=pol))
            self.world.pcs.append(pc)
            self.world.sync(p)
            cw._listen(self.world, p)
            pc.on("track", lambda track, p=p: self.consume(p, track))

    async def inject(self, pc, kind):
        """the remote SCTP stack does something aiortc's own never does.  The seam is the remote transport's own chunk sender
        (`RTCSctpTransport._send_chunk`) and the chunk classes of the module; if any of it is missing this raises, the case is
        void (skipped) - never a verdict"""
        import aiortc.rtcsctptransport as m
        sctp = pc.sctp
        send = sctp._send_chunk
        if kind == "shutdown":
            ch = m.ShutdownChunk()
            ch.cumulative_tsn = sctp._last_received_tsn
        elif kind == "shutdownack":
            ch = m.ShutdownAckChunk()
        elif kind == "shutdowncomplete":
            ch = m.ShutdownCompleteChunk()
        elif kind == "abort":
            ch = m.AbortChunk()
        elif kind == "error":
            ch = m.ErrorChunk()
            ch.params = [(1, b"\x00\x01\x00\x00")]
        elif kind == "heartbeat":
            ch = m.HeartbeatChunk()
            ch.params = [(1, b"c19-heartbeat")]
        elif kind == "reconfig":
            ch = m.ReconfigChunk()
            param = m.StreamResetOutgoingParam(request_sequence=sctp._reconfig_request_seq,
                                               response_sequence=sctp._reconfig_response_seq,
                                               last_tsn=m.tsn_minus_one(sctp._local_tsn), streams=[])
            ch.params = [(13, bytes(param))]
        else:
            raise RuntimeError("unknown injection " + kind)
        await send(ch)

    async def stun_probe(self, pc, other):
        """a STUN binding request with the right credentials from a socket nobody signalled (public API only: the gatherer's
        local parameters / candidates; aioice.stun builds the message)"""
        import random
        import socket

        from aioice import stun
        trs = pc.getTransceivers()
        otrs = other.getTransceivers()
        ice = (pc.sctp.transport if pc.sctp is not None else trs[0].receiver.transport).transport
        oice = (other.sctp.transport if other.sctp is not None else otrs[0].receiver.transport).transport
        mine, theirs = ice.iceGatherer.getLocalParameters(), oice.iceGatherer.getLocalParameters()
        target = next(c for c in ice.iceGatherer.getLocalCandidates() if c.type == "host" and ":" not in c.ip)
        sock = socket.socket(socket.AF_INET, socket.SOCK_DGRAM)
        sock.setblocking(False)
        try:
            sock.bind((target.ip, 0))
            req = stun.Message(message_method=stun.Method.BINDING, message_class=stun.Class.REQUEST)
            req.attributes["USERNAME"] = "%s:%s" % (mine.usernameFragment, theirs.usernameFragment)
            req.attributes["PRIORITY"] = 1845501695
            req.attributes["ICE-CONTROLLING" if ice.role == "controlled" else "ICE-CONTROLLED"] = random.getrandbits(64)
            req.add_message_integrity(mine.password.encode("utf8"))
            sock.sendto(bytes(req), (target.ip, target.port))
            # wait until the connection has answered (and, with that, started its triggered check)
            t0 = time.monotonic()
            while time.monotonic() - t0 < 1.5:
                try:
                    sock.recvfrom(2048)
                    break
                except BlockingIOError:
                    await asyncio.sleep(0.005)
        finally:
            sock.close()

    def consume(self, p, track):
        """what an application does with a received track: a consumer blocked in `await track.recv()` (a MediaBlackhole);
        it has to be released when the connection closes"""
        if track not in self.world.obtained_tracks[p]:
            self.world.obtained_tracks[p].append(track)
            self.world.consumers[p].append(asyncio.ensure_future(cw._drain(track)))

    async def call(self, peer, op, arg):
        from aiortc.mediastreams import AudioStreamTrack
        w = self.world
        pc = w.pcs[peer] if peer is not None else None
        other = w.pcs[1 - peer] if peer is not None else None
        bundle = self.cfg.get("bundle", True)
        if op == "add":
            if arg == "dc":
                ch = pc.createDataChannel("x%d" % len(w.peers[peer].chans))
                w.sync(peer)
                w.add_channel(peer, ch)
            else:
                pc.addTrack(AudioStreamTrack() if arg == "audio" else cw._small_video_track())
                w.sync(peer)
        elif op == "createOffer":
            self.last[peer] = await pc.createOffer()
        elif op == "createAnswer":
            self.last[peer] = await pc.createAnswer()
        elif op == "setLocal":
            await pc.setLocalDescription(self.last[peer])
        elif op == "setRemote":
            d = other.localDescription
            await pc.setRemoteDescription(cw._desc(d, bundle))
        elif op == "trxStop":
            await pc.getTransceivers()[arg].stop()
        elif op == "nop":
            pass
        elif op == "yield":
            for _ in range(arg):
                await asyncio.sleep(0)
        elif op == "waitOpen":
            t0 = time.monotonic()
            while time.monotonic() - t0 < 3.0:
                if all(ch.readyState == "open" for P in w.peers for ch in P.chans) and all(P.chans for P in w.peers):
                    break
                await asyncio.sleep(0.01)
        elif op == "waitAssoc":
            t0 = time.monotonic()
            while time.monotonic() - t0 < 3.0 and pc.sctp.state != "connected":
                await asyncio.sleep(0.002)
        elif op == "inject":
            await self.inject(pc, arg)
        elif op == "stunProbe":
            await self.stun_probe(pc, other)
        elif op == "setDir":
            pc.getTransceivers()[0].direction = arg
        elif op == "setRemoteBadFp":
            import re
            from aiortc import RTCSessionDescription
            d = cw._desc(other.localDescription, bundle)
            sdp = re.sub(r"(a=fingerprint:sha-256 )([0-9A-F]{2})", lambda m: m.group(1) + ("00" if m.group(2) != "00" else "11"),
                         d.sdp)
            await pc.setRemoteDescription(RTCSessionDescription(sdp=sdp, type=d.type))
        elif op == "sctpStop":
            await pc.sctp.stop()
        elif op == "waitClosed":
            t0 = time.monotonic()
            while time.monotonic() - t0 < 2.0 and any(ch.readyState != "closed" for ch in w.peers[peer].chans):
                await asyncio.sleep(0.01)
        elif op == "onCloseAddDc":
            def again(peer=peer, pc=pc):
                if pc.signalingState != "closed":
                    ch = pc.createDataChannel("retry")
                    w.sync(peer)
                    w.add_channel(peer, ch)
            if w.peers[peer].chans:
                # (an `async def` handler, as applications write them: it runs as a task of its own, a moment later)
                w.peers[peer].chans[0].on("close", lambda: asyncio.get_running_loop().call_soon(again))
        elif op == "close":
            await cw._do_close(w, peer, "r")
        elif op == "killSockets":
            for ice in list(getattr(pc, "_RTCPeerConnection__iceTransports")):
                for proto in list(ice._connection._protocols):
                    if proto.transport is not None:
                        proto.transport.abort()
            await asyncio.sleep(0.05)
        elif op == "settleAny":
            t0 = time.monotonic()
            while time.monotonic() - t0 < 3.0:
                if all(x.connectionState in ("connected", "failed", "closed") for x in w.pcs):
                    break
                await asyncio.sleep(0.01)
            await asyncio.sleep(0.05)
        elif op == "settle":
            t0 = time.monotonic()
            while time.monotonic() - t0 < 3.0:
                if all(x.connectionState == "connected" for x in w.pcs):
                    break
                await asyncio.sleep(0.01)
            await asyncio.sleep(0.05)
        else:
            raise RuntimeError("unknown op " + op)


def _socket_fds():
    n = 0
    try:
        for fd in os.listdir("/proc/self/fd"):
            try:
                if os.readlink("/proc/self/fd/" + fd).startswith("socket:"):
                    n += 1
            except OSError:
                pass
    except OSError:
        return -1
    return n


async def _main(world, case):
    loop = asyncio.get_running_loop()
    world.loop = loop
    loop.set_exception_handler(lambda l, c: None)
    loop.set_task_factory(world.task_factory)
    world.install_wrappers()
    world.close_timeout = 5.0
    cfg = {"policy": case["policy"], "media": case["media"], "bundle": case.get("bundle", True)}
    for key in ("hist", "dir", "extra", "after", "inj", "stage", "steps"):
        if key in case:
            cfg[key] = case[key]
    world.obtained_tracks = [[], []]
    world.consumers = [[], []]
    calls = script(cfg)
    j = resolve(calls, case["call"])
    out = {"void": None, "steps": 0, "fired": None, "call_exc": None}
    if j is None:
        out["void"] = "no such call"
        return out, []
    base_tasks = set(asyncio.all_tasks(loop))
    base_threads = set(threading.enumerate())
    base_socks = _socket_fds()
    ses = Session(world, cfg)
    ses.setup()
    T0 = time.monotonic()
    dbg = (lambda m: print('   [%.3f] %s' % (time.monotonic() - T0, m))) if os.environ.get('C19_DEBUG') else (lambda m: None)
    # ---- prefix: awaited in order --------------------------------------------------------------------
    for (peer, op, arg) in calls[:j]:
        try:
            await asyncio.wait_for(ses.call(peer, op, arg), 8.0)
        except Exception as exc:  # noqa: BLE001 - the prefix must work for the case to mean anything
            out["void"] = f"prefix call {op} on peer {peer} raised {type(exc).__name__}"
            break
    peer, op, arg = calls[j]
    mine = set()
    if out["void"] is None:
        # ---- the racing call, and close() after it has passed k suspension points -------------------------
        k = case["k"]
        closer = case["closer"]
        targets = {"same": [(peer, "single")], "other": [(1 - peer, "single")], "same2": [(peer, "twice")],
                   "both": [(peer, "single"), (1 - peer, "single")]}[closer]
        fired = []

        def fire():
            for (p, mode) in targets:
                if mode == "single":
                    mine.add(asyncio.ensure_future(cw._do_close(world, p, "a")))
                else:
                    async def twice(p=p):
                        t = asyncio.ensure_future(cw._do_close(world, p, "a"))
                        mine.add(t)
                        await asyncio.sleep(0)
                        await cw._do_close(world, p, "b")
                        await t
                    mine.add(asyncio.ensure_future(twice()))

        def hook(steps, finished):
            out["steps"] = steps
            if not fired and (finished or steps >= k + 1):
                fired.append(steps)
                out["fired"] = [steps, bool(finished)]
                loop.call_soon(fire)
        loop.counting = True
        task = asyncio.ensure_future(Counted(ses.call(peer, op, arg), hook))
        mine.add(task)
        try:
            await asyncio.wait_for(asyncio.shield(task), 6.0)
        except asyncio.TimeoutError:
            world.notes.append(f"the interrupted call {op} on peer {peer} never returned")
            task.cancel()
        except Exception as exc:  # noqa: BLE001
            out["call_exc"] = type(exc).__name__
        dbg('call returned')
        # let the closers finish
        t0 = time.monotonic()
        while time.monotonic() - t0 < world.close_timeout + 2:
            pend = [t for t in mine if not t.done()]
            if not pend and fired:
                break
            await asyncio.sleep(0.005)
        world.iter_total = loop.iteration
        loop.counting = False
    dbg('closers finished')
    # ---- the side(s) the case did not close are closed now; both connections end closed, both are judged ----
    for p in (0, 1):
        if not world.peers[p].close_returned and not any(r["peer"] == p for r in world.close_results):
            await cw._do_close(world, p, "h")
    dbg('all closed')
    await asyncio.sleep(case.get("grace_ms", 60) / 1000.0)
    final = []
    for p in (0, 1):
        P = world.peers[p]
        snap = cw._snapshot(world, p)
        snap["timers"] = cw._timers(world, p)
        snap["returned"] = P.close_returned
        world.sync(p)
        # EVERY track the application ever obtained (the `track` events) or can obtain (receiver.track of every transceiver,
        # started or not): a consumer pending in recv() is released, the track is "ended"
        ended = []
        pending = []
        for tr, cons in zip(world.obtained_tracks[p], world.consumers[p]):
            try:
                await asyncio.wait_for(asyncio.shield(cons), 1.0)
            except asyncio.TimeoutError:
                pending.append(tr)
                cons.cancel()
            except Exception:  # noqa: BLE001
                pending.append(tr)
        for t in world.pcs[p].getTransceivers():
            tr = t.receiver.track
            if tr is None:
                continue
            if tr in world.obtained_tracks[p] and tr not in pending:
                ended.append(tr.readyState == "ended")
                continue
            try:
                await asyncio.wait_for(cw._drain(tr), 1.0)
                ended.append(tr.readyState == "ended")
            except asyncio.TimeoutError:
                ended.append(False)
        snap["pending_recv"] = [tr.kind for tr in pending]
        snap["tracks_ended"] = ended
        snap["events_after_close"] = list(P.events_after_close)
        snap["listeners_at_return"] = P.lis_at_return
        final.append(snap)
    dbg('drained')
    world.recording = False
    # ---- a further close() is a no-op: returns at once, whatever happened before ---------------------------
    for p in (0, 1):
        before = (cw.pc_state(world.pcs[p]), len(world.peers[p].events_after_close), len(world.tasks), len(world.foreign))
        it0 = loop.iteration
        loop.counting = True
        try:
            await asyncio.wait_for(world.pcs[p].close(), 1.5)
            final[p]["reclose"] = "ok"
        except asyncio.TimeoutError:
            final[p]["reclose"] = "timeout"
        except asyncio.CancelledError:
            if asyncio.current_task().cancelling():
                raise
            final[p]["reclose"] = "timeout"     # the close future is in the cancelled state: see close_world._do_close
        except Exception as exc:  # noqa: BLE001
            final[p]["reclose"] = type(exc).__name__
        loop.counting = False
        after = (cw.pc_state(world.pcs[p]), len(world.peers[p].events_after_close), len(world.tasks), len(world.foreign))
        final[p]["reclose_changed"] = before != after
        final[p]["reclose_iters"] = loop.iteration - it0
    dbg('reclosed')
    # ---- nothing left running, judged without any name of the implementation -----------------------------
    await asyncio.sleep(0.02)
    cur = asyncio.current_task()
    left = [t for t in asyncio.all_tasks(loop) if t not in base_tasks and t is not cur and not t.done() and t not in mine]
    out["left_tasks"] = sorted((getattr(t, "c19", None) or {}).get("name") or getattr(t.get_coro(), "__qualname__", "?")
                               for t in left)
    out["left_threads"] = sorted(th.name for th in threading.enumerate()
                                 if th not in base_threads and th.is_alive() and not th.name.startswith("asyncio_"))
    out["left_timers"] = sorted(set(final[0]["timers"] + final[1]["timers"]))
    socks = _socket_fds()
    out["left_sockets"] = max(0, socks - base_socks) if base_socks >= 0 else 0
    return out, final


def run_explore(case):
    import logging
    logging.disable(logging.CRITICAL)
    world = cw.World(case)
    t_start = time.monotonic()
    loop = cw.CountingLoop()
    asyncio.set_event_loop(loop)
    try:
        out, final = loop.run_until_complete(asyncio.wait_for(_main(world, case), 60))
    finally:
        world.recording = False
        try:
            pend = [t for t in asyncio.all_tasks(loop) if not t.done()]
            for t in pend:
                t.cancel()
            if pend:
                loop.run_until_complete(asyncio.wait(pend, timeout=2))
        except Exception:  # noqa: BLE001
            pass
        asyncio.set_event_loop(None)
        loop.close()
        cw.release_threads()
    res = {"trace": [world.peers[0].trace, world.peers[1].trace], "closes": world.close_results, "final": final,
           "summary": [cw.summary(world, p, final[p]) for p in (0, 1)] if final else ["void", "void"],
           "iters": world.iter_total, "notes": world.notes, "secs": round(time.monotonic() - t_start, 2),
           "foreign": sorted(set(qn for (t, qn) in world.foreign if not t.done())), "broken": world.broken}
    res.update(out)
    res["case_call"] = case["call"]
    return res
