"""C19 — running REAL RTCPeerConnection pairs and closing them at chosen instants.

Everything here runs inside one (pool) process per case.  No source hooks: the instrumentation is
  * a subclass of the selector event loop that counts loop iterations (one iteration = one `_run_once`, i.e. one batch of
    ready callbacks; the loop blocks in select() until something is ready, so iterations are the await boundaries that
    actually occur) and fires the case's triggers at the requested iteration numbers,
  * a task factory that sees every asyncio task created on the loop (coroutine qualified name + the `self` it is bound
    to), wraps the coroutine to see its first step, and returns a Task subclass that records `cancel()` calls,
  * wrappers around the public start / stop / close / setLocalDescription / setRemoteDescription coroutines of the aiortc
    classes and around `aioice.Connection.close` (class attributes replaced in this process only),
  * event listeners registered through the public `on(...)` API.

Every recorded lifecycle event becomes one token of the line protocol of lean/Aiortc/Drv/Close.lean (an action of the Lean
task-system model).  The result of a run: per peer the token trace, and the facts the ORACLE needs (close() returned, public
states, channel states, tracks ended, events after close, tasks / threads / timers left).
"""
from __future__ import annotations

import asyncio
import sys
import threading
import time

CLOSE_TIMEOUT = 10.0        # generous: a close() that takes longer is reported as "did not complete"
RUN_TIMEOUT = 50.0

# coroutine qualified names of the tasks the connection and the objects it owns create
TASK_KINDS = {
    "RTCPeerConnection.__connect": "connect",
    "RTCPeerConnection.close": "autoclose",
    "RTCRtpSender._run_rtp": "rtp",
    "RTCRtpSender._run_rtcp": "srtcp",
    "RTCRtpReceiver._run_rtcp": "rrtcp",
    "RTCDtlsTransport.__run": "pump",
    "RTCIceTransport._monitor": "monitor",
    "Connection.query_consent": "consent",
    "Connection.check_start": "icecheck",
    "Connection.connect": "iceconnect",
    "RTCSctpTransport._data_channel_flush": "sctpaux",
    "RTCSctpTransport._send_chunk": "sctpaux",
    "RTCSctpTransport._transmit": "sctpaux",
    "RTCSctpTransport._transmit_reconfig": "sctpaux",
    "RTCSctpTransport._send_reconfig_param": "sctpaux",
}
MODELLED = ("connect", "autoclose", "rtp", "srtcp", "rrtcp", "pump", "monitor")
WHICH = {"rtp": "p", "srtcp": "s", "rrtcp": "r"}
CHAN = {"connecting": "c", "open": "o", "closing": "g", "closed": "x"}
CHAN_RANK = {"c": 3, "o": 2, "g": 1, "x": 0}


class CountingLoop(asyncio.SelectorEventLoop):
    """selector loop that counts iterations and runs triggers at given iteration numbers"""

    def __init__(self):
        super().__init__()
        self.iteration = 0
        self.counting = False
        self.triggers = {}          # iteration -> [callable]

    def _run_once(self):
        super()._run_once()
        if self.counting:
            self.iteration += 1
            for fn in self.triggers.pop(self.iteration, ()):
                fn()


def in_close():
    """is the current call chain inside RTCPeerConnection.close()?  (receiver / sender stop() may also be called by the
    application through RTCRtpTransceiver.stop())"""
    f = sys._getframe(1)
    while f is not None:
        if f.f_code.co_name == "close" and f.f_code.co_filename.endswith("rtcpeerconnection.py"):
            return True
        f = f.f_back
    return False


class RecTask(asyncio.Task):
    """a Task that reports cancel() calls"""
    c19 = None

    def cancel(self, msg=None):
        info = self.c19
        # (asyncio.wait_for / asyncio.timeout cancel the *current* task on expiry and turn that into TimeoutError - the DTLS
        # retransmission timer inside a __connect task does this; it is not a cancellation of the task by anybody)
        if info is not None and info["world"].recording and sys._getframe(1).f_code.co_name != "_on_timeout":
            info["world"].on_cancel(info)
        return super().cancel(msg)


class Peer:
    def __init__(self):
        self.tpts = []          # dtls transports in order of discovery
        self.discarded = set()
        self.trx_tpt = []       # transport index per transceiver
        self.sctp_tpt = None
        self.tracked = set()    # transceivers whose remote track exists
        self.trace = []         # tokens
        self.n_conn = 0
        self.chans = []         # channels in order of `cn`
        self.chan_last = []     # last emitted state letter per channel
        self.sctp_started = False
        self.dec_threads = {}   # trx index -> Thread
        self.dec_reported = set()
        self.close_entered = False
        self.close_returned = False
        self.primary_ret = False
        self.lis_at_return = None
        self.ice_in_close = set()
        self.ice_in_nstop = set()
        self.events_after_close = []


class World:
    def __init__(self, case):
        self.case = case
        self.loop = None
        self.pcs = []
        self.peers = [Peer(), Peer()]
        self.owner = {}             # id(object) -> (peer, role, index)
        self.keep = []              # keeps the owned objects alive so that ids stay unique
        self.tasks = []             # info dicts of every attributed task
        self.foreign = []           # tasks of aiortc/aioice code that could not be attributed to a peer
        self.close_results = []
        self.iter_total = 0
        self.notes = []
        self.recording = True
        self.close_timeout = CLOSE_TIMEOUT
        self.obtained_tracks = [[], []]
        self.consumers = [[], []]
        self.broken = None          # an internal the instrumentation relies on is missing: broken correspondence, no verdict

    # ---- object graph -> model configuration -------------------------------------------------------
    def own(self, obj, peer, role, idx=None):
        if id(obj) not in self.owner:
            self.owner[id(obj)] = (peer, role, idx)
            self.keep.append(obj)

    def sync(self, p):
        """emit the configuration changes of connection p since the last event (new transports / transceivers / SCTP
        transport, BUNDLE re-assignments and discards, remote tracks, decoder threads that ended on their own)"""
        if p >= len(self.pcs) or self.broken:
            return
        try:
            self._sync(p)
        except AttributeError as exc:
            # the object graph is read through a few internals (`__dtlsTransports`, `_connection`): without them there is no
            # trace to compare - a broken correspondence, never a verdict about the connection
            self.broken = "instrumentation: " + str(exc)[:120]

    def _sync(self, p):
        pc = self.pcs[p]
        P = self.peers[p]
        out = P.trace.append
        self.own(pc, p, "pc")
        trs = pc.getTransceivers()
        sctp = pc.sctp
        dset = getattr(pc, "_RTCPeerConnection__dtlsTransports")
        cands = [t.receiver.transport for t in trs] + ([sctp.transport] if sctp is not None else [])
        cands += [d for d in dset if id(d) not in self.owner]
        for d in cands:
            if id(d) in self.owner:
                continue
            k = len(P.tpts)
            P.tpts.append(d)
            self.own(d, p, "dtls", k)
            self.own(d.transport, p, "ice", k)
            self.own(d.transport._connection, p, "icec", k)
            out("at")
        for i, t in enumerate(trs):
            k = self.owner[id(t.receiver.transport)][2]
            if i >= len(P.trx_tpt):
                P.trx_tpt.append(k)
                self.own(t, p, "trx", i)
                self.own(t.sender, p, "snd", i)
                self.own(t.receiver, p, "rcv", i)
                out(f"ax:{k}")
            elif P.trx_tpt[i] != k:
                P.trx_tpt[i] = k
                out(f"x:{i}:as:{k}")
            if i not in P.tracked and t.receiver.track is not None:
                P.tracked.add(i)
                out(f"x:{i}:mt")
        if sctp is not None:
            k = self.owner[id(sctp.transport)][2]
            if P.sctp_tpt is None:
                self.own(sctp, p, "sctp")
                out(f"as:{k}")
            elif P.sctp_tpt != k:
                out(f"ys:{k}")
            P.sctp_tpt = k
        for k, d in enumerate(P.tpts):
            if k not in P.discarded and d not in dset:
                P.discarded.add(k)
                out(f"t:{k}:ns")
        for i, th in P.dec_threads.items():
            if i not in P.dec_reported and not th.is_alive():
                P.dec_reported.add(i)
                out(f"x:{i}:ds")

    def tok(self, p, token):
        if not self.recording:
            return
        self.sync(p)
        self.peers[p].trace.append(token)

    def who(self, obj):
        got = self.owner.get(id(obj))
        if got is None:
            for p in range(len(self.pcs)):
                self.sync(p)
            got = self.owner.get(id(obj))
        return got

    # ---- tasks ---------------------------------------------------------------------------------------
    def task_factory(self, loop, coro, **kwargs):
        qn = getattr(coro, "__qualname__", "")
        kind = TASK_KINDS.get(qn)
        if kind is None:
            mod = getattr(getattr(coro, "cr_code", None), "co_filename", "")
            task = asyncio.Task(coro, loop=loop, **kwargs)
            if ("/aiortc/" in mod or "/aioice/" in mod) and "/harness/" not in mod:
                self.foreign.append((task, qn))
            return task
        frame = getattr(coro, "cr_frame", None)
        slf = frame.f_locals.get("self") if frame is not None else None
        got = self.who(slf) if slf is not None else None
        if got is None:
            task = asyncio.Task(coro, loop=loop, **kwargs)
            self.foreign.append((task, qn))
            return task
        peer, _role, idx = got
        info = {"world": self, "peer": peer, "kind": kind, "idx": idx, "first": False, "name": f"{kind}:{idx}"}
        if kind == "connect":
            info["idx"] = self.peers[peer].n_conn
            self.peers[peer].n_conn += 1
        if kind not in MODELLED or not self.recording:
            task = RecTask(coro, loop=loop, **kwargs)
            info["task"] = task
            self.tasks.append(info)
            return task

        async def traced():
            # first step and end of the coroutine are recorded synchronously (a done-callback would come one loop
            # iteration late, after the waiters of the task's `exited` event have run)
            info["first"] = True
            self.on_first(info)
            try:
                res = await coro
            except asyncio.CancelledError:
                self.on_exit(info, "cancelled")
                raise
            except BaseException:
                self.on_exit(info, "exc")
                raise
            self.on_exit(info, "ok")
            return res
        task = RecTask(traced(), loop=loop, **kwargs)
        task.c19 = info
        info["task"] = task
        info["coro"] = coro
        self.tasks.append(info)
        self.on_spawn(info)

        def never_ran(t):
            if not info["first"]:
                try:
                    coro.close()
                except Exception:  # noqa: BLE001
                    pass
                self.on_exit(info, "cancelled")
        task.add_done_callback(never_ran)
        return task

    def on_spawn(self, info):
        p, kind, i = info["peer"], info["kind"], info["idx"]
        P = self.peers[p]
        if kind == "connect":
            self.tok(p, "ns")
        elif kind == "rtp":
            self.tok(p, f"x:{i}:ss")
        elif kind == "rrtcp":
            # receive() started the decoder thread just before: find it (its queue argument is the receiver's)
            rcv = self.pcs[p].getTransceivers()[i].receiver
            q = getattr(rcv, "_RTCRtpReceiver__decoder_queue")
            for th in threading.enumerate():
                if th.name.endswith("-decoder") and len(getattr(th, "_args", None) or ()) > 1 and th._args[1] is q:
                    P.dec_threads[i] = th
            self.tok(p, f"x:{i}:rs")
        elif kind == "pump":
            self.tok(p, f"t:{i}:du")
        # srtcp: spawned together with rtp (`x:i:ss`); monitor: together with `t:k:is`

    def on_first(self, info):
        p, kind, i = info["peer"], info["kind"], info["idx"]
        if kind == "connect":
            self.tok(p, f"kf:{i}")
        elif kind in WHICH:
            self.tok(p, f"x:{i}:f:{WHICH[kind]}")
        elif kind == "monitor":
            self.tok(p, f"t:{i}:mf")
        elif kind == "autoclose":
            # (spawned from inside the pump's last step, i.e. before the pump is seen to exit: reported here)
            self.tok(p, "oa")

    def on_cancel(self, info):
        p, kind, i = info["peer"], info["kind"], info["idx"]
        if kind in WHICH and not in_close():
            # cancelled by a stop() the application called (RTCRtpTransceiver.stop()): an input of the model
            self.tok(p, f"x:{i}:c:{WHICH[kind]}")
        elif kind == "connect":
            self.tok(p, f"oc:{i}")
        elif kind == "rtp":
            self.tok(p, f"c:cp:{i}")
        elif kind == "srtcp":
            self.tok(p, f"c:cs:{i}")
        elif kind == "rrtcp":
            self.tok(p, f"c:cr:{i}")
        elif kind == "pump":
            self.tok(p, f"c:cu:{i}")
        elif kind == "monitor":
            self.tok(p, f"t:{i}:cancelled-monitor")
        # autoclose: never cancelled by the connection

    def on_exit(self, info, how):
        p, kind, i = info["peer"], info["kind"], info["idx"]
        if kind == "connect":
            self.tok(p, f"ke:{i}")
        elif kind in WHICH:
            w = WHICH[kind]
            if not info["first"]:
                self.tok(p, f"x:{i}:f:{w}")     # cancelled before its first step: the model sends it to `dead`
            # a _run_* task that ends in any other way than by returning has not set its `exited` event
            self.tok(p, f"x:{i}:e:{w}" if how == "ok" else f"x:{i}:{how}:{w}")
        elif kind == "pump":
            self.tok(p, f"t:{i}:pe")
        elif kind == "monitor":
            self.tok(p, f"t:{i}:me" if how == "ok" else f"t:{i}:{how}-monitor")

    # ---- wrappers ---------------------------------------------------------------------------------
    def install_wrappers(self):
        import aioice.ice
        from aiortc import rtcrtpsender, rtcrtpreceiver, rtcdtlstransport, rtcicetransport, rtcsctptransport, rtcpeerconnection
        world = self

        def wrap(cls, meth, on_enter, on_leave):
            orig = getattr(cls, meth)
            if getattr(orig, "_c19_wrapped", False):
                orig = orig._c19_orig

            async def wrapper(self, *a, **kw):
                got = world.who(self) if world.recording else None
                if got is None:
                    return await orig(self, *a, **kw)
                caller = sys._getframe(1).f_code.co_name
                ctx = on_enter(got[0], got[2], self, caller)
                try:
                    res = await orig(self, *a, **kw)
                except BaseException as exc:  # noqa: BLE001
                    on_leave(got[0], got[2], self, ctx, exc)
                    raise
                on_leave(got[0], got[2], self, ctx, None)
                return res
            wrapper._c19_wrapped = True
            wrapper._c19_orig = orig
            wrapper.__qualname__ = orig.__qualname__
            wrapper.__name__ = orig.__name__
            setattr(cls, meth, wrapper)

        # close()
        def close_enter(p, _i, pc, _caller):
            P = world.peers[p]
            cur = asyncio.current_task()
            info = getattr(cur, "c19", None)
            by_auto = info is not None and info["kind"] == "autoclose"
            primary = pc.signalingState != "closed" and not P.close_entered
            P.close_entered = True
            world.tok(p, "cca" if by_auto else "cc")
            return primary

        def close_leave(p, _i, pc, primary, exc):
            P = world.peers[p]
            if exc is not None:
                world.tok(p, "close-raised-" + type(exc).__name__)
                return
            if primary:
                P.primary_ret = True
                P.lis_at_return = _listeners(pc)
            world.tok(p, "c:lx" if primary else "wr")
        wrap(rtcpeerconnection.RTCPeerConnection, "close", close_enter, close_leave)

        # negotiation calls
        def neg_enter(p, _i, pc, _caller):
            if pc.signalingState == "closed":
                return False
            world.tok(p, "nb")
            return True

        def neg_leave(p, _i, pc, began, exc):
            if began:
                world.tok(p, "ne")
        wrap(rtcpeerconnection.RTCPeerConnection, "setLocalDescription", neg_enter, neg_leave)
        wrap(rtcpeerconnection.RTCPeerConnection, "setRemoteDescription", neg_enter, neg_leave)

        # stop() of the owned objects
        def stopper(enter_tok, leave_tok, only_from_close):
            def on_enter(p, i, obj, caller):
                P = world.peers[p]
                if only_from_close and caller != "close":
                    if caller == "setRemoteDescription":
                        # BUNDLE clean-up of setRemoteDescription: it stops the transport it is about to discard
                        if enter_tok == "c:ei":
                            if obj.state == "closed":
                                return False
                            P.ice_in_nstop.add(i)
                        world.tok(p, f"t:{i}:ns")
                    return False
                if not only_from_close and not in_close():
                    return False        # RTCRtpTransceiver.stop() called by the application: see on_cancel
                if enter_tok == "c:ei":
                    P.ice_in_close.add(i)
                world.tok(p, f"{enter_tok}:{i}" if i is not None else enter_tok)
                if enter_tok == "c:er":
                    P.dec_reported.add(i)      # receiver.stop() joins the decoder thread itself
                return True

            def on_leave(p, i, obj, ctx, exc):
                if enter_tok == "c:ei":
                    world.peers[p].ice_in_nstop.discard(i)
                if not ctx:
                    return
                if enter_tok == "c:ei":
                    world.peers[p].ice_in_close.discard(i)
                if exc is not None:
                    world.tok(p, f"stop-raised-{type(exc).__name__}")
                    return
                world.tok(p, f"{leave_tok}:{i}" if i is not None else leave_tok)
            return on_enter, on_leave
        wrap(rtcrtpreceiver.RTCRtpReceiver, "stop", *stopper("c:er", "c:lr", False))
        wrap(rtcrtpsender.RTCRtpSender, "stop", *stopper("c:es", "c:ls", False))
        wrap(rtcsctptransport.RTCSctpTransport, "stop", *stopper("c:ec", "c:lc", False))
        wrap(rtcdtlstransport.RTCDtlsTransport, "stop", *stopper("c:ed", "c:ld", True))
        wrap(rtcicetransport.RTCIceTransport, "stop", *stopper("c:ei", "c:li", True))

        # aioice connection closed by RTCIceTransport.stop() (inside close())
        def cc_enter(p, k, conn, caller):
            if caller == "stop" and k in world.peers[p].ice_in_nstop:
                return "n"
            return caller == "stop" and k in world.peers[p].ice_in_close

        def cc_leave(p, k, conn, ctx, exc):
            if ctx == "n":
                if exc is None:
                    world.tok(p, f"t:{k}:ns")
            elif ctx and exc is None:
                world.tok(p, f"c:ck:{k}")
        wrap(aioice.ice.Connection, "close", cc_enter, cc_leave)

        # start() of the owned objects (only ever called by a __connect task)
        def ice_enter(p, k, ice, _caller):
            if ice.state != "new":
                return False
            world.tok(p, f"t:{k}:is")
            return True

        def ice_leave(p, k, ice, began, exc):
            if began and exc is None and ice.state in ("completed", "failed"):
                world.tok(p, f"t:{k}:id:{1 if ice.state == 'completed' else 0}")
        wrap(rtcicetransport.RTCIceTransport, "start", ice_enter, ice_leave)

        def dtls_enter(p, k, dtls, _caller):
            world.tok(p, f"t:{k}:ds")
            return True

        def dtls_leave(p, k, dtls, _ctx, exc):
            if exc is None and dtls.state == "failed":
                world.tok(p, f"t:{k}:df")
        wrap(rtcdtlstransport.RTCDtlsTransport, "start", dtls_enter, dtls_leave)

        def sctp_enter(p, _i, sctp, _caller):
            P = world.peers[p]
            if not P.sctp_started:
                P.sctp_started = True
                world.tok(p, "ss")
            return True
        wrap(rtcsctptransport.RTCSctpTransport, "start", sctp_enter, lambda *a: None)

    # ---- channels ------------------------------------------------------------------------------------
    def add_channel(self, p, ch):
        P = self.peers[p]
        j = len(P.chans)
        P.chans.append(ch)
        P.chan_last.append("c")
        self.tok(p, "cn")
        self.chan_state(p, j)
        for evname in ("open", "closing", "close"):
            ch.on(evname, lambda p=p, j=j: self.chan_state(p, j))

    def chan_state(self, p, j):
        P = self.peers[p]
        st = CHAN[P.chans[j].readyState]
        if st != P.chan_last[j]:
            # a channel that moves backwards is emitted too: the model rejects it
            P.chan_last[j] = st
            self.tok(p, f"ce:{j}:{st}")


def _listeners(pc):
    return sum(len(pc.listeners(e)) for e in ("signalingstatechange", "iceconnectionstatechange", "icegatheringstatechange",
                                               "connectionstatechange", "track", "datachannel"))


# ------------------------------------------------------------------------------------------------------
# SDP munging: remove the BUNDLE group so that every m-section keeps its own transport


def unbundle(sdp):
    return "".join(l for l in sdp.splitlines(True) if not l.startswith("a=group:BUNDLE"))


def _desc(d, bundle):
    from aiortc import RTCSessionDescription
    return RTCSessionDescription(sdp=d.sdp if bundle else unbundle(d.sdp), type=d.type)


# ------------------------------------------------------------------------------------------------------


async def _negotiate(world, case):
    """the application's negotiation script (runs as its own task; close() may hit it anywhere)"""
    pc0, pc1 = world.pcs
    bundle = case.get("bundle", True)
    order = case.get("order", "std")
    try:
        offer = await pc0.createOffer()
        if order == "remote-first":
            await asyncio.gather(pc1.setRemoteDescription(_desc(offer, bundle)), pc0.setLocalDescription(offer))
        else:
            await pc0.setLocalDescription(offer)
            await pc1.setRemoteDescription(_desc(pc0.localDescription, bundle))
        answer = await pc1.createAnswer()
        if order == "answer-race":
            # the answer reaches the offerer while the answerer's setLocalDescription is still gathering
            await asyncio.gather(pc1.setLocalDescription(answer), _late_remote(pc0, pc1, bundle))
        else:
            await pc1.setLocalDescription(answer)
            await pc0.setRemoteDescription(_desc(pc1.localDescription, bundle))
        world.notes.append("negotiated")
    except asyncio.CancelledError:
        raise
    except Exception as exc:  # noqa: BLE001 - a negotiation call that loses the race against close() may raise
        world.notes.append("negotiation raised " + type(exc).__name__)


async def _late_remote(pc0, pc1, bundle):
    while pc1.localDescription is None or pc1.localDescription.type != "answer":
        await asyncio.sleep(0)
        if pc1.signalingState == "closed" or pc0.signalingState == "closed":
            return
    await pc0.setRemoteDescription(_desc(pc1.localDescription, bundle))


async def _traffic(world):
    """data flowing: both sides send on every open channel until closed"""
    try:
        while True:
            for p in (0, 1):
                for ch in world.peers[p].chans:
                    if ch.readyState == "open":
                        try:
                            ch.send(b"x" * 40)
                        except Exception:  # noqa: BLE001
                            pass
            await asyncio.sleep(0.005)
    except asyncio.CancelledError:
        pass


def _small_video_track():
    from aiortc.mediastreams import VideoStreamTrack
    from av import VideoFrame

    class SmallVideoTrack(VideoStreamTrack):
        async def recv(self):
            pts, time_base = await self.next_timestamp()
            frame = VideoFrame(width=160, height=120)
            for pl in frame.planes:
                pl.update(bytes(pl.buffer_size))
            frame.pts = pts
            frame.time_base = time_base
            return frame
    return SmallVideoTrack()


def _setup_peer(world, p, cfg, flow):
    from aiortc import RTCConfiguration, RTCPeerConnection
    from aiortc.mediastreams import AudioStreamTrack
    pc = RTCPeerConnection(RTCConfiguration(iceServers=[]))
    world.pcs.append(pc)
    world.sync(p)
    for part in cfg.split("+"):
        if part in ("audio", "video"):
            if flow:
                pc.addTrack(AudioStreamTrack() if part == "audio" else _small_video_track())
            else:
                pc.addTransceiver(part)
        elif part in ("audio-recv", "video-recv"):
            pc.addTransceiver(part.split("-")[0], direction="recvonly")
        elif part == "dc":
            ch = pc.createDataChannel("c19")
            world.sync(p)
            world.add_channel(p, ch)
        world.sync(p)
    _listen(world, p)


def _listen(world, p):
    pc = world.pcs[p]
    P = world.peers[p]

    def on_channel(ch):
        if P.close_returned:
            P.events_after_close.append("datachannel")
            return
        world.add_channel(p, ch)
    pc.on("datachannel", on_channel)

    def on_track(track):
        if P.close_returned:
            P.events_after_close.append("track")
        else:
            world.tok(p, "em")
    pc.on("track", on_track)
    for evname in ("signalingstatechange", "iceconnectionstatechange", "icegatheringstatechange", "connectionstatechange"):
        def on_ev(evname=evname):
            if P.close_returned:
                P.events_after_close.append(evname)
            else:
                world.tok(p, "em")
        pc.on(evname, on_ev)


def _listen_late(world, p):
    """after close() returned the connection has dropped its listeners; new ones would see anything that still fires"""
    P = world.peers[p]
    _listen(world, p)
    for ch in P.chans:
        for evname in ("open", "close", "closing", "message", "bufferedamountlow", "error"):
            ch.on(evname, lambda *a, evname=evname: P.events_after_close.append("channel " + evname))


async def _do_close(world, p, label):
    pc = world.pcs[p]
    P = world.peers[p]
    t0 = time.monotonic()
    try:
        await asyncio.wait_for(pc.close(), world.close_timeout)
    except asyncio.TimeoutError:
        world.close_results.append({"peer": p, "label": label, "secs": None, "exc": "timeout"})
        return
    except asyncio.CancelledError:
        # not this task being cancelled: the close future itself is in the cancelled state (an earlier close() that had to be
        # abandoned took it along) - this close() can never return normally
        if asyncio.current_task().cancelling():
            raise
        world.close_results.append({"peer": p, "label": label, "secs": None, "exc": "timeout"})
        return
    except Exception as exc:  # noqa: BLE001
        world.close_results.append({"peer": p, "label": label, "secs": round(time.monotonic() - t0, 3), "exc": type(exc).__name__})
        return
    # --- the instant close() returned: nothing may be left running -----------------------------------
    # (a task woken by the same event as this caller - e.g. the auto-close task awaiting the same close future - gets the
    # current loop iteration to finish)
    await asyncio.sleep(0)
    first = not P.close_returned
    P.close_returned = True
    snap = _snapshot(world, p)
    if first:
        _listen_late(world, p)
    world.close_results.append({"peer": p, "label": label, "secs": round(time.monotonic() - t0, 3), "exc": None, "snap": snap,
                                "first": first})


def _snapshot(world, p):
    pc = world.pcs[p]
    P = world.peers[p]
    live = sorted(i["name"] for i in world.tasks if i["peer"] == p and not i["task"].done() and i["kind"] in MODELLED)
    other = sorted(i["name"] for i in world.tasks if i["peer"] == p and not i["task"].done() and i["kind"] not in MODELLED)
    threads = sorted(th.name for th in P.dec_threads.values() if th.is_alive())
    return {
        "signaling": pc.signalingState, "ice": pc.iceConnectionState, "conn": pc.connectionState,
        "channels": [ch.readyState for ch in P.chans],
        "live_tasks": live, "other_tasks": other, "threads": threads,
    }


def release_threads():
    """harness hygiene, after the verdict was taken: a leaked (non-daemon) decoder thread would keep this process from ever
    exiting - hand it the sentinel it is waiting for"""
    for th in threading.enumerate():
        if th.name.endswith("-decoder") and th.is_alive():
            args = getattr(th, "_args", None) or ()
            if len(args) > 1 and hasattr(args[1], "put"):
                try:
                    args[1].put(None)
                    th.join(1.0)
                except Exception:  # noqa: BLE001
                    pass


def _timers(world, p):
    """not-cancelled timer handles of the loop whose callback is bound to an object of peer p"""
    out = []
    for h in list(getattr(world.loop, "_scheduled", [])):
        if h.cancelled():
            continue
        cb = getattr(h, "_callback", None)
        slf = getattr(cb, "__self__", None)
        got = world.owner.get(id(slf)) if slf is not None else None
        if got is not None and got[0] == p:
            out.append(f"{got[1]}.{getattr(cb, '__name__', '?')}")
    return sorted(out)


async def _drain(track):
    from aiortc.mediastreams import MediaStreamError
    while True:
        try:
            await track.recv()
        except MediaStreamError:
            return


async def _fault(world, case):
    """environment faults, applied once the negotiation script is through"""
    f = case.get("fault")
    if f == "remote-gone":
        # the remote side vanishes without a word: its sockets are closed underneath it
        pc1 = world.pcs[1]
        for ice in list(getattr(pc1, "_RTCPeerConnection__iceTransports")):
            for proto in list(ice._connection._protocols):
                if proto.transport is not None:
                    proto.transport.abort()
    elif f == "many-ssrc":
        # a remote that uses >= 256 SSRCs on one m-section (RTP from the peer; see notes/C18.md): the receiver's RTCP task
        # then fails while building its report
        import aiortc.rtcrtpreceiver as rr
        from aiortc.rtp import RtpPacket
        pc0 = world.pcs[0]
        for t in pc0.getTransceivers():
            r = t.receiver
            codecs = getattr(r, "_RTCRtpReceiver__codecs")
            if not codecs:
                continue
            pt = sorted(codecs)[0]
            for i in range(300):
                pkt = RtpPacket(payload_type=pt, sequence_number=i, timestamp=960, ssrc=1000 + i, payload=b"")   # one timestamp: no frame completes
                await r._handle_rtp_packet(pkt, arrival_time_ms=i)
            r._set_rtcp_ssrc(4242)


async def _main(world, case):
    loop = asyncio.get_running_loop()
    world.loop = loop
    loop.set_exception_handler(lambda l, c: None)
    loop.set_task_factory(world.task_factory)
    world.install_wrappers()
    cfgs = case["cfg"].split("|") if "|" in case["cfg"] else [case["cfg"], case["cfg"]]
    flow = bool(case.get("flow"))
    for p in (0, 1):
        _setup_peer(world, p, cfgs[p], flow)

    done_closers = asyncio.Event()
    pending = [0]

    def fire(spec):
        async def run():
            try:
                d = spec.get("delay_ms", 0)
                if d:
                    await asyncio.sleep(d / 1000.0)
                p = spec["peer"]
                mode = spec.get("mode", "single")
                if mode == "single":
                    await _do_close(world, p, "a")
                elif mode == "twice-concurrent":
                    await asyncio.gather(_do_close(world, p, "a"), _do_close(world, p, "b"))
                elif mode == "twice-staggered":
                    t = asyncio.ensure_future(_do_close(world, p, "a"))
                    for _ in range(spec.get("gap", 1)):
                        await asyncio.sleep(0)
                    await _do_close(world, p, "b")
                    await t
                elif mode == "twice-seq":
                    await _do_close(world, p, "a")
                    await _do_close(world, p, "b")
            finally:
                pending[0] -= 1
                if pending[0] == 0:
                    done_closers.set()
        asyncio.ensure_future(run())

    specs = case["closers"]
    pending[0] = len(specs)
    by_phase = [s for s in specs if s.get("at") is None]          # fired after negotiation + settle
    for s in specs:
        if s.get("at") is not None:
            loop.triggers.setdefault(max(1, s["at"]), []).append(lambda s=s: fire(s))
    loop.counting = True
    neg = asyncio.ensure_future(_negotiate(world, case))
    traffic = asyncio.ensure_future(_traffic(world)) if flow else None
    # phase-based closers: wait for the negotiation script and a settle time first
    if by_phase or case.get("fault"):
        await asyncio.wait([neg], timeout=RUN_TIMEOUT)
        settle = case.get("settle_ms", 0)
        if settle:
            await asyncio.sleep(settle / 1000.0)
        if case.get("fault"):
            await _fault(world, case)
            await asyncio.sleep(case.get("fault_wait_ms", 50) / 1000.0)
        for s in by_phase:
            fire(s)
    else:
        # iteration triggers beyond the busy phase would wait for idle timers (consent checks, RTCP): once the negotiation
        # script is through and the loop has gone quiet, fire what is left
        await asyncio.wait([neg], timeout=RUN_TIMEOUT)
        last = -1
        while loop.triggers and loop.iteration != last:
            last = loop.iteration
            await asyncio.sleep(0.25)
            last += 1      # (this sleep's own wake-up)
        for fns in list(loop.triggers.values()):
            for fn in fns:
                fn()
        loop.triggers.clear()
    try:
        await asyncio.wait_for(done_closers.wait(), RUN_TIMEOUT)
    except asyncio.TimeoutError:
        world.notes.append("closers did not finish")
    world.iter_total = loop.iteration
    loop.counting = False
    # let the negotiation script finish (bounded wait: a call that lost the race against close() must still return)
    try:
        await asyncio.wait_for(asyncio.shield(neg), 5.0)
    except asyncio.TimeoutError:
        world.notes.append("negotiation script blocked")
        neg.cancel()
    except Exception:  # noqa: BLE001
        pass
    if traffic is not None:
        traffic.cancel()
    # the side the case did not close is closed now: both connections end closed, both are judged
    for p in (0, 1):
        if not any(s["peer"] == p for s in specs):
            await _do_close(world, p, "h")

    # ---- after close: a grace period during which NOTHING may happen on a closed connection ----------
    await asyncio.sleep(case.get("grace_ms", 60) / 1000.0)
    final = []
    for p in (0, 1):
        P = world.peers[p]
        if not P.close_returned:
            final.append(None)
            continue
        snap = _snapshot(world, p)
        snap["timers"] = _timers(world, p)
        world.sync(p)
        # received tracks: a consumer must see the end of every received track in bounded time
        ended = []
        for t in world.pcs[p].getTransceivers():
            tr = t.receiver.track
            if tr is None:
                continue
            try:
                await asyncio.wait_for(_drain(tr), 1.0)
                ended.append(tr.readyState == "ended")
            except asyncio.TimeoutError:
                ended.append(False)
        snap["tracks_ended"] = ended
        snap["events_after_close"] = list(P.events_after_close)
        snap["listeners_at_return"] = P.lis_at_return
        final.append(snap)
    world.recording = False
    # repeated close() is a no-op: returns at once, fires nothing, changes nothing, starts nothing
    for p in (0, 1):
        if final[p] is None:
            continue
        P = world.peers[p]
        before = (pc_state(world.pcs[p]), len(P.events_after_close), len(world.tasks), len(world.foreign))
        it0 = loop.iteration
        loop.counting = True
        try:
            await asyncio.wait_for(world.pcs[p].close(), 3.0)      # (it has to return at once)
            final[p]["reclose"] = "ok"
        except asyncio.TimeoutError:
            final[p]["reclose"] = "timeout"
        except asyncio.CancelledError:
            if asyncio.current_task().cancelling():
                raise
            final[p]["reclose"] = "timeout"
        except Exception as exc:  # noqa: BLE001
            final[p]["reclose"] = type(exc).__name__
        loop.counting = False
        after = (pc_state(world.pcs[p]), len(P.events_after_close), len(world.tasks), len(world.foreign))
        final[p]["reclose_changed"] = before != after
        final[p]["reclose_iters"] = loop.iteration - it0
    return final


def pc_state(pc):
    return (pc.signalingState, pc.iceConnectionState, pc.connectionState, pc.iceGatheringState)


def summary(world, p, snap):
    """the same line as `summary` of lean/Aiortc/Drv/Close.lean, from the implementation"""
    P = world.peers[p]
    b = lambda x: "1" if x else "0"  # noqa: E731
    lst = lambda xs: ",".join(xs) if xs else "-"  # noqa: E731
    if snap is None:
        return "not-closed"
    lis = P.lis_at_return if P.lis_at_return is not None else 1
    return (f"closed={b(P.close_entered)} done={b(P.primary_ret)} sig={b(snap['signaling'] == 'closed')} "
            f"ice={b(snap['ice'] == 'closed')} conn={b(snap['conn'] == 'closed')} lis={b(lis > 0)} "
            f"chans={lst([CHAN[c] for c in snap['channels']])} live={len(snap['live_tasks'])} thr={len(snap['threads'])} "
            f"trk={lst([b(x) for x in snap['tracks_ended']])} w=0")


def run_case(case):
    """-> result dict (JSON-able)"""
    import logging
    logging.disable(logging.CRITICAL)
    world = World(case)
    t_start = time.monotonic()
    loop = CountingLoop()
    asyncio.set_event_loop(loop)
    try:
        final = loop.run_until_complete(asyncio.wait_for(_main(world, case), 2 * RUN_TIMEOUT))
    finally:
        world.recording = False
        try:
            pend = [t for t in asyncio.all_tasks(loop) if not t.done()]
            for t in pend:
                t.cancel()
            if pend:
                loop.run_until_complete(asyncio.wait(pend, timeout=2))
        except Exception:  # noqa: BLE001
            pass
        asyncio.set_event_loop(None)
        loop.close()
        release_threads()
    return {"trace": [world.peers[0].trace, world.peers[1].trace], "closes": world.close_results, "final": final,
            "summary": [summary(world, p, final[p]) for p in (0, 1)],
            "iters": world.iter_total, "notes": world.notes, "secs": round(time.monotonic() - t_start, 2),
            "foreign": sorted(set(qn for (t, qn) in world.foreign if not t.done()))}
