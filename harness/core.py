"""Shared machinery of the checks: paths, repo selection, lake build, axiom audit, model driver,
evidence / replay / known-findings handling.  Run with /venv/bin/python."""
from __future__ import annotations

import contextlib
import fcntl
import hashlib
import json
import os
import random
import re
import subprocess
import sys
import time

VERIF = os.path.dirname(os.path.dirname(os.path.abspath(__file__)))
LEAN_DIR = os.path.join(VERIF, "lean")
REPO = os.environ.get("VERIF_REPO", "/repo")
ALLOWED_AXIOMS = {"propext", "Classical.choice", "Quot.sound"}
FORBIDDEN = re.compile(
    r"\bsorry\b|\badmit\b|^\s*axiom\s|native_decide|bv_decide|implemented_by|\bunsafe\s|maxHeartbeats\s+0\b"
)

TRUSTED_BASE = [
    "Lean 4.33.0 kernel (leanchecker re-checks the .olean files in the thorough tier)",
    "axioms allowed in property theorems: propext, Classical.choice, Quot.sound (audited by #print axioms on every run); no sorry/admit/axiom/native_decide/bv_decide/implemented_by/unsafe (grep'd on every run)",
    "harness/gen.py: translator regenerating lean/Aiortc/Gen/*.lean from the working tree (constants, tables, finite graphs, AST translation of pure integer functions)",
    "harness correspondence: the hand-written Lean model is tied to the implementation only by running both on the same generated inputs and diffing canonical outputs",
    "Python built-ins (struct, bytes, int, set/dict order, sorted) are modelled by their documented semantics",
]


def use_repo() -> None:
    """Make `import aiortc` resolve to $VERIF_REPO/src (default /repo/src)."""
    src = os.path.join(REPO, "src")
    if sys.path[0] != src:
        sys.path.insert(0, src)
    mod = sys.modules.get("aiortc")
    if mod is not None and not os.path.abspath(mod.__file__).startswith(os.path.abspath(src)):
        raise RuntimeError(f"aiortc already imported from {mod.__file__}, wanted {src}")


@contextlib.contextmanager
def build_lock():
    os.makedirs(os.path.join(LEAN_DIR, ".lake"), exist_ok=True)
    path = os.path.join(LEAN_DIR, ".lake", "verif.lock")
    with open(path, "w") as f:
        fcntl.flock(f, fcntl.LOCK_EX)
        try:
            yield
        finally:
            fcntl.flock(f, fcntl.LOCK_UN)


def lake_build(targets: list[str], timeout: int = 3000) -> tuple[bool, str]:
    """Build lake targets under the global lock. Returns (ok, combined output)."""
    with build_lock():
        p = subprocess.run(
            ["lake", "build"] + targets,
            cwd=LEAN_DIR,
            stdout=subprocess.PIPE,
            stderr=subprocess.STDOUT,
            text=True,
            timeout=timeout,
        )
    return p.returncode == 0, p.stdout


def lean_file(path: str, timeout: int = 1200) -> tuple[bool, str]:
    """Elaborate a single file against the built library (no .olean written)."""
    p = subprocess.run(
        ["lake", "env", "lean", path],
        cwd=LEAN_DIR,
        stdout=subprocess.PIPE,
        stderr=subprocess.STDOUT,
        text=True,
        timeout=timeout,
    )
    return p.returncode == 0, p.stdout


# --------------------------------------------------------------------------------------
# audit
# --------------------------------------------------------------------------------------


def strip_comments(text: str) -> str:
    # block comments (non-nested handling is enough for our sources), then line comments
    text = re.sub(r"/-.*?-/", lambda m: "\n" * m.group(0).count("\n"), text, flags=re.S)
    text = re.sub(r"--.*", "", text)
    return text


def theorem_names(props_file: str) -> list[str]:
    """Names of all `theorem`s declared in a Props file (fully qualified by its namespace)."""
    with open(props_file) as f:
        text = strip_comments(f.read())
    ns = []
    names = []
    for line in text.splitlines():
        m = re.match(r"\s*namespace\s+(\S+)", line)
        if m:
            ns.append(m.group(1))
            continue
        m = re.match(r"\s*end\s+(\S+)", line)
        if m and ns and ns[-1].split(".")[-1] == m.group(1).split(".")[-1]:
            ns.pop()
            continue
        m = re.match(r"\s*(?:@\[[^\]]*\]\s*)?(?:private\s+|protected\s+)?theorem\s+([^\s:({\[]+)", line)
        if m:
            names.append(".".join(ns + [m.group(1)]))
    return names


def import_closure(module, modules: bool = False) -> list[str]:
    """Lean source files under lean/ that `module` (or a list of modules) transitively imports
    (Aiortc.* / Drivers.* only); with modules=True the module names instead of the paths."""
    seen: dict[str, str] = {}
    todo = [module] if isinstance(module, str) else list(module)
    while todo:
        m = todo.pop()
        if m in seen or not (m.startswith("Aiortc") or m.startswith("Drivers")):
            continue
        path = os.path.join(LEAN_DIR, *m.split(".")) + ".lean"
        if not os.path.exists(path):
            continue
        seen[m] = path
        with open(path) as f:
            for line in f:
                mm = re.match(r"\s*(?:public\s+)?import\s+(\S+)", line)
                if mm:
                    todo.append(mm.group(1))
    return sorted(seen.keys()) if modules else sorted(seen.values())


def grep_forbidden(files: list[str]) -> list[str]:
    hits = []
    for path in files:
        with open(path) as f:
            text = strip_comments(f.read())
        for i, line in enumerate(text.splitlines(), 1):
            if FORBIDDEN.search(line):
                hits.append(f"{os.path.relpath(path, LEAN_DIR)}:{i}: {line.strip()}")
    return hits


def audit(prop: str, files: list[str] | None = None) -> dict:
    """#print axioms for every theorem in Props/<f>.lean (f in `files`, default [prop]) + forbidden-token
    grep on the import closure."""
    files = files or [prop]
    modules = [f"Aiortc.Props.{f}" for f in files]
    names = []
    for f in files:
        names += theorem_names(os.path.join(LEAN_DIR, "Aiortc", "Props", f"{f}.lean"))
    res = {"theorems": names, "bad_axioms": {}, "forbidden": [], "ok": False, "output": ""}
    if not names:
        res["output"] = "no theorems found"
        return res
    res["forbidden"] = grep_forbidden(import_closure(modules))
    audit_dir = os.path.join(LEAN_DIR, ".lake", "audit")
    os.makedirs(audit_dir, exist_ok=True)
    audit_file = os.path.join(audit_dir, f"Audit_{prop}_{os.getpid()}.lean")
    with open(audit_file, "w") as f:
        for module in modules:
            f.write(f"import {module}\n")
        for n in names:
            f.write(f"#print axioms {n}\n")
    try:
        ok, out = lean_file(audit_file)
    finally:
        with contextlib.suppress(FileNotFoundError):
            os.remove(audit_file)
    res["output"] = out
    if not ok:
        return res
    # parse: "'name' depends on axioms: [a, b]" / "'name' does not depend on any axioms"
    flat = re.sub(r"\s+", " ", out)
    seen = set()
    for m in re.finditer(r"'([^']+)' depends on axioms: \[([^\]]*)\]", flat):
        seen.add(m.group(1))
        axs = {a.strip() for a in m.group(2).split(",") if a.strip()}
        bad = axs - ALLOWED_AXIOMS
        if bad:
            res["bad_axioms"][m.group(1)] = sorted(bad)
    for m in re.finditer(r"'([^']+)' does not depend on any axioms", flat):
        seen.add(m.group(1))
    missing = [n for n in names if n not in seen]
    if missing:
        res["bad_axioms"]["<not reported>"] = missing
    res["ok"] = not res["bad_axioms"] and not res["forbidden"]
    return res


# --------------------------------------------------------------------------------------
# model driver (line protocol)
# --------------------------------------------------------------------------------------


def driver_path(prop: str) -> str:
    return os.path.join(LEAN_DIR, ".lake", "build", "bin", f"drv_{prop}")


def run_driver(prop: str, lines: list[str], timeout: int = 1200) -> list[str]:
    """One request per line in, one reply per line out (compiled model driver of property `prop`)."""
    drv = driver_path(prop)
    if not os.path.exists(drv):
        raise RuntimeError("model driver not built: " + drv)
    for l in lines:
        if "\n" in l:
            raise RuntimeError("newline inside a driver request")
    data = "\n".join(lines) + "\n"
    p = subprocess.run([drv], input=data, stdout=subprocess.PIPE, stderr=subprocess.PIPE, text=True, timeout=timeout)
    if p.returncode != 0:
        raise RuntimeError(f"model driver failed ({p.returncode}): {p.stderr[:2000]}")
    out = p.stdout.split("\n")
    if out and out[-1] == "":
        out.pop()
    if len(out) != len(lines):
        raise RuntimeError(f"model driver returned {len(out)} lines for {len(lines)} requests")
    return out


def hx(b: bytes) -> str:
    return b.hex() if b else "-"


def unhx(s: str) -> bytes:
    return b"" if s == "-" else bytes.fromhex(s)


# --------------------------------------------------------------------------------------
# seeds, evidence, replays, findings
# --------------------------------------------------------------------------------------


def seed() -> int:
    try:
        return int(os.environ.get("VERIF_SEED", "0"))
    except ValueError:
        return 0


def rng(tag: str) -> random.Random:
    h = hashlib.sha256(f"{seed()}:{tag}".encode()).digest()
    return random.Random(int.from_bytes(h[:8], "big"))


def load_findings() -> dict:
    """known_findings.json (committed; never written at run time)."""
    path = os.path.join(VERIF, "known_findings.json")
    res = {"findings": [], "fixed": []}
    if os.path.exists(path):
        with open(path) as f:
            d = json.load(f)
        res["findings"] += d.get("findings", [])
        res["fixed"] += d.get("fixed", [])
    return res


def write_replay(prop: str, name: str, payload: dict) -> str:
    d = os.path.join(VERIF, "replays", prop)
    os.makedirs(d, exist_ok=True)
    path = os.path.join(d, name + ".json")
    payload = dict(payload)
    payload.setdefault("property", prop)
    payload.setdefault("replay_cmd", f"./check {prop} --replay replays/{prop}/{name}.json")
    with open(path, "w") as f:
        json.dump(payload, f, indent=1, sort_keys=True, default=str)
    return os.path.relpath(path, VERIF)


def write_evidence(prop: str, ev: dict) -> None:
    d = os.path.join(VERIF, "evidence")
    os.makedirs(d, exist_ok=True)
    with open(os.path.join(d, f"{prop}.json"), "w") as f:
        json.dump(ev, f, indent=1, sort_keys=True, default=str)


class Timer:
    def __init__(self):
        self.t0 = time.time()

    def s(self) -> float:
        return round(time.time() - self.t0, 3)
