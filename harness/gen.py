"""Regenerate lean/Aiortc/Gen/*.lean from the CURRENT working tree of the repo.

Two kinds of output:
  * Constants.lean  -- every integer module constant the models use (value read by importing
                       the module from $VERIF_REPO/src), plus small tables.
  * Serial.lean     -- Lean `def`s translated from the Python AST of the pure integer functions.

The translator accepts a tiny Python subset (see `Tr`); anything else raises CannotTranslate,
which the check treats as a broken proof obligation.

Files are only rewritten when their content changes, so `lake build` is a no-op on an
unchanged tree.
"""
from __future__ import annotations

import ast
import importlib
import inspect
import os
import sys
import textwrap

from . import core


class CannotTranslate(Exception):
    pass


# ---------------------------------------------------------------------------------------
# constants
# ---------------------------------------------------------------------------------------

INT_CONSTANTS = {
    "aiortc.rtcsctptransport": [
        "COOKIE_LENGTH", "COOKIE_LIFETIME", "MAX_STREAMS", "USERDATA_MAX_LENGTH", "SACK_MAX_ENTRIES",
        "SCTP_COMMON_HEADER_LENGTH", "SCTP_CHUNK_HEADER_LENGTH", "SCTP_PACKET_MINIMUM_LENGTH",
        "SCTP_CAUSE_INVALID_STREAM", "SCTP_CAUSE_STALE_COOKIE",
        "SCTP_DATA_LAST_FRAG", "SCTP_DATA_FIRST_FRAG", "SCTP_DATA_UNORDERED",
        "SCTP_MAX_ASSOCIATION_RETRANS", "SCTP_MAX_BURST", "SCTP_MAX_INIT_RETRANS",
        "SCTP_TSN_MODULO", "RECONFIG_MAX_STREAMS",
        "SCTP_STATE_COOKIE", "SCTP_STR_RESET_OUT_REQUEST", "SCTP_STR_RESET_RESPONSE",
        "SCTP_STR_RESET_ADD_OUT_STREAMS", "SCTP_SUPPORTED_CHUNK_EXT", "SCTP_PRSCTP_SUPPORTED",
        "DATA_CHANNEL_ACK", "DATA_CHANNEL_OPEN", "DATA_CHANNEL_RELIABLE",
        "DATA_CHANNEL_PARTIAL_RELIABLE_REXMIT", "DATA_CHANNEL_PARTIAL_RELIABLE_TIMED",
        "DATA_CHANNEL_RELIABLE_UNORDERED", "DATA_CHANNEL_PARTIAL_RELIABLE_REXMIT_UNORDERED",
        "DATA_CHANNEL_PARTIAL_RELIABLE_TIMED_UNORDERED",
        "WEBRTC_DCEP", "WEBRTC_STRING", "WEBRTC_BINARY", "WEBRTC_STRING_EMPTY",
        "WEBRTC_BINARY_EMPTY",
    ],
    "aiortc.rtp": [
        "RTP_HISTORY_SIZE", "RTP_HEADER_LENGTH", "RTCP_HEADER_LENGTH",
        "PACKETS_LOST_MIN", "PACKETS_LOST_MAX",
        "RTCP_SR", "RTCP_RR", "RTCP_SDES", "RTCP_BYE", "RTCP_RTPFB", "RTCP_PSFB",
        "RTCP_RTPFB_NACK", "RTCP_PSFB_PLI", "RTCP_PSFB_SLI", "RTCP_PSFB_RPSI",
        "RTCP_PSFB_FIR", "RTCP_PSFB_APP",
    ],
    "aiortc.jitterbuffer": ["MAX_MISORDER"],
    "aiortc.rate": [
        "BURST_DELTA_THRESHOLD_MS", "MAX_ADAPT_OFFSET_MS", "MIN_NUM_DELTAS",
        "DELTA_COUNTER_MAX", "MIN_FRAME_PERIOD_HISTORY_LENGTH", "INTER_ARRIVAL_SHIFT",
        "TIMESTAMP_GROUP_LENGTH_MS",
    ],
    "aiortc.codecs.h264": [
        "PACKET_MAX", "NAL_TYPE_FU_A", "NAL_TYPE_STAP_A", "NAL_HEADER_SIZE",
        "FU_A_HEADER_SIZE", "LENGTH_FIELD_SIZE", "STAP_A_HEADER_SIZE",
    ],
    "aiortc.codecs.vpx": ["PACKET_MAX"],
    "aiortc.rtcpeerconnection": ["DISCARD_PORT"],
}

PREFIX = {
    "aiortc.rtcsctptransport": "",
    "aiortc.rtp": "",
    "aiortc.jitterbuffer": "",
    "aiortc.rate": "RATE_",
    "aiortc.codecs.h264": "H264_",
    "aiortc.codecs.vpx": "VPX_",
    "aiortc.rtcpeerconnection": "",
}


UNIT_OF_MODULE = {
    "aiortc.rtcsctptransport": "Sctp",
    "aiortc.rtp": "Rtp",
    "aiortc.jitterbuffer": "Jitter",
    "aiortc.rate": "Rate",
    "aiortc.codecs.h264": "Codec",
    "aiortc.codecs.vpx": "Codec",
    "aiortc.rtcpeerconnection": "Pc",
}


def const_lines(modname: str) -> list[str]:
    out = []
    names = INT_CONSTANTS[modname]
    mod = importlib.import_module(modname)
    out.append(f"-- {modname}")
    for n in names:
        if not hasattr(mod, n):
            raise CannotTranslate(f"constant {modname}.{n} no longer exists")
        v = getattr(mod, n)
        if isinstance(v, bool) or not isinstance(v, int):
            raise CannotTranslate(f"constant {modname}.{n} is not an int: {v!r}")
        lean_name = PREFIX[modname] + n
        if v < 0:
            out.append(f"def {lean_name} : Int := {v}")
        else:
            out.append(f"def {lean_name} : Nat := {v}")
    out.append("")
    return out


def lean_str(s: str) -> str:
    return '"' + s.replace("\\", "\\\\").replace('"', '\\"') + '"'


def sctp_tables() -> list[str]:
    out = []
    sctp = importlib.import_module("aiortc.rtcsctptransport")
    pairs = [(cls.__name__, cls.type) for cls in sctp.CHUNK_CLASSES]
    out.append("-- aiortc.rtcsctptransport.CHUNK_CLASSES: (class name, chunk type id)")
    out.append(
        "def CHUNK_TYPES : List (String × Nat) := ["
        + ", ".join(f"({lean_str(n)}, {t})" for n, t in pairs)
        + "]"
    )
    for n, t in pairs:
        out.append(f"def CT_{n} : Nat := {t}")
    out.append("")
    out.append("-- RTCSctpTransport.State")
    for st in sctp.RTCSctpTransport.State:
        out.append(f"def SCTP_STATE_{st.name} : Nat := {st.value}")
    out.append("")
    return out


def sdp_tables() -> list[str]:
    out = []
    sdp = importlib.import_module("aiortc.sdp")
    out.append("-- aiortc.sdp")
    out.append("def DIRECTIONS : List String := [" + ", ".join(lean_str(d) for d in sdp.DIRECTIONS) + "]")
    out.append(
        "def DTLS_ROLE_SETUP : List (String × String) := ["
        + ", ".join(f"({lean_str(k)}, {lean_str(v)})" for k, v in sdp.DTLS_ROLE_SETUP.items())
        + "]"
    )
    out.append(
        "def DTLS_SETUP_ROLE : List (String × String) := ["
        + ", ".join(f"({lean_str(k)}, {lean_str(v)})" for k, v in sdp.DTLS_SETUP_ROLE.items())
        + "]"
    )
    out.append("def FMTP_INT_PARAMETERS : List String := [" + ", ".join(lean_str(d) for d in sdp.FMTP_INT_PARAMETERS) + "]")
    out.append("def SSRC_INFO_ATTRS : List String := [" + ", ".join(lean_str(d) for d in sdp.SSRC_INFO_ATTRS) + "]")
    out.append("")
    return out


def pc_tables() -> list[str]:
    out = []
    sdp = importlib.import_module("aiortc.sdp")
    dirs = list(sdp.DIRECTIONS)
    try:
        from aiortc.rtcpeerconnection import and_direction, or_direction, reverse_direction
        out.append("-- full graphs of and_direction / or_direction / reverse_direction over sdp.DIRECTIONS")
        out.append(
            "def AND_DIRECTION : List (String × String × String) := ["
            + ", ".join(f"({lean_str(a)}, {lean_str(b)}, {lean_str(and_direction(a, b))})" for a in dirs for b in dirs)
            + "]"
        )
        out.append(
            "def OR_DIRECTION : List (String × String × String) := ["
            + ", ".join(f"({lean_str(a)}, {lean_str(b)}, {lean_str(or_direction(a, b))})" for a in dirs for b in dirs)
            + "]"
        )
        out.append(
            "def REVERSE_DIRECTION : List (String × String) := ["
            + ", ".join(f"({lean_str(a)}, {lean_str(reverse_direction(a))})" for a in dirs)
            + "]"
        )
    except Exception as exc:  # pragma: no cover
        raise CannotTranslate(f"direction graphs: {exc!r}")
    out.append("")
    return out


def dtls_tables() -> list[str]:
    out = []
    dtls = importlib.import_module("aiortc.rtcdtlstransport")
    out.append("-- aiortc.rtcdtlstransport.SRTP_PROFILES: (openssl name, key length, salt length)")
    out.append(
        "def SRTP_PROFILES : List (String × Nat × Nat) := ["
        + ", ".join(
            f"({lean_str(p.openssl_profile.decode())}, {p.key_length}, {p.salt_length})"
            for p in dtls.SRTP_PROFILES
        )
        + "]"
    )
    out.append(
        "def X509_DIGEST_ALGORITHMS : List String := ["
        + ", ".join(lean_str(k) for k in dtls.X509_DIGEST_ALGORITHMS.keys())
        + "]"
    )
    out.append("")
    return out


def gen_receiver_jb_params() -> list[str]:
    recv = importlib.import_module("aiortc.rtcrtpreceiver")
    src = textwrap.dedent(inspect.getsource(recv.RTCRtpReceiver.__init__))
    tree = ast.parse(src)
    found = []
    for node in ast.walk(tree):
        if isinstance(node, ast.Call) and getattr(node.func, "id", None) == "JitterBuffer":
            kw = {k.arg: k.value for k in node.keywords}
            cap = kw.get("capacity")
            pre = kw.get("prefetch")
            vid = kw.get("is_video")
            capv = ast.literal_eval(cap) if cap is not None else None
            prev = ast.literal_eval(pre) if pre is not None else 0
            vidv = ast.literal_eval(vid) if vid is not None else False
            found.append((capv, prev, vidv))
    if not found:
        raise CannotTranslate("RTCRtpReceiver.__init__ no longer constructs JitterBuffer(...) literally")
    out = ["-- JitterBuffer(capacity, prefetch, is_video) call sites in RTCRtpReceiver.__init__"]
    out.append(
        "def RECEIVER_JITTER_PARAMS : List (Nat × Nat × Bool) := ["
        + ", ".join(f"({c}, {p}, {'true' if v else 'false'})" for c, p, v in found)
        + "]"
    )
    out.append("")
    return out


# ---------------------------------------------------------------------------------------
# Python -> Lean translator for pure integer functions
# ---------------------------------------------------------------------------------------

FUNCS = {
    # unit -> [(module, python name, lean name)]
    "Serial": [
        ("aiortc.utils", "uint16_add", "uint16_add"),
        ("aiortc.utils", "uint16_gt", "uint16_gt"),
        ("aiortc.utils", "uint16_gte", "uint16_gte"),
        ("aiortc.utils", "uint32_add", "uint32_add"),
        ("aiortc.utils", "uint32_gt", "uint32_gt"),
        ("aiortc.utils", "uint32_gte", "uint32_gte"),
    ],
    "Sctp": [
        ("aiortc.rtcsctptransport", "padl", "sctp_padl"),
        ("aiortc.rtcsctptransport", "tsn_minus_one", "tsn_minus_one"),
        ("aiortc.rtcsctptransport", "tsn_plus_one", "tsn_plus_one"),
    ],
    "Rtp": [
        ("aiortc.rtp", "padl", "rtp_padl"),
        ("aiortc.rtp", "clamp_packets_lost", "clamp_packets_lost"),
    ],
}


class Tr:
    """Translate one Python function (restricted subset) to a Lean def over Int/Bool."""

    def __init__(self, modname: str, pyname: str, leanname: str, known: dict):
        self.modname = modname
        self.mod = importlib.import_module(modname)
        self.pyname = pyname
        self.leanname = leanname
        self.known = known  # (module, pyname) -> (leanname, rettype)
        self.env: dict[str, str] = {}  # local var -> 'int' | 'bool'

    def fail(self, node, why):
        raise CannotTranslate(
            f"cannot translate {self.modname}.{self.pyname}: {why} "
            f"(line {getattr(node, 'lineno', '?')}: {ast.dump(node)[:120]})"
        )

    def translate(self) -> tuple[str, str]:
        fn = getattr(self.mod, self.pyname, None)
        if fn is None:
            raise CannotTranslate(f"{self.modname}.{self.pyname} no longer exists")
        src = textwrap.dedent(inspect.getsource(fn))
        tree = ast.parse(src)
        fdef = tree.body[0]
        if not isinstance(fdef, ast.FunctionDef):
            self.fail(fdef, "not a plain function")
        if fdef.args.vararg or fdef.args.kwarg or fdef.args.kwonlyargs or fdef.args.defaults:
            self.fail(fdef, "unsupported signature")
        params = [a.arg for a in fdef.args.args]
        for p in params:
            self.env[p] = "int"
        body = [s for s in fdef.body if not (isinstance(s, ast.Expr) and isinstance(s.value, ast.Constant) and isinstance(s.value.value, str))]
        expr, ty = self.block(body)
        sig = " ".join(f"({p} : Int)" for p in params)
        lty = "Int" if ty == "int" else "Bool"
        text = f"def {self.leanname} {sig} : {lty} :=\n{textwrap.indent(expr, '  ')}\n"
        return text, ty

    # statements ---------------------------------------------------------------------
    def block(self, stmts) -> tuple[str, str]:
        if not stmts:
            raise CannotTranslate(f"{self.pyname}: control reaches end of function without return")
        s, rest = stmts[0], stmts[1:]
        if isinstance(s, ast.Return):
            if s.value is None:
                self.fail(s, "bare return")
            return self.expr(s.value)
        if isinstance(s, ast.Assign):
            if len(s.targets) != 1 or not isinstance(s.targets[0], ast.Name):
                self.fail(s, "unsupported assignment")
            name = s.targets[0].id
            e, ty = self.expr(s.value)
            saved = dict(self.env)
            self.env[name] = ty
            body, bty = self.block(rest)
            self.env = saved
            lty = "Int" if ty == "int" else "Bool"
            return f"let {name} : {lty} := {e}\n{body}", bty
        if isinstance(s, ast.If):
            c = self.cond(s.test)
            tb, tty = self.block(s.body + rest)
            eb, ety = self.block((s.orelse or []) + rest)
            if tty != ety:
                self.fail(s, "branches return different types")
            return f"if {c} then\n{textwrap.indent(tb, '  ')}\nelse\n{textwrap.indent(eb, '  ')}", tty
        self.fail(s, "unsupported statement")

    # expressions --------------------------------------------------------------------
    def cond(self, node) -> str:
        e, ty = self.expr(node)
        if ty == "bool":
            return f"({e}) = true"
        return f"({e}) ≠ 0"

    def as_bool(self, node) -> str:
        e, ty = self.expr(node)
        if ty == "bool":
            return e
        return f"(decide (({e}) ≠ 0))"

    def const_value(self, node):
        """Evaluate a constant sub-expression (literal or module constant) to a Python int."""
        if isinstance(node, ast.Constant) and isinstance(node.value, int) and not isinstance(node.value, bool):
            return node.value
        if isinstance(node, ast.Name) and node.id not in self.env:
            v = getattr(self.mod, node.id, None)
            if isinstance(v, int) and not isinstance(v, bool):
                return v
        return None

    def expr(self, node) -> tuple[str, str]:
        if isinstance(node, ast.Constant):
            if isinstance(node.value, bool):
                return ("true" if node.value else "false"), "bool"
            if isinstance(node.value, int):
                return (f"({node.value} : Int)"), "int"
            self.fail(node, "non-integer literal")
        if isinstance(node, ast.Name):
            if node.id in self.env:
                return node.id, self.env[node.id]
            v = self.const_value(node)
            if v is None:
                self.fail(node, f"unknown name {node.id}")
            # module constant: inline the CURRENT value
            return f"({v} : Int)", "int"
        if isinstance(node, ast.UnaryOp):
            if isinstance(node.op, ast.Not):
                return f"(!{self.as_bool(node.operand)})", "bool"
            if isinstance(node.op, ast.USub):
                e, ty = self.expr(node.operand)
                if ty != "int":
                    self.fail(node, "negating a bool")
                return f"(-{e})", "int"
            self.fail(node, "unsupported unary operator")
        if isinstance(node, ast.BinOp):
            l, lt = self.expr(node.left)
            r, rt = self.expr(node.right)
            if lt != "int" or rt != "int":
                self.fail(node, "arithmetic on bool")
            if isinstance(node.op, ast.Add):
                return f"({l} + {r})", "int"
            if isinstance(node.op, ast.Sub):
                return f"({l} - {r})", "int"
            if isinstance(node.op, ast.Mult):
                return f"({l} * {r})", "int"
            if isinstance(node.op, (ast.FloorDiv, ast.Mod)):
                d = self.const_value(node.right)
                if d is None or d <= 0:
                    self.fail(node, "// and % only by positive constants")
                # for a positive divisor Lean's Int `/` `%` (ediv/emod) are Python's floor div/mod
                op = "/" if isinstance(node.op, ast.FloorDiv) else "%"
                return f"({l} {op} {r})", "int"
            if isinstance(node.op, ast.BitAnd):
                m = self.const_value(node.right)
                if m is None or m < 0 or (m & (m + 1)) != 0:
                    self.fail(node, "& only with masks 2^k-1")
                # x & (2^k - 1) == x mod 2^k for every Python int, negative ones included
                return f"({l} % ({m + 1} : Int))", "int"
            if isinstance(node.op, ast.LShift):
                a = self.const_value(node.left)
                b = self.const_value(node.right)
                if a is None or b is None or b < 0:
                    self.fail(node, "<< only on constants")
                return f"({a << b} : Int)", "int"
            self.fail(node, "unsupported binary operator")
        if isinstance(node, ast.BoolOp):
            parts = [self.as_bool(v) for v in node.values]
            op = " && " if isinstance(node.op, ast.And) else " || "
            # NB: Python's and/or on bools; operands are forced to Bool above
            for v in node.values:
                _, ty = self.expr(v)
                if ty != "bool":
                    self.fail(node, "and/or on non-bool operands (value semantics differ)")
            return "(" + op.join(parts) + ")", "bool"
        if isinstance(node, ast.Compare):
            if len(node.ops) != 1:
                self.fail(node, "chained comparison")
            l, lt = self.expr(node.left)
            r, rt = self.expr(node.comparators[0])
            if lt != "int" or rt != "int":
                self.fail(node, "comparison on bool")
            op = node.ops[0]
            sym = {ast.Lt: "<", ast.Gt: ">", ast.LtE: "≤", ast.GtE: "≥", ast.Eq: "=", ast.NotEq: "≠"}.get(type(op))
            if sym is None:
                self.fail(node, "unsupported comparison")
            return f"(decide ({l} {sym} {r}))", "bool"
        if isinstance(node, ast.IfExp):
            c = self.cond(node.test)
            a, at = self.expr(node.body)
            b, bt = self.expr(node.orelse)
            if at != bt:
                self.fail(node, "conditional expression with different types")
            return f"(if {c} then {a} else {b})", at
        if isinstance(node, ast.Call):
            if node.keywords:
                self.fail(node, "keyword arguments")
            if isinstance(node.func, ast.Name):
                fname = node.func.id
                args = [self.expr(a) for a in node.args]
                if fname in ("max", "min") and len(args) == 2 and all(t == "int" for _, t in args):
                    return f"({fname} {args[0][0]} {args[1][0]})", "int"
                if fname == "abs" and len(args) == 1 and args[0][1] == "int":
                    return f"(Int.natAbs {args[0][0]} : Int)", "int"
                target = getattr(self.mod, fname, None)
                if target is not None and inspect.isfunction(target):
                    key = (target.__module__, target.__name__)
                    if key in self.known:
                        lname, rty = self.known[key]
                        if any(t != "int" for _, t in args):
                            self.fail(node, "bool argument")
                        return "(" + " ".join([lname] + [a for a, _ in args]) + ")", rty
                self.fail(node, f"call to untranslated function {fname}")
            self.fail(node, "unsupported call")
        self.fail(node, "unsupported expression")


HEADER = [
    "-- GENERATED by harness/gen.py from the repo working tree. Do not edit.",
    "-- Constants: current values of module attributes.  Functions: AST translation of the repo's pure",
    "-- integer functions (Python `int` ↦ Lean `Int`; `a & (2^k-1)` ↦ `a % 2^k`; `//`,`%` only by positive",
    "-- constants, where Lean's Int `/`,`%` coincide with Python's floor semantics).",
    "namespace Aiortc.Gen",
    "",
]


def func_lines(unit: str) -> list[str]:
    out = []
    known: dict = {}
    for modname, pyname, leanname in FUNCS.get(unit, []):
        tr = Tr(modname, pyname, leanname, known)
        text, ty = tr.translate()
        out.append(f"-- {modname}.{pyname}")
        out.append(text)
        known[(modname, pyname)] = (leanname, ty)
    return out


def unit_serial():
    return func_lines("Serial")


def unit_sctp():
    return const_lines("aiortc.rtcsctptransport") + sctp_tables() + func_lines("Sctp")


def unit_rtp():
    return const_lines("aiortc.rtp") + func_lines("Rtp")


def unit_jitter():
    return const_lines("aiortc.jitterbuffer") + gen_receiver_jb_params()


def unit_rate():
    return const_lines("aiortc.rate")


def unit_codec():
    return const_lines("aiortc.codecs.h264") + const_lines("aiortc.codecs.vpx")


def unit_sdp():
    return sdp_tables()


def unit_pc():
    return const_lines("aiortc.rtcpeerconnection") + pc_tables()


def unit_dtls():
    return dtls_tables()


UNITS = {
    "Serial": unit_serial,
    "Sctp": unit_sctp,
    "Rtp": unit_rtp,
    "Jitter": unit_jitter,
    "Rate": unit_rate,
    "Codec": unit_codec,
    "Sdp": unit_sdp,
    "Pc": unit_pc,
    "Dtls": unit_dtls,
}


# ---------------------------------------------------------------------------------------


def write_if_changed(path: str, content: str) -> bool:
    try:
        with open(path) as f:
            if f.read() == content:
                return False
    except FileNotFoundError:
        pass
    os.makedirs(os.path.dirname(path), exist_ok=True)
    tmp = path + ".tmp"
    with open(tmp, "w") as f:
        f.write(content)
    os.replace(tmp, path)
    return True


def regenerate() -> dict:
    """Regenerate all Gen units + the registries (Aiortc.lean, Drivers/*.lean, lakefile.toml).

    Returns {'changed': [...], 'errors': {unit: message}}.  A unit that cannot be generated keeps
    its previous file; the check turns the error into a broken obligation for every property whose
    Props module imports that unit."""
    core.use_repo()
    gen_dir = os.path.join(core.LEAN_DIR, "Aiortc", "Gen")
    res = {"changed": [], "errors": {}}
    files = {}
    units = dict(UNITS)
    # plug-in units: harness/genunits/<name>.py exposing UNITS = {"UnitName": fn -> list[str]}
    gu = os.path.join(core.VERIF, "harness", "genunits")
    for f in sorted(os.listdir(gu)):
        if f.endswith(".py") and not f.startswith("_"):
            try:
                m = importlib.import_module("harness.genunits." + f[:-3])
                units.update(getattr(m, "UNITS", {}))
            except Exception as exc:
                res["errors"]["genunits." + f[:-3]] = f"{type(exc).__name__}: {exc}"
    for unit, fn in units.items():
        try:
            files[unit + ".lean"] = "\n".join(HEADER + fn() + ["end Aiortc.Gen"]) + "\n"
        except CannotTranslate as exc:
            res["errors"][unit] = str(exc)
        except Exception as exc:  # import errors etc.
            res["errors"][unit] = f"{type(exc).__name__}: {exc}"
    with core.build_lock():
        for name, content in files.items():
            if write_if_changed(os.path.join(gen_dir, name), content):
                res["changed"].append(name)
        res["changed"] += regen_registry()
    return res


def prop_ids() -> list[str]:
    d = os.path.join(core.VERIF, "harness", "props")
    return sorted(f[:-3] for f in os.listdir(d) if f.startswith("C") and f.endswith(".py"))


def regen_registry() -> list[str]:
    """Aiortc.lean imports every Gen/Model/Lemmas/Props module; one driver executable per property
    (`Drivers/Cnn.lean`, dispatching to the Drv modules named in harness/props/Cnn.py: DRIVERS)."""
    changed = []
    lean = core.LEAN_DIR
    mods = []
    # the root module only imports the regenerated units: models, lemmas and theorems are built per
    # property (`lake build Aiortc.Props.Cnn drv_Cnn`), so helper lemmas of different properties never
    # have to coexist in one environment
    for sub in ("Gen",):
        d = os.path.join(lean, "Aiortc", sub)
        for root, _dirs, fs in os.walk(d):
            for f in sorted(fs):
                if f.endswith(".lean"):
                    rel = os.path.relpath(os.path.join(root, f), lean)[:-5]
                    mods.append(rel.replace(os.sep, "."))
    if write_if_changed(os.path.join(lean, "Aiortc.lean"), "".join(f"import {m}\n" for m in sorted(mods))):
        changed.append("Aiortc.lean")
    exes = []
    import importlib as _il
    for pid in prop_ids():
        try:
            mod = _il.import_module(f"harness.props.{pid}")
        except Exception:
            continue
        drivers = list(getattr(mod, "DRIVERS", []))
        if not drivers:
            continue
        src = [f"import Aiortc.Drv.{d}" for d in drivers]
        src += [
            "/-! GENERATED by harness/gen.py. Model driver for %s: one request per line on stdin" % pid,
            "(`<component> <op> <args…>`), one reply per line on stdout. -/",
            "open Aiortc.Drv",
            "",
            "def dispatch (line : String) : String :=",
            "  match (line.trimAscii.toString.splitOn \" \").filter (· ≠ \"\") with",
        ]
        for d in drivers:
            src.append(f"  | \"{d.lower()}\" :: rest => {d}.handleTop rest")
        src += [
            "  | _ => \"bad-component\"",
            "",
            "partial def loop (h : IO.FS.Stream) (out : IO.FS.Stream) : IO Unit := do",
            "  let line ← h.getLine",
            "  if line.isEmpty then return ()",
            "  out.putStrLn (dispatch line)",
            "  loop h out",
            "",
            "def main : IO Unit := do",
            "  let out ← IO.getStdout",
            "  loop (← IO.getStdin) out",
            "  out.flush",
            "",
        ]
        if write_if_changed(os.path.join(lean, "Drivers", f"{pid}.lean"), "\n".join(src)):
            changed.append(f"Drivers/{pid}.lean")
        exes.append(pid)
    lf = [
        "# GENERATED by harness/gen.py (one model-driver executable per property)",
        'name = "aiortc"',
        'version = "0.1.0"',
        'defaultTargets = ["Aiortc"]',
        "",
        "[[lean_lib]]",
        'name = "Aiortc"',
        "",
        "[[lean_lib]]",
        'name = "Drivers"',
        "",
    ]
    for pid in exes:
        lf += ["[[lean_exe]]", f'name = "drv_{pid}"', f'root = "Drivers.{pid}"', ""]
    if write_if_changed(os.path.join(lean, "lakefile.toml"), "\n".join(lf)):
        changed.append("lakefile.toml")
    return changed


if __name__ == "__main__":
    r = regenerate()
    print(r)
    sys.exit(1 if r["errors"] else 0)
