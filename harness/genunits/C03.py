"""Regenerated unit for C03 (`Gen/Negotiate.lean`): the codec / header-extension / capability tables the
offer/answer code works on (aiortc.codecs.CODECS, HEADER_EXTENSIONS, get_capabilities), the dynamic payload
type range, and the graph of `sdp.parse_h264_profile_level_id` (profile only) over every `profile-level-id`
that occurs in the tables plus the default and a few malformed candidates."""
from __future__ import annotations


def _s(x: str) -> str:
    return '"' + x.replace("\\", "\\\\").replace('"', '\\"') + '"'


def _opt(x, f=str) -> str:
    return "none" if x is None else "(some " + f(x) + ")"


def _params(d: dict) -> str:
    items = []
    for k in sorted(d):
        v = d[k]
        if isinstance(v, bool) or v is None:
            raise ValueError("unsupported fmtp value %r" % (v,))
        if isinstance(v, int):
            items.append("(%s, Sum.inl (%d : Int))" % (_s(k), v))
        else:
            items.append("(%s, Sum.inr %s)" % (_s(k), _s(str(v))))
    return "[" + ", ".join(items) + "]"


def _codec(c) -> str:
    fb = "[" + ", ".join("(%s, %s)" % (_s(f.type), _opt(f.parameter, _s)) for f in c.rtcpFeedback) + "]"
    return "(%s, %d, %s, %d, %s, %s)" % (_s(c.mimeType), c.clockRate, _opt(c.channels), c.payloadType, fb,
                                         _params(c.parameters))


def _cap(c) -> str:
    return "(%s, %d, %s, %s)" % (_s(c.mimeType), c.clockRate, _opt(c.channels), _params(c.parameters))


H264_CANDIDATES = ["42E01F", "42e01f", "42001f", "42001F", "4d001f", "640c1f", "58A01E", "42e00b", "42f00b",
                   "", "42e0", "zz001f", "00001f", "42e01", "42e01f00"]


def negotiate_unit() -> list[str]:
    from aiortc import rtp, sdp
    from aiortc.codecs import CODECS, HEADER_EXTENSIONS, get_capabilities
    from aiortc.rtcpeerconnection import MEDIA_KINDS

    out = [
        "",
        "-- aiortc.codecs.CODECS[kind]: (mimeType, clockRate, channels, payloadType, rtcpFeedback, parameters sorted by key)",
    ]
    ctype = ("List (String × Nat × Option Nat × Nat × List (String × Option String) × "
             "List (String × (Int ⊕ String)))")
    for kind in ("audio", "video"):
        out.append("def NEG_CODECS_%s : %s := [%s]" % (kind.upper(), ctype, ", ".join(_codec(c) for c in CODECS[kind])))
    out.append("-- aiortc.codecs.HEADER_EXTENSIONS[kind]: (id, uri)")
    for kind in ("audio", "video"):
        out.append("def NEG_HEADER_EXTENSIONS_%s : List (Nat × String) := [%s]" % (
            kind.upper(), ", ".join("(%d, %s)" % (x.id, _s(x.uri)) for x in HEADER_EXTENSIONS[kind])))
    out.append("-- aiortc.codecs.get_capabilities(kind).codecs: (mimeType, clockRate, channels, parameters)")
    for kind in ("audio", "video"):
        out.append("def NEG_CAPS_%s : List (String × Nat × Option Nat × List (String × (Int ⊕ String))) := [%s]" % (
            kind.upper(), ", ".join(_cap(c) for c in get_capabilities(kind).codecs)))
    r = rtp.DYNAMIC_PAYLOAD_TYPES
    if r.step != 1:
        raise ValueError("DYNAMIC_PAYLOAD_TYPES is not a contiguous range")
    out.append("-- aiortc.rtp.DYNAMIC_PAYLOAD_TYPES = range(lo, hi)")
    out.append("def NEG_DYNAMIC_PT_LO : Nat := %d" % r.start)
    out.append("def NEG_DYNAMIC_PT_HI : Nat := %d" % r.stop)
    out.append("def NEG_MEDIA_KINDS : List String := [%s]" % ", ".join(_s(k) for k in MEDIA_KINDS))
    cands = list(H264_CANDIDATES)
    for c in CODECS["video"]:
        v = c.parameters.get("profile-level-id")
        if isinstance(v, str) and v not in cands:
            cands.append(v)
    rows = []
    for c in cands:
        try:
            p = sdp.parse_h264_profile_level_id(c)[0]
            rows.append("(%s, some %s)" % (_s(c), _s(p.name)))
        except ValueError:
            rows.append("(%s, none)" % _s(c))
    out.append("-- graph of sdp.parse_h264_profile_level_id(s)[0].name (none = ValueError) over the candidates")
    out.append("def NEG_H264_PROFILE : List (String × Option String) := [%s]" % ", ".join(rows))
    out.append("")
    return out


UNITS = {"Negotiate": negotiate_unit}
