"""Extra regenerated Lean constants for C09 (SDP): the forbidden payload-type range of rtp.py."""


def _sdp_extra() -> list[str]:
    from aiortc import rtp
    r = rtp.FORBIDDEN_PAYLOAD_TYPES
    if not (isinstance(r, range) and r.step == 1):
        raise ValueError("FORBIDDEN_PAYLOAD_TYPES is not a contiguous range")
    return [
        "-- aiortc.rtp.FORBIDDEN_PAYLOAD_TYPES = range(lo, hi)",
        f"def FORBIDDEN_PT_LO : Int := {r.start}",
        f"def FORBIDDEN_PT_HI : Int := {r.stop}",
        "",
    ]


UNITS = {"SdpExtra": _sdp_extra}
