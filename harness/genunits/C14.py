"""Regenerated unit for C14: the graph of RTCSessionDescription's type validation over a fixed candidate list,
obtained by calling the public constructor (rtcsessiondescription.py:14-19)."""
from __future__ import annotations

CANDIDATES = ["offer", "pranswer", "answer", "rollback", "", "Offer", "ANSWER", "offer ", "bogus", "closed", "stable"]


def jsep_unit() -> list[str]:
    from aiortc import RTCSessionDescription

    rows = []
    for t in CANDIDATES:
        try:
            RTCSessionDescription(sdp="v=0\r\n", type=t)
            ok = True
        except ValueError:
            ok = False
        rows.append('("%s", %s)' % (t, "true" if ok else "false"))
    return [
        "",
        "-- aiortc.rtcsessiondescription: does RTCSessionDescription(sdp, type) construct (true) or raise ValueError (false)",
        "def SESSION_DESCRIPTION_TYPE_ACCEPTED : List (String × Bool) := [" + ", ".join(rows) + "]",
        "",
    ]


UNITS = {"Jsep": jsep_unit}
