"""Extra regenerated constants for C15: integer literals that rate.py keeps inline (not as module
attributes).  They are OBSERVED through public behaviour of freshly constructed objects wherever that is
possible (window / scale of the estimator's RateCounter through add()/rate(), the clamp offset through
update()), so that renaming a private attribute or helper does not break the regeneration; the three
initial values that have no behavioural handle are read as attributes and reported as a regeneration
error (a broken obligation, not a failing input) when they are gone."""
from __future__ import annotations


def _meter(est):
    """the RateCounter the estimator measures the incoming bitrate with (by its public name, else by its class)"""
    from aiortc.rate import RateCounter

    c = getattr(est, "incoming_bitrate", None)
    if isinstance(c, RateCounter):
        return c
    for v in vars(est).values():
        if isinstance(v, RateCounter):
            return v
    raise ValueError("RemoteBitrateEstimator holds no RateCounter: the window / scale of its measurement cannot be observed")


def _window_and_scale(c) -> tuple[int, int]:
    # one sample of value 2 at t = 0:  rate(1) = scale·2 / 2 = scale;  the first `now` at which the sample has left the window is the window size
    c.add(2, 0)
    scale = c.rate(1)
    for now in range(2, 100001):
        if c.rate(now) is None:
            return now, scale
    raise ValueError("RateCounter window is longer than 100 s or rate() never becomes None")


def _clamp_offset() -> int:
    """With a measured throughput of 1 bit/s an initialised controller in INCREASE state climbs to int(1.5·1) + offset = 1 + offset
    and stays there (1 rather than 0, so that the observation does not depend on how a measurement of exactly 0 is treated)."""
    from aiortc.rate import AimdRateControl, BandwidthUsage

    rc = AimdRateControl()
    rc.update(BandwidthUsage.NORMAL, 1, 0)            # notes the time of the first measurement
    v = rc.update(BandwidthUsage.NORMAL, 1, 3001)     # initialises current_bitrate with the measurement
    now = 3001
    for _ in range(100000):
        now += 1000
        v2 = rc.update(BandwidthUsage.NORMAL, 1, now)
        if v is not None and v2 == v:
            return v - 1
        v = v2
    raise ValueError("the estimate does not settle at a cap for a constant measured throughput")


def _attr(obj, name):
    if not hasattr(obj, name):
        raise ValueError(f"{type(obj).__name__}.{name} is gone: the initial value it held cannot be regenerated")
    return getattr(obj, name)


def unit_ratelit() -> list[str]:
    from aiortc.rate import AimdRateControl, RemoteBitrateEstimator

    window, scale = _window_and_scale(_meter(RemoteBitrateEstimator()))
    rc = AimdRateControl()
    vals = {
        # RemoteBitrateEstimator.__init__: RateCounter(1000, 8000)
        "RATE_WINDOW_MS": window,
        "RATE_SCALE": scale,
        # AimdRateControl.feedback_interval()
        "RATE_FEEDBACK_INTERVAL_MS": rc.feedback_interval(),
        # AimdRateControl.__init__
        "RATE_INITIAL_BITRATE": _attr(rc, "current_bitrate"),
        "RATE_INITIAL_THROUGHPUT": _attr(rc, "latest_estimated_throughput"),
        "RATE_RTT_MS": _attr(rc, "rtt"),
        # _clamp_bitrate: int(1.5 * estimated_throughput) + 10000
        "RATE_CLAMP_OFFSET": _clamp_offset(),
    }
    out = ["-- aiortc.rate: inline integer literals, observed on fresh objects"]
    for k, v in vals.items():
        if isinstance(v, bool) or not isinstance(v, int) or v < 0:
            raise ValueError(f"{k} is not a non-negative int: {v!r}")
        out.append(f"def {k} : Nat := {v}")
    out.append("")
    return out


UNITS = {"RateLit": unit_ratelit}
