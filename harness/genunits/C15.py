"""Extra regenerated constants for C15: integer literals that rate.py keeps inline (not as module
attributes), read off freshly constructed objects of the working tree."""
from __future__ import annotations


def unit_ratelit() -> list[str]:
    from aiortc.rate import AimdRateControl, RemoteBitrateEstimator

    est = RemoteBitrateEstimator()
    rc = AimdRateControl()
    vals = {
        # RemoteBitrateEstimator.__init__: RateCounter(1000, 8000)
        "RATE_WINDOW_MS": est.incoming_bitrate._window_size,
        "RATE_SCALE": est.incoming_bitrate._scale,
        # AimdRateControl.feedback_interval()
        "RATE_FEEDBACK_INTERVAL_MS": rc.feedback_interval(),
        # AimdRateControl.__init__
        "RATE_INITIAL_BITRATE": rc.current_bitrate,
        "RATE_INITIAL_THROUGHPUT": rc.latest_estimated_throughput,
        "RATE_RTT_MS": rc.rtt,
    }
    # _clamp_bitrate(new, 0) with current_bitrate = 0  ==  min(new, int(1.5*0) + offset)
    rc2 = AimdRateControl()
    rc2.current_bitrate = 0
    vals["RATE_CLAMP_OFFSET"] = rc2._clamp_bitrate(10 ** 12, 0)
    out = ["-- aiortc.rate: inline integer literals, observed on fresh objects"]
    for k, v in vals.items():
        if isinstance(v, bool) or not isinstance(v, int) or v < 0:
            raise ValueError(f"{k} is not a non-negative int: {v!r}")
        out.append(f"def {k} : Nat := {v}")
    out.append("")
    return out


UNITS = {"RateLit": unit_ratelit}
