"""Write /verif/MANIFEST.json from the table below (python -m harness.mkmanifest)."""
import json
import os

VERIF = os.path.dirname(os.path.dirname(os.path.abspath(__file__)))

BASE_NOTE = (
    "Trusted: Lean 4.33.0 kernel; axioms propext/Classical.choice/Quot.sound only (audited with #print axioms each run, "
    "no sorry/native_decide/bv_decide/axiom); harness/gen.py (regenerates lean/Aiortc/Gen from the working tree); the "
    "correspondence harness (compiled Lean model driver vs the real Python code on the same inputs); Python built-ins "
    "modelled by their documented semantics. "
)

def claimed():
    """Every harness/props/Cnn.py that defines MANIFEST = {technique, text, note, design_ref} is claimed."""
    import importlib
    out = {}
    d = os.path.join(VERIF, "harness", "props")
    for f in sorted(os.listdir(d)):
        if f.startswith("C") and f.endswith(".py"):
            mod = importlib.import_module("harness.props." + f[:-3])
            m = getattr(mod, "MANIFEST", None)
            if m:
                out[f[:-3]] = (m["technique"], m["text"], m["note"], m.get("design_ref", "DESIGN.md §2 " + f[:-3]))
    return out


CLAIMED = claimed()

NOT_YET = {}

ALL = [f"C{i:02d}" for i in range(1, 20)]


def main():
    checks = []
    for pid in ALL:
        if pid not in CLAIMED:
            continue
        tech, text, note, ref = CLAIMED[pid]
        checks.append({
            "property_id": pid,
            "quick_cmd": f"./check {pid} --tier quick",
            "thorough_cmd": f"./check {pid} --tier thorough",
            "evidence_file": f"evidence/{pid}.json",
            "replay_cmd_template": f"./check {pid} --replay {{path}}",
            "engine": "lean-model",
            "level_claimed": {"category": "proof", "text": text, "design_ref": ref},
            "level_note": BASE_NOTE + note,
            "technique": tech,
        })
    na = []
    for pid in ALL:
        if pid in CLAIMED:
            continue
        na.append({"property_id": pid, "reason": NOT_YET.get(pid, "not claimed yet: Lean model / theorems / correspondence for this property are not finished (see DESIGN.md status table); no weaker technique is substituted")})
    m = {
        "version": 1,
        "setup_cmd": "./setup.sh",
        "hooks": {
            "guard": "AIORTC_VERIF",
            "enable": "none needed: all instrumentation is installed by the harness at run time (module globals / bound methods), no source hooks",
            "baseline_off_cmd": "cd /repo && /venv/bin/python -m pytest -ra -q -p no:cacheprovider --timeout=900 --continue-on-collection-errors",
            "source_commits": [],
            "add_only": True,
        },
        "engines": [
            {"name": "lean-model", "path": "lean", "serves_properties": sorted(CLAIMED.keys()),
             "kind_free_text": "Lean 4 lake project: Gen (regenerated from /repo), Model (executable, Mathlib-free), Props (theorems), Driver (compiled line-protocol driver)"},
            {"name": "py-harness", "path": "harness", "serves_properties": sorted(CLAIMED.keys()),
             "kind_free_text": "Python: Gen translator, correspondence (model vs implementation), implementation-side oracles, evidence/replay writer"},
        ],
        "checks": checks,
        "not_applicable": na,
        "notes": "Every check: regenerate Gen from /repo -> lake build Props.Cnn -> axiom audit -> correspondence -> oracle on the implementation. See DESIGN.md.",
    }
    with open(os.path.join(VERIF, "MANIFEST.json"), "w") as f:
        json.dump(m, f, indent=1)
        f.write("\n")


if __name__ == "__main__":
    main()
