LEAN_TARGETS = ["Aiortc.Model.Sctp.Endpoint"]
DRIVERS = ["Sctp"]
def components(tier):
    return []
