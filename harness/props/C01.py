"""C01 — reliable data channels: every message exactly once, intact, in order.

Components
  world : two REAL endpoints under recorded fault schedules, replayed step by step through the Lean endpoint
          automaton (harness/sctp_check.py) + the C01 oracle on the real `message` events, evaluated at the final
          state AND at every delivery instant (global step stamps).
  recv  : function-level correspondence of the REAL `_receive_data_chunk` (`_mark_received`, `InboundStream.add_chunk`,
          `pop_messages`; `_receive` stubbed) with the pure Lean receiver `Recv.step` that the theorems are about, over
          arbitrary arrival lists (loss / duplication / reordering) of sender-shaped chunks and over malformed chunks;
          oracle = the C01 statement on what the real method handed to `_receive`.
  send  : REAL `_send` (`_transmit` stubbed) vs `Tx.sendAll`; oracle = fragments_join / flags / TSN / SSN / size.
  ppid  : REAL `_data_channel_send` + `_data_channel_receive` vs `encodeUser` / `decodeUser`; oracle = round trip.
"""
from __future__ import annotations

import atexit
import collections
import itertools
import types

from harness.check import Component
from harness import sctp_check as S
from harness import sctp_world as W

LEAN_TARGETS = ["Aiortc.Props.C01"]
DRIVERS = ["Sctp", "SctpRecv"]
MANIFEST = {
    "technique": "Lean 4 theorems (induction over arbitrary arrival lists; refinement invariant between sender plan and receiver state) "
                 "about executable line-by-line models + function-level differential runs of the real receive/send/PPID code against "
                 "the pure model + step-by-step trace correspondence of two real endpoints with the Lean endpoint automaton + "
                 "implementation-side oracle at every delivery instant",
    "text": "Proved in Lean for ALL initial TSNs, message sequences and arrival lists (no sorry, core axioms only): `_send` fragmentation "
            "(join = message, B exactly first / E exactly last, U iff unordered, TSNs consecutive mod 2^32, same sid/ssn/ppid, <= 1200 bytes: "
            "fragments_shape/_flags/_join/_size, enqueue_counters, sendAll_wire); `_mark_received` accepts every TSN exactly once inside "
            "the 2^31 sliding window, for any origin (markReceived_invariant/_once, accepted_exactly_once); `pop_messages` never hangs and "
            "every yield is a TSN-consecutive B..first-E run that leaves the queue (pop_sound, pop_never_hangs); `add_chunk` never asserts on "
            "a new TSN and keeps the queue sorted and duplicate-free (addChunk_no_assert, addChunk_keeps_sorted); end to end over an ARBITRARY "
            "arrival list of sender chunks (= any loss/duplication/reordering/delay, every observation instant): the pure receiver never "
            "raises (C01_receiver_total), deliveries on an ordered stream are a prefix of the sends (C01_ordered), on any stream the images of "
            "a duplicate-free list of sent-message indices hence a sub-multiset (C01_unordered, C01_unordered_count), every delivery equals "
            "a sent message in stream id, PPID and payload (C01_no_crosstalk); chunk-level corollary with plain hypotheses (C01_chunks); "
            "every prefix of the arrivals yields a prefix of the final deliveries (C01_every_instant); application level incl. str/bytes "
            "type (C01_app_ordered, appView_userMsgs); PPID mapping round trip for str/bytes incl. empty (ppid_roundtrip); the pure receiver "
            "step refines the endpoint automaton's receiveData; dcReceive of a user message emits ONE message event with decodeUser's value "
            "followed only by the outputs of a re-entrant application handler, and changes nothing but what one handler run may change "
            "(a reaction consumed, chans[i].buffered, one dcQueue entry, one flush task; rx/inStreams/sackNeeded/dataChannels/tx equal); "
            "echo handlers preserve order: k delivered messages consume the first k armed handlers and append their send()s to dcQueue in "
            "delivery order (endpoint_receive_refines, endpoint_dcReceive_user, reactFrame_spelled, echo_preserves_order). The sliding-window versions are kept as defs (C01_ordered_sliding, C01_unordered_sliding); proved: "
            "their restriction to < 2^31 chunks per association (C01_ordered_partial, C01_unordered_partial).",
    "note": "The theorems are about the pure functions `Tx.sendAll`, `Recv.step/run`, `encodeUser/decodeUser` (Model/Sctp/Recv.lean), which call "
            "the shared models `Tx.enqueue`, `markReceived`, `InStream.addChunk/popMessages`.  They are tied to the real code by the "
            "function-level components recv/send/ppid and, for the whole endpoint (handshake, SACK/retransmission, DCEP, bundling, "
            "timers), by the world trace correspondence.  That retransmission eventually delivers everything is C02, not C01.",
    "design_ref": "DESIGN.md §2 C01, §2.0",
}
ASSUMPTIONS = [
    "C01_* (end to end): fewer than 2^31 DATA chunks are sent during the association (any initial TSN, so the 32-bit TSN may wrap); "
    "markReceived_once itself needs only the sliding window: fewer than 2^31 TSNs between the first missing TSN and an arriving chunk",
    "C01_* (ordered streams): SsnWin — a fragment of an ordered message arrives only while fewer than 2^15 messages separate that message "
    "from the number of messages already delivered on its stream (16-bit SSN; implied by `at most 2^15 ordered messages per stream`, "
    "which C01_chunks assumes); outside this window the real code (like RFC 4960) can deliver out of order",
    "the arrival list contains only DATA chunks the peer's `_send` produced for reliable channels (nothing forged: DTLS C04 + CRC C08), "
    "and no FORWARD TSN / RE-CONFIG is processed in between: associations that also carry partially reliable channels or close "
    "channels are covered by the world trace correspondence + oracle (profile mixed-pr), not by the end-to-end theorems",
    "C01_ordered is stated for streams all of whose messages are ordered (an ordered channel incl. its DCEP OPEN); on an unordered "
    "channel's stream (ordered OPEN + unordered user messages) only C01_unordered / C01_no_crosstalk are claimed, as in the property",
    "ppid_roundtrip: a str payload is valid UTF-8 (always true for what `str.encode('utf8')` returns)",
]
TRUSTED_EXTRA = [
    "the pure receiver `Recv.step` is proved to be what one `receiveData` call of Model/Sctp/Endpoint.lean computes "
    "(endpoint_receive_refines) and `dcReceive` on a user message is proved to emit exactly `decodeUser`'s value and to change only what a re-entrant "
    "handler may change, never the receive side (endpoint_dcReceive_user, echo_preserves_order); NOT proved: that `deliver` of DCEP control messages (OPEN/ACK → flush/transmit) leaves "
    "`rx`/`inStreams` untouched, i.e. the multi-call refinement of the endpoint automaton — covered by the world traces only",
    "the sender is abstracted to the sequence of its `_send` calls: that `_transmit`/retransmission put exactly these chunks (unchanged "
    "wire fields) on the wire is checked by the trace correspondence (datagrams compared as bytes), not proved",
    "DATA chunk wire encoding/decoding is C08's model; DCEP OPEN/ACK handling, channel lookup by stream id and the `message` event "
    "emission are modelled in Endpoint.lean (dcReceive) and only trace-checked",
    "UTF-8 validity of received strings is the model's `utf8Valid` (trace-checked against `bytes.decode`)",
]
RULE = ("world: a case is a recorded schedule (deliver/drop/duplicate/reorder datagrams, fire timers, run tasks, create/send on "
        "channels) over two REAL RTCSctpTransport endpoints under a deterministic runtime; both endpoints' inputs are "
        "replayed through the Lean endpoint automaton (datagrams as raw bytes) and every step's outputs are compared; "
        "distinct = distinct schedule; non-trivial = at least one message was delivered. "
        "recv: a sender plan (1-3 streams, ordered / unordered-with-ordered-OPEN, 1-4 fragments per message, TSN origin biased to the "
        "2^32 wrap, SSN origin biased to the 2^16 wrap) and an arrival list of its chunks with drops, duplicates and bounded or full "
        "shuffles (thorough: all permutations of up to 6 chunks), plus a malformed stream (random flags/ssn/tsn); non-trivial = a message "
        "was delivered. send: message lists with sizes at the 1200-byte fragment boundaries, TSN/SSN origins at the wrap points. "
        "ppid: str/bytes values incl. empty, multi-byte UTF-8, and arbitrary (ppid, payload) pairs incl. invalid UTF-8")


# ---------------------------------------------------------------------------------------------------------
# world (+ every-instant oracle)
# ---------------------------------------------------------------------------------------------------------


class TWorld(W.World):
    """World that stamps every recorded step and every accepted send() with a global step number."""

    last = None

    def __init__(self, case):
        super().__init__(case)
        self.sendlog = []  # (global step, ep, channel index, message)
        TWorld.last = self

    def _after(self, name, inp, exc):
        super()._after(name, inp, exc)
        self.trace[name][-1]["g"] = self.steps
        for i, msg in self.ep[name].reacted:       # send() calls issued from inside an event handler in this step
            self.sendlog.append((self.steps, name, i, msg))

    def apply(self, op):
        if op and op[0] == "send" and op[1] in self.ep and op[2] < len(self.ep[op[1]].channels):
            before = len(self.sent[op[1]].get(op[2], []))
            r = super().apply(op)
            after = self.sent[op[1]].get(op[2], [])
            if len(after) > before:
                self.sendlog.append((self.steps, op[1], op[2], after[-1]))
            return r
        return super().apply(op)


class TRun(S.Run):
    def __init__(self, case, heal=True, heal_steps=6000):
        orig = W.World
        W.World = TWorld
        try:
            super().__init__(case, heal=heal, heal_steps=heal_steps)
        finally:
            W.World = orig
        w = TWorld.last
        TWorld.last = None
        self.sendlog = list(w.sendlog)
        self.deliverlog = [(st["g"], n, ev[1], ev[2]) for n in "AB" for st in w.trace[n] for ev in st["events"]
                           if ev[0] == "message"]


def _trun(case):
    try:
        return TRun(case, heal=case.get("heal", True))
    except Exception as exc:  # harness failure: keep visible
        import traceback
        return "HARNESS-EXC " + type(exc).__name__ + ": " + str(exc)[:300] + " " + traceback.format_exc()[-400:]


def oracle_c01_instants(case, run):
    """At EVERY delivery instant: the messages delivered so far on a reliable channel are a prefix (ordered) / a
    sub-multiset (unordered) of the send() calls made so far on its peer channel."""
    if not hasattr(run, "deliverlog"):
        return None
    for src, i, dst, j in S._pairs(run):
        ch = run.channels[src][i]
        if ch["rtx"] is not None or ch["life"] is not None or ch["negotiated"] or j is None:
            continue
        sends = [(g, m) for g, n, ci, m in run.sendlog if n == src and ci == i]
        got = sorted((g, k, m) for k, (g, n, cj, m) in enumerate(run.deliverlog) if n == dst and cj == j)
        seen = []
        for g, _, m in got:
            seen.append(m)
            sofar = [x for gs, x in sends if gs <= g]
            if ch["ordered"]:
                if [S._rep(x) for x in seen] != [S._rep(x) for x in sofar[:len(seen)]]:
                    return (f"ordered reliable channel id={ch['id']} {src}->{dst}: at global step {g} the {len(seen)} deliveries "
                            f"are not a prefix of the {len(sofar)} messages sent so far")
            else:
                cg = collections.Counter(map(S._rep, seen))
                cs = collections.Counter(map(S._rep, sofar))
                if any(v > cs[k] for k, v in cg.items()):
                    return (f"unordered reliable channel id={ch['id']} {src}->{dst}: at global step {g} a message has been "
                            f"delivered more often than it was sent so far")
    return None


class World(S.WorldComponent):
    name = "world"
    prop = "C01"
    theorems = ["sendAll_wire", "markReceived_once", "pop_sound", "C01_receiver_total", "C01_ordered", "C01_unordered",
                "C01_no_crosstalk", "ppid_roundtrip"]
    ssn_share = 4
    mix = [("early", False, 6), ("ssnwrap", False, 2), ("reliable", False, 2), ("reliable", True, 1), ("reorder-frag", True, 2), ("reorder-frag", False, 1),
           ("reliable-heavy-loss", False, 2), ("clean", False, 1), ("mixed-pr", False, 1), ("lifecycle", False, 1), ("neg-low", False, 3),
           ("reuse", False, 3), ("reuse", True, 1), ("expiry", False, 3), ("strike", False, 3)]
    quick = (75, 240)
    thorough = (360, 500)
    oracles = [S.oracle_no_crash, S.oracle_c01, oracle_c01_instants]

    def impl_many(self, cases):
        from harness.check import case_key
        results = S.pool().map(_trun, cases, chunksize=1)
        outs = []
        for c, r in zip(cases, results):
            if isinstance(r, str):
                outs.append(r)
            else:
                self.runs[case_key(c)] = r
                outs.append(r.expected)
        return outs

    def impl(self, case):
        from harness.check import case_key
        r = _trun(case)
        if isinstance(r, str):
            return r
        self.runs[case_key(case)] = r
        return r.expected


# ---------------------------------------------------------------------------------------------------------
# helpers: a bare real transport
# ---------------------------------------------------------------------------------------------------------


def _transport(tsn=1000):
    from harness import sctp_sim as sim
    ep = sim.Endpoint("A", "controlling", 1, tsn)
    return ep, ep.t, ep.m


def _drive(coro):
    try:
        coro.send(None)
    except StopIteration:
        return
    coro.close()
    raise RuntimeError("handler suspended")


def _hx(b):
    return bytes(b).hex() if b else "-"


# ---------------------------------------------------------------------------------------------------------
# recv: `_receive_data_chunk` vs Recv.step
# ---------------------------------------------------------------------------------------------------------

M32 = 1 << 32
TSN_ORIGINS = [0, 1, M32 - 1, M32 - 2, M32 - 3, M32 - 5, 2**31 - 2, 2**31, 12345]
SSN_ORIGINS = [0, 0, 0, 65535, 65534, 65533, 32767]


def plan_chunks(t0, streams, msgs):
    """Chunks the sender's `_send` would produce.  streams: sid -> (kind, ssn0) with kind "o" (ordered channel) or "u"
    (unordered channel: first message ordered like the DCEP OPEN, the others unordered); msgs: [sid, ppid, nfrag, salt]."""
    ssn = {int(s): v[1] for s, v in streams.items()}
    first = {int(s): True for s in streams}
    tsn = t0
    chunks, plan = [], []
    for sid, ppid, nfrag, salt in msgs:
        kind = streams[str(sid)][0]
        ordered = kind == "o" or first[sid]
        first[sid] = False
        s = ssn[sid] if ordered else 0
        data = b""
        for f in range(nfrag):
            flags = (0 if ordered else 4) | (2 if f == 0 else 0) | (1 if f == nfrag - 1 else 0)
            d = bytes([salt % 256, f, (salt >> 8) % 256])
            data += d
            chunks.append([tsn, sid, s, ppid, flags, d.hex()])
            tsn = (tsn + 1) % M32
        if ordered:
            ssn[sid] = (ssn[sid] + 1) % 65536
        plan.append([sid, ppid, data.hex(), ordered])
    return chunks, plan


class Recv(Component):
    name = "recv"
    theorems = ["markReceived_invariant", "markReceived_once", "addChunk_no_assert", "addChunk_keeps_sorted", "pop_sound",
                "pop_never_hangs", "C01_receiver_total", "C01_ordered", "C01_unordered", "C01_unordered_count", "C01_no_crosstalk",
                "C01_chunks"]

    def corpus(self):
        out = []
        # duplicate of an already delivered out-of-order unordered message; duplicate of the cumulative TSN; SSN wrap
        for t0 in (M32 - 2, 7):
            streams = {"1": ["u", 0], "2": ["o", 65535]}
            msgs = [[1, 50, 1, 1], [2, 50, 1, 2], [1, 53, 1, 3], [2, 51, 2, 4], [1, 53, 2, 5], [2, 53, 1, 6]]
            chunks, plan = plan_chunks(t0, streams, msgs)
            for order in ([2, 2, 0, 1, 0, 1, 7, 3, 4, 4, 3, 5, 6, 7, 5], [7, 5, 6, 4, 3, 2, 1, 0, 0, 7], [0, 1, 2, 3, 4, 5, 6, 7]):
                out.append(self._case(t0, streams, msgs, order))
        # boundary probes of the theorems' hypotheses on the real code (model and code must agree there too):
        # SSN 2^15 ahead of the expected one is delivered at once (SsnWin is necessary); SSN 2^15-1 ahead waits;
        # a TSN 2^31+1 ahead of the cumulative TSN is taken for a duplicate, 2^31-1 ahead is accepted
        out.append({"kind": "raw", "last": 9, "seqs": {}, "chunks": [[40000, 1, 32768, 53, 3, "01"]]})
        out.append({"kind": "raw", "last": 9, "seqs": {}, "chunks": [[40000, 1, 32767, 53, 3, "01"], [10, 1, 0, 53, 3, "02"]]})
        out.append({"kind": "raw", "last": 9, "seqs": {"1": 65535}, "chunks": [[11, 1, 0, 53, 3, "01"], [10, 1, 65535, 53, 3, "02"]]})
        out.append({"kind": "raw", "last": M32 - 1, "seqs": {}, "chunks": [[2**31, 1, 0, 53, 7, "01"], [2**31 - 2, 1, 0, 53, 7, "02"],
                                                                         [2**31 - 1, 1, 0, 53, 7, "03"]]})
        return out

    @staticmethod
    def _case(t0, streams, msgs, order):
        chunks, plan = plan_chunks(t0, streams, msgs)
        return {"kind": "plan", "last": (t0 - 1) % M32, "streams": streams, "msgs": msgs, "order": order}

    def cases(self, rng, tier):
        n = 220 if tier == "quick" else 5000
        out = []
        for _ in range(n):
            t0 = rng.choice(TSN_ORIGINS) if rng.random() < 0.7 else rng.randrange(M32)
            nstreams = rng.choice([1, 2, 2, 3])
            streams = {str(s): [rng.choice("ou"), rng.choice(SSN_ORIGINS)] for s in rng.sample([0, 1, 2, 5], nstreams)}
            for s in streams:
                if streams[s][0] == "u":
                    streams[s][1] = rng.choice([0, 65535])
            msgs = []
            for k in range(rng.randrange(1, 8)):
                sid = int(rng.choice(list(streams)))
                msgs.append([sid, rng.choice([50, 51, 53, 56, 57]), rng.choice([1, 1, 1, 2, 3, 4]), rng.randrange(1, 60000)])
            chunks, _ = plan_chunks(t0, streams, msgs)
            idx = list(range(len(chunks)))
            order = []
            mode = rng.random()
            for i in idx:
                if rng.random() < (0.0 if mode < 0.3 else 0.15):
                    continue  # lost
                order.append(i)
                if rng.random() < 0.15:
                    order.append(i)  # duplicated
            if mode < 0.5:
                rng.shuffle(order)
            else:  # bounded reordering
                for a in range(len(order)):
                    b = min(len(order) - 1, a + rng.randrange(0, 4))
                    order[a], order[b] = order[b], order[a]
            if rng.random() < 0.3:  # late duplicates
                order += [rng.choice(idx) for _ in range(rng.randrange(1, 4))]
            out.append(self._case(t0, streams, msgs, order))
        # malformed stream
        for _ in range(n // 3):
            last = rng.choice(TSN_ORIGINS)
            chunks = []
            for _ in range(rng.randrange(1, 12)):
                chunks.append([(last + rng.choice([-2, -1, 0, 1, 1, 2, 2, 3, 4, 5, 6, 2**31, 2**31 + 1])) % M32, rng.choice([0, 1]),
                               rng.choice([0, 0, 1, 2, 65535]), rng.choice([50, 51, 53]), rng.randrange(8),
                               bytes([rng.randrange(256)]).hex()])
            out.append({"kind": "raw", "last": last, "seqs": {str(s): rng.choice([0, 1, 65535]) for s in rng.sample([0, 1], rng.randrange(0, 3))},
                        "chunks": chunks})
        if tier != "quick":
            # all arrival orders of small plans
            for t0, streams, msgs in [
                (M32 - 2, {"1": ["o", 65535]}, [[1, 51, 2, 1], [1, 53, 1, 2], [1, 51, 2, 3]]),
                (M32 - 1, {"1": ["u", 0], "2": ["o", 0]}, [[1, 50, 1, 1], [2, 51, 1, 2], [1, 53, 2, 3], [2, 53, 1, 4], [1, 53, 1, 5]]),
                (5, {"3": ["u", 0]}, [[3, 50, 1, 1], [3, 53, 3, 2], [3, 51, 1, 3], [3, 51, 1, 4]]),
            ]:
                chunks, _ = plan_chunks(t0, streams, msgs)
                for perm in itertools.permutations(range(len(chunks))):
                    out.append(self._case(t0, streams, msgs, list(perm)))
        return out

    @staticmethod
    def _materialise(case):
        if case["kind"] == "plan":
            chunks, plan = plan_chunks((case["last"] + 1) % M32, case["streams"], case["msgs"])
            seqs = {s: v[1] for s, v in case["streams"].items() if v[1] != 0}
            return [chunks[i] for i in case["order"] if i < len(chunks)], seqs, plan
        return case["chunks"], {s: v for s, v in case.get("seqs", {}).items()}, None

    def model_line(self, case):
        chunks, seqs, _ = self._materialise(case)
        cs = ";".join(",".join(str(x) for x in c) for c in chunks) or "-"
        sq = ",".join(f"{s}={v}" for s, v in seqs.items()) or "-"
        return f"sctprecv run {case['last']} {sq} {cs}"

    def impl(self, case):
        chunks, seqs, _ = self._materialise(case)
        ep, t, m = _transport()
        t._last_received_tsn = case["last"]
        for s, v in seqs.items():
            st = m.InboundStream()
            st.sequence_number = v
            t._inbound_streams[int(s)] = st
        got = []

        async def _receive(stream_id, pp_id, data):
            got.append(f"{stream_id}:{pp_id}:{_hx(data)}")

        t._receive = _receive
        parts = []
        for tsn, sid, ssn, ppid, flags, d in chunks:
            c = m.DataChunk(flags=flags)
            c.tsn, c.stream_id, c.stream_seq, c.protocol, c.user_data = tsn, sid, ssn, ppid, bytes.fromhex(d)
            got.clear()
            try:
                _drive(t._receive_data_chunk(c))
            except AssertionError:
                parts.append("crash AssertionError")
                return "|".join(parts)
            parts.append(",".join(got) or "-")
        streams = "&".join(
            f"{sid}={st.sequence_number}/" + ("+".join(str(c.tsn) for c in st.reassembly) or "-")
            for sid, st in t._inbound_streams.items()) or "-"
        mis = ",".join(str(x) for x in sorted(t._sack_misordered)) or "-"
        dups = ",".join(str(x) for x in t._sack_duplicates) or "-"
        return "|".join(parts) + f"#{t._last_received_tsn};{mis};{dups};{streams}"

    def oracle(self, case, impl_out):
        if case["kind"] != "plan":
            return None
        if "crash" in impl_out or "HARNESS" in impl_out:
            return "exception escaped _receive_data_chunk on sender-produced chunks: " + impl_out[-60:]
        _, _, plan = self._materialise(case)
        body = impl_out.split("#")[0]
        delivered = [x for part in body.split("|") for x in part.split(",") if x != "-" and x]
        by_sid_sent = collections.defaultdict(list)
        for sid, ppid, data, _ in plan:
            by_sid_sent[sid].append(f"{sid}:{ppid}:{data or '-'}")
        by_sid_got = collections.defaultdict(list)
        for d in delivered:
            by_sid_got[int(d.split(":")[0])].append(d)
        # at every instant: check every prefix of the delivery sequence (prefix-closed properties: check the whole)
        for sid, got in by_sid_got.items():
            sent = by_sid_sent.get(sid, [])
            kind = case["streams"].get(str(sid), ["?"])[0]
            cg, cs = collections.Counter(got), collections.Counter(sent)
            for k, v in cg.items():
                if v > cs[k]:
                    return f"stream {sid}: message {k[:40]} delivered {v} times but sent {cs[k]} times"
            if kind == "o" and got != sent[:len(got)]:
                return f"ordered stream {sid}: the {len(got)} deliveries are not a prefix of the {len(sent)} messages sent"
        return None

    def label(self, case, impl_out):
        if case["kind"] == "raw":
            return "raw-crash" if "crash" in impl_out else "raw"
        body = impl_out.split("#")[0]
        n = sum(1 for part in body.split("|") for x in part.split(",") if x != "-" and x)
        total = len(case["msgs"])
        wrap = "wrap" if case["last"] >= M32 - 8 else "nowrap"
        return f"plan-{wrap}-" + ("all" if n == total else "some" if n else "none")

    def nontrivial(self, case, impl_out):
        return ":" in impl_out.split("#")[0]

    def shrink(self, case):
        if case["kind"] == "plan":
            o = case["order"]
            for i in range(len(o)):
                yield dict(case, order=o[:i] + o[i + 1:])
        else:
            c = case["chunks"]
            for i in range(len(c)):
                if len(c) > 1:
                    yield dict(case, chunks=c[:i] + c[i + 1:])


# ---------------------------------------------------------------------------------------------------------
# send: `_send` vs Tx.sendAll
# ---------------------------------------------------------------------------------------------------------

SIZES = [1, 2, 100, 1199, 1200, 1201, 2399, 2400, 2401, 3600, 3601, 5000]


def _payload(size, salt):
    return bytes((salt * 31 + i * 7 + (i >> 8)) % 256 for i in range(size))


class Send(Component):
    name = "send"
    theorems = ["fragments_shape", "fragments_flags", "fragments_join", "fragments_size", "enqueue_counters", "sendAll_wire"]

    def cases(self, rng, tier):
        n = 60 if tier == "quick" else 1500
        out = []
        for _ in range(n):
            tsn = rng.choice(TSN_ORIGINS) if rng.random() < 0.7 else rng.randrange(M32)
            seqs = {str(s): rng.choice([65535, 65534, 1, 7]) for s in rng.sample([0, 1, 2, 9], rng.randrange(0, 3))}
            msgs = []
            for _ in range(rng.randrange(1, 6)):
                size = rng.choice(SIZES) if rng.random() < 0.9 else rng.choice([0, 65535, 65536, 20000])
                msgs.append([rng.choice([0, 1, 2, 9]), rng.choice([50, 51, 53, 56, 57]), int(rng.random() < 0.6), size, rng.randrange(1000)])
            out.append({"tsn": tsn, "seqs": seqs, "msgs": msgs})
        return out

    def model_line(self, case):
        ms = ";".join(f"{sid},{ppid},{o},{_hx(_payload(size, salt))}" for sid, ppid, o, size, salt in case["msgs"])
        sq = ",".join(f"{s}={v}" for s, v in case["seqs"].items()) or "-"
        return f"sctprecv send {case['tsn']} {sq} {ms}"

    def impl(self, case):
        ep, t, m = _transport(case["tsn"])
        t._local_tsn = case["tsn"]
        for s, v in case["seqs"].items():
            t._outbound_stream_seq[int(s)] = v

        async def _transmit():
            return None

        t._transmit = _transmit
        for sid, ppid, o, size, salt in case["msgs"]:
            _drive(t._send(sid, ppid, _payload(size, salt), ordered=bool(o)))
        cs = ";".join(f"{c.tsn},{c.stream_id},{c.stream_seq},{c.protocol},{c.flags},{_hx(c.user_data)}" for c in t._outbound_queue) or "-"
        sq = ",".join(f"{k}={v}" for k, v in t._outbound_stream_seq.items()) or "-"
        return f"{cs}#{t._local_tsn}#{sq}"

    def oracle(self, case, impl_out):
        if impl_out.startswith("HARNESS"):
            return impl_out[:200]
        body, tsn_after, _ = impl_out.split("#")
        chunks = [] if body == "-" else [c.split(",") for c in body.split(";")]
        pos = 0
        tsn = case["tsn"]
        ssn = {int(s): v for s, v in case["seqs"].items()}
        for sid, ppid, o, size, salt in case["msgs"]:
            data = _payload(size, salt)
            n = -(-size // 1200)
            mine = chunks[pos:pos + n]
            pos += n
            if len(mine) != n:
                return f"message of {size} bytes: expected {n} fragments"
            joined = b"".join(b"" if c[5] == "-" else bytes.fromhex(c[5]) for c in mine)
            if joined != data:
                return f"message of {size} bytes on stream {sid}: the fragments' concatenation is not the message"
            expect_ssn = ssn.get(sid, 0) if o else 0
            for i, c in enumerate(mine):
                fl = int(c[4])
                if bool(fl & 2) != (i == 0) or bool(fl & 1) != (i == n - 1) or bool(fl & 4) != (not o) or fl >= 8:
                    return f"message of {size} bytes: fragment {i}/{n} has flags {fl}"
                if int(c[0]) != tsn:
                    return f"message of {size} bytes: fragment {i} has TSN {c[0]}, expected {tsn}"
                tsn = (tsn + 1) % M32
                if int(c[1]) != sid or int(c[3]) != ppid or int(c[2]) != expect_ssn:
                    return f"message of {size} bytes: fragment {i} has sid/ssn/ppid {c[1]}/{c[2]}/{c[3]}, expected {sid}/{expect_ssn}/{ppid}"
                if (0 if c[5] == "-" else len(c[5]) // 2) > 1200:
                    return f"fragment of more than 1200 bytes"
            if o:
                ssn[sid] = (ssn.get(sid, 0) + 1) % 65536
        if pos != len(chunks):
            return "more chunks than fragments"
        if int(tsn_after) != tsn:
            return f"_local_tsn is {tsn_after} after sending, expected {tsn}"
        after = {} if impl_out.split("#")[2] == "-" else {int(k): int(v) for k, v in (x.split("=") for x in impl_out.split("#")[2].split(","))}
        for sid, v in ssn.items():
            if after.get(sid, 0) != v:
                return f"stream {sid}: next stream sequence number is {after.get(sid, 0)} after sending, expected {v} (16-bit serial)"
        return None

    def label(self, case, impl_out):
        mx = max(s for _, _, _, s, _ in case["msgs"])
        return ("wrap-" if case["tsn"] >= M32 - 8 else "") + ("multi" if mx > 1200 else "single")


# ---------------------------------------------------------------------------------------------------------
# ppid: `_data_channel_send` / `_data_channel_receive`
# ---------------------------------------------------------------------------------------------------------

STRS = ["", "a", "é", "日本語", "🙂", "\x00", "x" * 1300, "aࠀ￿\U00010000"]
BINS = [b"", b"\x00", b"a", bytes(range(256)), b"\xff\xfe", b"\xc3", b"z" * 1201]
RAW = [b"", b"\x00", b"\xc3\xa9", b"\xc3", b"\xed\xa0\x80", b"\xf4\x90\x80\x80", b"\xe0\x80\x80", b"\xc0\xaf", b"abc", b"\xf0\x9f\x99\x82",
       b"\x03" + b"\x00" * 11, b"\x02", b"\x03"]


class Ppid(Component):
    name = "ppid"
    theorems = ["ppid_roundtrip", "encodeUser_nonempty", "decodeUser_dcep"]

    def cases(self, rng, tier):
        out = [{"op": "rt", "s": 1, "hex": _hx(s.encode("utf8"))} for s in STRS]
        out += [{"op": "rt", "s": 0, "hex": _hx(b)} for b in BINS]
        for p in (50, 51, 52, 53, 54, 56, 57, 0, 49):
            for r in RAW:
                out.append({"op": "dec", "ppid": p, "hex": _hx(r)})
        n = 30 if tier == "quick" else 2000
        for _ in range(n):
            b = bytes(rng.choice([0, 0x41, 0x7f, 0x80, 0xbf, 0xc2, 0xdf, 0xe0, 0xed, 0xef, 0xf0, 0xf4, 0xf5, 0xa0, 0x9f, 0x90, 0x8f])
                      for _ in range(rng.randrange(0, 6)))
            out.append({"op": "dec", "ppid": rng.choice([51, 51, 53, 56, 57]), "hex": _hx(b)})
            out.append({"op": "rt", "s": 0, "hex": _hx(b)})
        return out

    def model_line(self, case):
        if case["op"] == "rt":
            return f"sctprecv rt {case['s']} {case['hex']}"
        return f"sctprecv dec {case['ppid']} {case['hex']}"

    @staticmethod
    def _recv(t, ppid, data):
        got = []
        ch = types.SimpleNamespace(emit=lambda name, msg: got.append(msg) if name == "message" else None,
                                   readyState="open", _setReadyState=lambda s: None)
        t._data_channels[7] = ch
        _drive(t._data_channel_receive(7, ppid, data))
        if not got:
            return "-"
        if len(got) > 1:
            return "several"
        msg = got[0]
        return ("s:" + _hx(msg.encode("utf8"))) if isinstance(msg, str) else ("b:" + _hx(msg))

    def impl(self, case):
        ep, t, m = _transport()
        raw = b"" if case["hex"] == "-" else bytes.fromhex(case["hex"])
        if case["op"] == "dec":
            return self._recv(t, case["ppid"], raw)
        value = raw.decode("utf8") if case["s"] else raw
        ch = types.SimpleNamespace(_addBufferedAmount=lambda n: None)
        t._data_channel_send(ch, value)
        _, ppid, user = t._data_channel_queue[-1]
        return f"{ppid}:{_hx(user)}>" + self._recv(t, ppid, user)

    def oracle(self, case, impl_out):
        if case["op"] != "rt":
            return None
        want = ("s:" if case["s"] else "b:") + case["hex"]
        if not impl_out.endswith(">" + want):
            return f"send({'str' if case['s'] else 'bytes'} {case['hex'][:20]}) is received as {impl_out.split('>')[-1][:40]}"
        user = impl_out.split(">")[0].split(":")[1]
        if user == "-":
            return "an empty user_data is handed to _send (no DATA chunk would carry it)"
        return None

    def label(self, case, impl_out):
        return case["op"] + "-" + impl_out.split(">")[-1][:1]


def _close_pool():
    # shut the shared worker pool down before interpreter teardown (avoids a noisy Pool.__del__ traceback)
    p = getattr(S, "_POOL", None)
    if p is not None:
        S._POOL = None
        p.terminate()
        p.join()


atexit.register(_close_pool)


def components(tier):
    return [World(), Recv(), Send(), Ppid()]


def classify_finding(finding, comp_name, case, what):
    return False
