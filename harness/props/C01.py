"""C01 — reliable data channels: every message exactly once, intact, in order."""
from harness import sctp_check as S

LEAN_TARGETS = ["Aiortc.Props.C01"]
DRIVERS = ["Sctp"]
RULE = ("a case is a recorded schedule (deliver/drop/duplicate/reorder datagrams, fire timers, run tasks, create/send on "
        "channels) over two REAL RTCSctpTransport endpoints under a deterministic runtime; both endpoints' inputs are "
        "replayed through the Lean endpoint automaton (datagrams as raw bytes) and every step's outputs are compared; "
        "distinct = distinct schedule; non-trivial = at least one message was delivered")


class World(S.WorldComponent):
    name = "world"
    prop = "C01"
    theorems = ["fragments_join", "markReceived_once", "pop_sound", "C01_ordered", "C01_unordered"]
    mix = [("reliable", False, 2), ("reliable", True, 1), ("reorder-frag", True, 2), ("reorder-frag", False, 1),
           ("reliable-heavy-loss", False, 2), ("clean", False, 1), ("mixed-pr", False, 1)]
    quick = (32, 260)
    thorough = (300, 500)
    oracles = [S.oracle_no_crash, S.oracle_c01]


def components(tier):
    return [World()]


def classify_finding(finding, comp_name, case, what):
    return False
