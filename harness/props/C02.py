"""C02 — data channel traffic always drains (no stall after any fault history)."""
from harness import sctp_check as S

LEAN_TARGETS = ["Aiortc.Props.C02"]
DRIVERS = ["Sctp"]
RULE = ("a case is a recorded fault schedule over two REAL endpoints followed by the canonical fault-free continuation "
        "(run tasks, deliver FIFO, fire the earliest timer when idle) and a probe message per open channel; endpoint "
        "traces are replayed through the Lean automaton; distinct = distinct schedule; non-trivial = a message was delivered")


class World(S.WorldComponent):
    name = "world"
    prop = "C02"
    theorems = ["flight_accounting", "timer_armed", "C02_drains_partial"]
    mix = [("reliable-heavy-loss", False, 3), ("reliable", False, 2), ("reliable-heavy-loss", True, 1), ("mixed-pr", False, 2)]
    quick = (32, 300)
    thorough = (300, 600)
    oracles = [S.oracle_no_crash, S.oracle_c02, S.oracle_recovers]


def components(tier):
    return [World()]


def classify_finding(finding, comp_name, case, what):
    return False
