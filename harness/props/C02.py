"""C02 — data channel traffic always drains (no stall or deadlock after any fault history).

Two things are checked on every case (a recorded fault schedule over two REAL endpoints, then the canonical
fault-free continuation and a probe message per open channel):
  * the trace correspondence of harness/sctp_check.py (every output of both real endpoints, step by step, against the
    compiled Lean automaton whose sender functions Props/C02.lean is about), and
  * oracles on the real run: C02 itself (quiescent, bufferedAmount 0, every reliable message delivered, probes
    delivered), no exception escapes a handler, and — new here — the *internal* invariants that Props/C02.lean proves
    for every reachable sender state, evaluated on the real RTCSctpTransport after every single step."""
from __future__ import annotations

from harness import sctp_check as S
from harness import sctp_world as W

LEAN_TARGETS = ["Aiortc.Props.C02", "Aiortc.Props.C02Drain", "Aiortc.Props.C02DrainPR"]
AUDIT_PROPS = ["C02", "C02Drain", "C02DrainPR"]
DRIVERS = ["Sctp"]
MANIFEST = {
    "technique": "Lean 4 invariant / induction proofs over the executable line-by-line model of the SCTP send path "
                 "(Model/Sctp/Outbound.lean) and of _mark_received / _send_sack; liveness as a progress theorem on the model's own "
                 "sender and receiver functions joined by a lossless FIFO channel; trace correspondence of the compiled endpoint "
                 "automaton against two real endpoints under recorded fault schedules; implementation-side oracles incl. the proved "
                 "invariants evaluated on the real transport's private state after every step",
    "text": "Props/C02.lean proves, for EVERY sequence of sender operations (_send; SACK = _receive_sack_chunk + flushed _sends + "
            "_transmit; T3 expiry; a queued _transmit; with arbitrary SACK contents, clock values and message parameters incl. partial "
            "reliability): (a) flight_accounting: _flight_size = sum of _book_size over the chunks of _sent_queue counted in flight, queued "
            "chunks are not counted, abandoned chunks are neither counted nor marked; each of enqueue/transmit/receiveSack/t3Expired/"
            "maybeAbandon/updateAdvAck preserves it; sent queue empty => flight 0; the saturating subtraction never truncates. "
            "(b) timer_armed: outstanding data => T3 armed or a _transmit pending; FORWARD TSN waiting => _transmit pending; data queued "
            "=> something outstanding or a _transmit pending (transmit_no_stall: the pinned code's stall state is unreachable). "
            "(c) t3_progress: after _t3_expired flight = 0 < cwnd = 1200 and the queued _transmit emits the earliest outstanding "
            "(non-abandoned) chunk before any other DATA chunk and re-arms T3; a waiting FORWARD TSN goes out first and arms T3. "
            "(d) _receive_sack_chunk never raises (IndexError branch unreachable: loss implies a non-empty sent queue) and never "
            "hangs; the while loop of _transmit never exhausts its fuel; all other loops are structural recursions. "
            "(e) sack_describes_misordered: the gap blocks of _send_sack cover exactly the offsets of _sack_misordered (offsets <= 65535, "
            "<= 296 blocks) and the sender's `seen` set is exactly their expansion. "
            "(f) C02_drains_partial on the Tx/Rx pair with a lossless in-order channel: the canonical continuation only comes to rest "
            "in a drained state (nothing outstanding, queued, in flight or armed), the sender and receiver invariants hold after "
            "every number of steps of it, and from every coherent state with an empty "
            "network one epoch (T3, _transmit, burst delivered, first SACK back) strictly advances the sender's cumulative ack within "
            "3 + burst-length steps, for any flags / miss counters / cwnd / fast-recovery state and any receiver holes; "
            "receiver_invariant: the receiver half of that coherence hypothesis holds after every arrival sequence. "
            "(g) Props/C02Drain.lean (reliable traffic, one direction, the abstract Tx/Rx pair `Link`): C02_coherence_preserved / "
            "C02_reachable_coherent: the coherence invariant Coh (sender invariants; lastSacked = T b a, sentQ ++ outQ carry the consecutive "
            "TSNs T b (a+1).., localTsn follows; receiver's cumulative TSN T b r with a <= r <= a + |sentQ|, misordered TSNs in "
            "(r, a + |sentQ|]; every DATA chunk in flight carries a transmitted TSN, every SACK in flight a cumulative TSN <= r) is "
            "preserved by EVERY move of the two-sided system whose network may deliver any datagram in flight (reorder), drop or duplicate "
            "it, while T3 may fire, a _transmit task may run and the application may send reliable messages at any time; hence every "
            "reachable state is coherent (C02_ahead_derived: the facts C02_drains_partial assumed). C02_strike_needs_new_gap_ack: whatever "
            "a SACK's gap blocks say, _receive_sack_chunk either leaves the outstanding chunks exactly as they were or newly gap-acks a "
            "chunk behind every chunk it strikes. C02_honest_sack: the SACK _send_sack builds from a coherent receiver state is sound "
            "and complete below the highest TSN it reports, also when it is truncated at 296 blocks / 16-bit offsets "
            "(C02_honest_sack_exact: exact when <= 296 chunks are outstanding). C02_step_decreases: every non-T3 step of the canonical "
            "continuation keeps coherence and the honest-SACK invariant Hon (the h SACKs that were in flight when the continuation "
            "started are arbitrary, all later ones form a monotone chain of sound SACKs) and strictly decreases "
            "phi2 = 2|toRx| + |toTx| + pending + 2 (flags + n S2), S2 = h + 2n while old SACKs are in flight, afterwards the total "
            "weight of the outstanding chunks (0 gap-acked and really received, 1 not gap-acked, 2 gap-acked but not safe): a chunk "
            "the receiver has is never struck again, so at most h + 2n SACKs strike between two T3 expiries. C02_network_empties, "
            "C02_epoch_acks: every T3 epoch cumulatively acks at least one more chunk. "
            "C02_drains_from_coherent: from EVERY coherent state the continuation reaches within Link.drainBound2 steps "
            "(2|toRx| + |toTx| + 1 + 2 (n + n (|toTx| + 2n)) + n (2 + 2 (n + 2 n^2)) + 2, n = |sentQ| + |outQ|) a state with "
            "sentQ = outQ = [], flight = 0, network empty, nothing pending, T3 off, and the receiver's cumulative TSN = old lastSacked + n "
            "(every chunk delivered). C02_drains_abstract: composed — fresh pair, ANY finite history of such moves, then the "
            "continuation drains within the bound and the receiver's cumulative TSN covers every chunk the application ever queued. "
            "(h) Props/C02DrainPR.lean lifts the restriction to reliable sends (system PLink: the model's Tx, the model's receiver on Rx = "
            "_mark_received + the cumulative-TSN part of _receive_forward_tsn_chunk (C02PR_rxFwd_model), DATA and FORWARD TSN chunks and "
            "SACKs in flight; moves as before with ANY max_retransmits / lifetime, clock ticks expire lifetimes, so _maybe_abandon, "
            "_update_advanced_peer_ack_point and FORWARD TSN occur in the history and in the continuation). "
            "C02PR_coherence_preserved / C02PR_reachable_coherent: CohP (lastSacked = T b k, advanced peer ack point T b f, k <= f, "
            "FORWARD TSN needed iff k < f, sentQ ++ outQ carry T b (f+1).., receiver at T b r with k <= r <= f + |sentQ|, every FORWARD "
            "TSN in flight <= T b f, every SACK <= T b r, a needed FORWARD TSN is scheduled or covered by T3) is preserved by EVERY "
            "move. C02PR_step_decreases: every non-T3 step of the continuation strictly decreases phi3, which also pays for the "
            "FORWARD TSN ping-pong of the repeat rule (a SACK behind the ack point makes _receive_sack_chunk re-send the FORWARD TSN; "
            "SACK weight 1+2N at/beyond the ack point, 3+2N behind; the ack point only moves when a chunk leaves the queues). "
            "C02PR_epoch: from a quiet state with the cumulative ack behind the ack point (FORWARD TSN or its SACK lost) or something "
            "outstanding, T3 + _transmit put a FORWARD TSN for the current ack point or the first outstanding chunk into flight, and "
            "when the network is next empty the cumulative ack has advanced. C02PR_drains_from_coherent / C02PR_drains_abstract: after "
            "ANY finite history (reliable and partially reliable sends mixed) the continuation reaches within PLink.drainBound steps "
            "(polynomial: degree 4 in the TSNs not yet cumulatively acked) a state with queues and network empty, nothing in flight, "
            "T3 off, no FORWARD TSN pending or needed, lastSacked = advAck = receiver's cumulative TSN = last TSN assigned. "
            "C02PR_only_pr_abandoned: in a queue of whole messages _maybe_abandon marks only chunks that have max_retransmits or a "
            "lifetime. C02PR_reliable_received: every chunk of every RELIABLE message the history queued reached the receiver as a "
            "DATA chunk (ghost list got); abandoned ones may have been skipped. C02PR_drains_both_directions: the model's endpoints "
            "never bundle (one packet per chunk), so an association is the product of two such links; any history on either, then "
            "both step: both drain within the larger bound.",
    "note": "C02_drains (two full endpoints, every adversarial history, bounded drain, bufferedAmount 0, everything delivered) is stated "
            "as a def and NOT proved. C02_drains_abstract proves it for the abstraction `Link` of ONE direction of reliable traffic "
            "(the model's own Tx and Rx functions, sendSack's gap blocks, DATA chunks and SACKs as separate datagram multisets) with a "
            "polynomial bound; C02PR_drains_abstract / C02PR_reliable_received / C02PR_drains_both_directions extend it to partially "
            "reliable traffic (FORWARD TSN at sender and receiver) and to both directions as a product of two links. Still open between "
            "them and C02_drains: the two halves of an endpoint share a clock, a task queue and the SACK-needed flag (here they are "
            "independent, every chunk is answered by a SACK at once, one chunk per datagram also on reception); the stream part of "
            "FORWARD TSN (pruning and re-sequencing of inbound streams) is outside, only its cumulative-TSN part is in; "
            "_data_channel_flush / bufferedAmount / "
            "dcQueue; reassembly and delivery of messages to the application (the theorems end at the set of TSNs received); "
            "handshake, shutdown, reconfig, and the endpoint glue Endpoint.step. Those are covered only by the trace correspondence plus "
            "the drain / probe oracles on the real endpoints.",
    "design_ref": "DESIGN.md §2.0, §2 C02",
}
ASSUMPTIONS = [
    "theorems (a)-(d) quantify over sequences of the sender operations SOp of Lemmas/SctpSender.lean, which list everything "
    "Model/Sctp/Endpoint.lean does to the sender fields while the association is up (sendData, receiveSack+flush+transmit, "
    "T3 expiry, the transmit task, ssthresh at INIT, stream-sequence reset); that the real endpoint composes them this way is "
    "checked by the trace correspondence and by the `invariants` oracle, not proved about Endpoint.step; _t3_cancel at "
    "association shutdown is outside (the invariants are about an association that is up)",
    "bounded *time* is bounded number of scheduler steps: RTO values are not modelled (any armed timer may fire)",
    "sack_describes_misordered: misordered TSNs are 32-bit values different from the cumulative TSN, duplicate free, at offsets 1..65535, "
    "and need at most 296 gap blocks (beyond that _send_sack truncates by design, fix 00ebef2)",
    "C02_drains_partial part 3 assumes the start state is coherent (Link.Coherent: sender invariants — proved for all reachable sender "
    "states —, receiver's cumulative TSN equal to or ahead of the sender's by < 2^31 - |misordered|, misordered set consolidated and "
    "duplicate free) with an empty network, no pending task and T3 armed, and that the chunk following the cumulative ack survives T3 "
    "(is not abandoned, i.e. belongs to a reliable channel) and carries a TSN that was assigned, the receiver having only TSNs that "
    "were assigned (Coherent.sent; needed since SACKs beyond the last TSN assigned are ignored); it yields progress of ONE epoch (for reliable traffic the coherence "
    "hypothesis is derived and the epoch lemma is iterated to full drain in Props/C02Drain.lean; with partial reliability it stays "
    "an assumption and one epoch)",
    "the Link abstraction (Props/C02.lean, Props/C02Drain.lean) delivers one direction's DATA chunks and SACKs only; FORWARD TSN is "
    "delivered to the receiver in PLink (Props/C02DrainPR.lean)",
    "Props/C02Drain.lean: reliable traffic only (every send has max_retransmits = None and no lifetime: Fault.Reliable); fewer than "
    "2^31 chunks are ever queued on the association (sentTotal + 1 < 2147483648), so that serial-number comparison of any two TSNs "
    "that occur is comparison of their indices; the receiver's initial cumulative TSN is the sender's initial TSN - 1 (Link.Fresh: what "
    "INIT / INIT-ACK set up); each DATA chunk and each SACK travels in its own datagram (no bundling); the receiver answers every "
    "DATA chunk with a SACK at once (Link.deliverData; the real endpoint sets a flag and sends the SACK at the end of the datagram); "
    "bounded time = bounded number of steps of Link.step (drainBound2: cubic in |sentQ| + |outQ|, linear in the datagrams in flight)",
    "Props/C02DrainPR.lean: no restriction on the sends; still fewer than 2^31 chunks ever queued; PLink.Fresh additionally has "
    "advAck = lastSacked; every DATA and every FORWARD TSN chunk is answered by a SACK at once (both handlers set _sack_needed); the "
    "receiver side of FORWARD TSN is its cumulative-TSN part (rxFwdTsn = the Rx component of Model/Sctp/Forward.lean rxFwd); `got` "
    "(TSNs received as DATA) and `queuedBy` (chunks queued by the history) are ghost notions of the abstract system; "
    "C02PR_drains_both_directions treats the two directions of an association as independent links (no bundling in the model's "
    "endpoints; no shared state between an endpoint's sender half and receiver half in the abstraction)",
]
TRUSTED_EXTRA = [
    "Model/Sctp/Outbound.lean, Inbound.lean, Endpoint.lean are line-by-line models, trusted up to the trace correspondence "
    "(thousands of steps of two real endpoints replayed through the compiled automaton, outputs compared byte for byte)",
    "_update_rto / RTO back-off, the asyncio event loop (tasks run in ensure_future order, handlers are atomic under the harness' "
    "DTLS stub) and HMAC cookie validation are harness inputs, not modelled",
    "the `invariants` oracle reads private attributes of RTCSctpTransport (_flight_size, _sent_queue, _outbound_queue, _t3_handle, "
    "_forward_tsn_chunk, chunk._in_flight/_abandoned/_retransmit)",
]
RULE = ("a case is a recorded fault schedule over two REAL endpoints followed by the canonical fault-free continuation "
        "(run tasks, deliver FIFO, fire the earliest timer when idle) and a probe message per open channel; endpoint "
        "traces are replayed through the Lean automaton; after every step the proved sender invariants are evaluated on the real "
        "transport; distinct = distinct schedule; non-trivial = a message was delivered")


# ---------------------------------------------------------------------------------------------------
# the proved invariants, on the real transport, after every step
# ---------------------------------------------------------------------------------------------------

_VIOLATIONS: list = []


def sender_invariants(ep):
    """None or a description of the first invariant of Props/C02.lean that the real sender state violates."""
    t = ep.t
    sent = list(t._sent_queue)
    outq = list(t._outbound_queue)
    if all(hasattr(c, "_in_flight") for c in sent):
        counted = sum(c._book_size for c in sent if c._in_flight)
        if t._flight_size != counted:
            return (f"flight_accounting: _flight_size={t._flight_size} but the chunks of _sent_queue counted in flight sum to "
                    f"{counted} (sent={len(sent)} outbound={len(outq)})")
    else:
        # a tree without the ghost flag: only the consequences that do not mention it
        total = sum(c._book_size for c in sent)
        if t._flight_size > total:
            return (f"flight_accounting: _flight_size={t._flight_size} exceeds the {total} bytes of all {len(sent)} outstanding "
                    f"chunk(s) (outbound={len(outq)})")
    for c in outq:
        if getattr(c, "_in_flight", False) or c._retransmit or c._abandoned:
            return f"flight_accounting: a chunk still in _outbound_queue is in flight / marked / abandoned (tsn={c.tsn})"
    for c in sent:
        if c._abandoned and (getattr(c, "_in_flight", False) or c._retransmit):
            return f"flight_accounting: abandoned chunk tsn={c.tsn} is still counted in flight or marked for retransmission"
    if t._association_state != t.State.ESTABLISHED:
        return None
    pending = any(name.lstrip("_") == "transmit" for name, _ in ep.tasks)
    armed = any(h.name == "t3" for h in ep.armed())
    if sent and not (armed or pending):
        return f"timer_armed: {len(sent)} chunk(s) outstanding but T3 is not armed and no _transmit is pending"
    if t._forward_tsn_chunk is not None and not pending:
        return "timer_armed: a FORWARD TSN is waiting but no _transmit is pending"
    if outq and not sent and not pending:
        return (f"timer_armed: {len(outq)} chunk(s) queued, nothing outstanding, no _transmit pending "
                f"(_flight_size={t._flight_size}, cwnd={t._cwnd})")
    if sent and sent[0]._abandoned and not pending:
        return "head of _sent_queue is abandoned outside _maybe_abandon/_update_advanced_peer_ack_point"
    if t._cwnd <= 0:
        return f"cwnd={t._cwnd}"
    return None


class ProbedWorld(W.World):
    """World that evaluates the sender invariants on the endpoint that just handled an input."""

    def _after(self, name, inp, exc):
        super()._after(name, inp, exc)
        if len(_VIOLATIONS) < 1:
            bad = sender_invariants(self.ep[name])
            if bad:
                _VIOLATIONS.append(f"endpoint {name} after step {self.steps} ({inp[0]}{' ' + str(inp[1]) if inp[0] in ('fire', 'task') else ''}): {bad}")


def _run_probed(case):
    orig = W.World
    _VIOLATIONS.clear()
    W.World = ProbedWorld
    try:
        r = S._run(case)
    finally:
        W.World = orig
    if not isinstance(r, str):
        r.invariant_violations = list(_VIOLATIONS)
    return r


def oracle_invariants(case, run):
    v = getattr(run, "invariant_violations", None)
    if v:
        return "proved sender invariant violated on the real transport: " + v[0]
    return None


# ---------------------------------------------------------------------------------------------------
# directed schedules (recorded with a live world, so that every op is applicable when replayed)
# ---------------------------------------------------------------------------------------------------


class _Rec:
    def __init__(self, rng, wrap=False):
        tsn = (lambda: (2**32 - rng.randrange(1, 20)) % 2**32) if wrap else (lambda: rng.randrange(2**32))
        self.case = dict(tagA=rng.randrange(1, 2**32), tagB=rng.randrange(1, 2**32), tsnA=tsn(), tsnB=tsn())
        self.w = W.World(dict(self.case, ops=[]))
        self.ops = []

    def do(self, *op):
        op = list(op)
        if self.w.apply(op):
            self.ops.append(op)
            return True
        return False

    def settle(self, limit=400):
        """fault-free: run tasks, deliver FIFO (no timers)"""
        for _ in range(limit):
            if any(self.do("task", n) for n in "AB"):
                continue
            if any(self.do("deliver", n, 0) for n in "AB" if self.w.net[n]):
                continue
            return

    def tasks(self, name):
        while self.do("task", name):
            pass

    def connect(self):
        self.do("start", "A")
        self.do("start", "B")
        self.settle()

    def send(self, name, ch, size, kind="b"):
        self.w.salt += 1
        return self.do("send", name, ch, kind, size, self.w.salt)

    def finish(self, profile):
        return dict(self.case, ops=self.ops, profile=profile, wrap=False)


def directed_fwd_tsn_lost(rng):
    """partial reliability: the data AND the FORWARD TSN that skips it are lost, then traffic on a reliable channel"""
    r = _Rec(rng)
    r.connect()
    r.do("create", "A", dict(label="pr", ordered=rng.random() < 0.5, maxRetransmits=0))
    r.do("create", "A", dict(label="rel", ordered=True))
    r.settle()
    for _ in range(rng.randrange(1, 4)):
        r.send("A", 0, rng.choice([1, 10, 1300]))
        r.tasks("A")
    while r.w.net["B"]:
        r.do("drop", "B", 0)
    for _ in range(rng.randrange(1, 3)):     # T3: abandon, FORWARD TSN goes out ... and is lost too
        r.do("fire", "A", "t3")
        r.tasks("A")
        while r.w.net["B"]:
            r.do("drop", "B", 0)
    r.send("A", 1, 10)
    r.tasks("A")
    return r.finish("directed-fwd-tsn-lost")


def directed_interleaved_streams(rng):
    """complete messages of one ordered stream around a TSN of another stream, delivered in reverse"""
    r = _Rec(rng)
    r.connect()
    r.do("create", "A", dict(label="s1", ordered=True))
    r.do("create", "A", dict(label="s2", ordered=rng.random() < 0.5))
    r.settle()
    pattern = rng.choice([[0, 1, 0], [0, 1, 0, 1, 0], [0, 1, 1, 0], [1, 0, 1, 0]])
    for ch in pattern:
        r.send("A", ch, rng.choice([1, 5, 50]))
        r.tasks("A")
    while r.w.net["B"]:
        r.do("deliver", "B", len(r.w.net["B"]) - 1)
    return r.finish("directed-interleaved")


def directed_t3_with_gaps(rng):
    """bursts larger than cwnd, a hole at the receiver, gap-acks, T3, gap-acks again: the accounting stress"""
    r = _Rec(rng, wrap=rng.random() < 0.3)
    r.connect()
    r.do("create", "A", dict(label="bulk", ordered=True))
    r.settle()
    r.send("A", 0, rng.choice([5000, 12000, 20000]))
    r.tasks("A")
    for rnd in range(rng.randrange(2, 5)):
        q = r.w.net["B"]
        if q:
            r.do("drop", "B", rng.randrange(len(q)))          # a hole
        for _ in range(len(r.w.net["B"])):
            r.do("deliver", "B", 0)
        for _ in range(len(r.w.net["A"])):
            if rng.random() < 0.25:
                r.do("drop", "A", 0)
            else:
                r.do("deliver", "A", 0)
            r.tasks("A")
        if rng.random() < 0.7:
            r.do("fire", "A", "t3")
            r.tasks("A")
    return r.finish("directed-t3-gaps")


DIRECTED = [directed_fwd_tsn_lost, directed_interleaved_streams, directed_t3_with_gaps]


def _directed(args):
    import random
    seed, k = args
    return DIRECTED[k](random.Random(seed))


class World(S.WorldComponent):
    name = "world"
    prop = "C02"
    theorems = ["flight_accounting", "timer_armed", "t3_progress", "receiveSack_never_raises", "no_crash_reachable",
                "sack_describes_misordered", "after_transmit", "receiver_invariant", "C02_drains_partial"]
    ssn_share = 4
    mix = [("early", False, 3), ("ssnwrap", False, 2), ("reliable-heavy-loss", False, 3), ("reliable", False, 2), ("reliable-heavy-loss", True, 1), ("mixed-pr", False, 2),
           ("reorder-frag", True, 3), ("strike", False, 3), ("expiry", False, 1)]
    quick = (48, 280)
    thorough = (260, 500)
    oracles = [S.oracle_no_crash, oracle_invariants, S.oracle_c02, S.oracle_recovers]

    def cases(self, rng, tier):
        n = 6 if tier == "quick" else 60
        args = [(rng.getrandbits(48), i % len(DIRECTED)) for i in range(n)]
        return S.pool().map(_directed, args) + super().cases(rng, tier)

    def impl_many(self, cases):
        results = S.pool().map(_run_probed, cases, chunksize=1)
        outs = []
        for c, r in zip(cases, results):
            if isinstance(r, str):
                outs.append(r)
            else:
                self.runs[S.case_key(c)] = r
                outs.append(r.expected)
        return outs

    def impl(self, case):
        r = _run_probed(case)
        if isinstance(r, str):
            return r
        self.runs[S.case_key(case)] = r
        return r.expected


def components(tier):
    return [World()]


def classify_finding(finding, comp_name, case, what):
    return False
