"""C03 — offer/answer yields a consistent, connectable session for every configuration.

Trace acceptance: a REAL pair of RTCPeerConnection objects is configured (transceivers via addTrack /
addTransceiver with every direction, data channels, codec preferences incl. RTX, the three bundle policies on
either side) and driven through complete offer/answer exchanges, including follow-up exchanges that add media,
change directions or swap the offering side.  The four real SDPs of every exchange are parsed with
`aiortc.sdp.SessionDescription.parse`, abstracted to the description type of the Lean model
(Model/Jsep/Negotiate.lean) and compared — together with the final public state of both connections — with what
the compiled model predicts for the same script.

The oracle evaluates the clauses of the property directly on the real SDPs / objects: the answer mirrors the
offer (count, order, kind, mid, BUNDLE group); answer codecs / feedback / header extensions were offered with the
offerer's payload types / ids, RTX only with its base codec; every answer section has a definite DTLS role and
the transports of both sides end with opposite roles; both sides `stable`; complementary currentDirection; then —
bounded wait — both sides reach `connected`, the transport of every negotiated section is connected, and every
data channel created so far echoes a message.  The last part is runtime behaviour (ICE/DTLS/SCTP over loopback):
it is OBSERVED by the oracle only, nothing about it is proved.
"""
from __future__ import annotations

import os

from harness.check import Component, case_key

LEAN_TARGETS = ["Aiortc.Props.C03", "Aiortc.Props.C03Iter"]
AUDIT_PROPS = ["C03", "C03Iter"]
DRIVERS = ["Negotiate"]
MANIFEST = {
    "technique": "Lean 4 theorems over an executable model of the pure cores of createOffer / setLocalDescription / "
                 "setRemoteDescription / createAnswer (codec and header-extension intersection, preference filter, direction "
                 "arithmetic over the regenerated graphs, mid allocation, m-section mirroring, BUNDLE, DTLS/ICE roles) + trace "
                 "acceptance of real RTCPeerConnection pairs against the compiled model + implementation-side oracle incl. "
                 "connection and data-channel echo",
    "text": "For all codec lists / preference lists / extension lists the selected codecs, feedback and extensions were offered "
            "(offerer's payload types and ids, RTX only behind its accepted base codec). For every pair of well-formed modelled "
            "connections (invariant WF: holds for new connections, preserved by addTransceiver/addTrack/createDataChannel/"
            "setCodecPreferences/direction changes and by exchanges, includes transceivers the peer never matched) with compatible codec "
            "preferences ALL SIX CALLS of an offer/answer exchange succeed (exchange_succeeds), and by induction over any script of "
            "set-up operations and exchanges offered by either side (run_ok) every exchange succeeds, leaves both sides stable, the answer "
            "mirroring the offer's sections and BUNDLE group with definite and opposite DTLS roles, section-wise the negotiated intersection "
            "and complementary current directions; sections are only appended (never change kind or position), mids are never re-used and a "
            "definite DTLS role never changes; the bundling step never stops the transport that carries the bundle. Real pairs are run over "
            "the property's product space and compared with the model section by section.",
    "note": "Compatible is a hypothesis (otherwise setRemoteDescription raises OperationError by design); it is given in checkable form "
            "(PrefsOk: a family of preference lists, decidable for finite families) and proved for 'every list is empty or contains one fixed "
            "real codec of its kind' (prefsOk_common). 'The session actually connects' is observed (oracle), not proved.",
    "design_ref": "DESIGN.md §2 C03",
}
ASSUMPTIONS = [
    "Compatible (hypothesis of exchange_succeeds / negotiate_ok): whatever preference lists of the two sides meet on a section of a kind "
    "(the empty list standing for 'no preference' and for transceivers created on the fly), the answer keeps a codec and so does what the "
    "offerer stores; without it setRemoteDescription raises OperationError by design (witness rtx_only_preference_fails). Sufficient, "
    "proved: every preference list is empty or contains one fixed real capability of its kind (prefsOk_common, compatible_of_common_codec); "
    "decidable for any finite family of lists (prefsOk_of_check). The oracle accepts OperationError only when two same-kind transceivers of "
    "the two real connections have non-empty preferences without a common real codec",
    "run_ok quantifies over scripts whose kinds are audio/video and whose setCodecPreferences calls install lists of a PrefsOk family; a "
    "set-up call that raises (IndexError / ValueError) is a no-op on the connection",
    "WF / Paired / RolePair are invariants, not assumptions: they hold for new connections (inv_new) and are preserved by every operation",
    "fmtp parameters are int or str valued (no bare flags), H264 profile-level-id values lie in the regenerated graph of "
    "parse_h264_profile_level_id (all values of aiortc's own tables do)",
    "both peers are aiortc connections (descriptions come from createOffer/createAnswer of the other peer); calls are sequential",
]
TRUSTED_EXTRA = [
    "asynchronous parts of the four calls (ICE gathering, __connect, candidates, certificates/fingerprints, ssrc/msid lines) are not "
    "modelled; ICE/DTLS/SCTP connection and the data-channel echo are observed by the oracle only",
    "harness abstraction of real SDPs: aiortc.sdp.SessionDescription.parse + sorting of fmtp parameters by key; transport identity "
    "of a section = (host, port) of its c=/m= line after gathering",
    "alwaysNegotiateDataChannels, legacy DTLS/SCTP sections and stopped transceivers are outside the model",
]
RULE = ("case = bundle policy of each peer + script over {addTransceiver(kind,direction,track?), addTrack(kind), createDataChannel, "
        "setCodecPreferences(indices into get_capabilities), direction setter, complete exchange offered by peer p}; first exchange after "
        "0-3 transceivers per side, up to two follow-up exchanges that add media / change direction / swap the offerer; plus LARGE "
        "descriptions: 10-32 (and 101/102) media sections offered at once or accumulated 1-4 per round over many follow-up exchanges "
        "offered by alternating sides, data channel in the middle; distinct = distinct script; every case runs a real "
        "RTCPeerConnection pair over loopback")

POLICIES = ["balanced", "max-compat", "max-bundle"]
KINDS = ["audio", "video"]
DIRS = ["inactive", "sendonly", "recvonly", "sendrecv"]
LATE_S = 0.3        # signalling latency of a follow-up answer in "late" cases
SHORT_WAIT = 5.0    # the same while shrinking a failing case
WAIT = 20.0         # bound (s) for connected + echo after an exchange (typically reached after 0.1-0.3 s)

# ----------------------------------------------------------------------------------------------------
# abstraction of real descriptions / state (mirrors lean/Aiortc/Drv/Negotiate.lean)


def _join_or(sep, items):
    return sep.join(items) if items else "-"


def _pval(v):
    return ("i%d" % v) if isinstance(v, int) and not isinstance(v, bool) else "s" + str(v)


def _codec_str(c):
    fb = _join_or("+", [f.type + ("/" + f.parameter if f.parameter else "") for f in c.rtcpFeedback])
    params = _join_or("&", ["%s=%s" % (k, _pval(c.parameters[k])) for k in sorted(c.parameters)])
    ch = "-" if c.channels is None else str(c.channels)
    return "~".join([str(c.payloadType), c.mimeType, str(c.clockRate), ch, fb, params])


def _parse(sdp_text, typ):
    from aiortc import sdp
    d = sdp.SessionDescription.parse(sdp_text)
    d.type = typ
    return d


def desc_str(d):
    from aiortc import sdp
    bundle = next((g for g in d.group if g.semantic == "BUNDLE"), None)
    seen = []
    secs = []
    for m in d.media:
        key = (m.host, m.port)
        if key not in seen:
            seen.append(key)
        cls = seen.index(key)
        setup = sdp.DTLS_ROLE_SETUP[m.dtls.role] if m.dtls is not None else "missing"
        if m.kind in ("audio", "video"):
            secs.append(";".join([m.kind, str(m.rtp.muxId), str(m.direction), setup, str(cls),
                                  _join_or(",", [_codec_str(c) for c in m.rtp.codecs]),
                                  _join_or(",", ["%d=%s" % (x.id, x.uri) for x in m.rtp.headerExtensions])]))
        else:
            secs.append(";".join([m.kind, str(m.rtp.muxId), "-", setup, str(cls), "-", "-"]))
    return d.type + "{" + _join_or(",", [str(x) for x in (bundle.items if bundle else [])]) + "}[" + _join_or("|", secs) + "]"


def _priv(pc, name):
    return getattr(pc, "_RTCPeerConnection__" + name)


def _ice_str(dtls):
    ice = dtls.transport
    if not ice._role_set:
        return "unset"
    return "controlling" if ice._connection.ice_controlling else "controlled"


def state_str(pc):
    seen = []

    def cls(tr):
        if id(tr) not in seen:
            seen.append(id(tr))
        return seen.index(id(tr))

    def opt(x):
        return "-" if x is None else str(x)

    remote_ice = _priv(pc, "remoteIce")
    live = _priv(pc, "dtlsTransports")
    ts = []
    for t in pc.getTransceivers():
        tr = t.receiver.transport
        ts.append(",".join([t.kind, opt(t.mid), t.direction, opt(t.currentDirection), opt(t._offerDirection),
                            opt(t._get_mline_index()), tr._role, _ice_str(tr), str(cls(tr)), "1" if t._bundled else "0",
                            _join_or("+", [str(c.payloadType) for c in t._codecs])]))
    sctp = pc.sctp
    if sctp is not None:
        tr = sctp.transport
        s = "S(" + ",".join([opt(sctp.mid), tr._role, _ice_str(tr), str(cls(tr)), "1" if sctp._bundled else "0",
                             opt(_priv(pc, "sctp_mline_index"))]) + ")"
    else:
        s = "S-"
    users = {}
    for t in pc.getTransceivers():
        users.setdefault(id(t.receiver.transport), []).append(t in remote_ice)
    if sctp is not None:
        users.setdefault(id(sctp.transport), []).append(sctp in remote_ice)
    idle = sum(1 for tr in live if not any(users.get(id(tr), [])))
    ready = all(t.mid is None or (t in remote_ice and t.receiver.transport in live) for t in pc.getTransceivers())
    if sctp is not None:
        ready = ready and (sctp.mid is None or (sctp in remote_ice and sctp.transport in live))
    return ";".join([pc.signalingState, "live=%d" % len(_priv(pc, "iceTransports")), "idle=%d" % idle,
                     "ready=%d" % (1 if ready else 0), "T[" + _join_or("|", ts) + "]", s])


def _sections(out):
    """number of media sections of the last offer in a canonical output string"""
    n = 0
    for tok in out.split(" # "):
        f = tok.split(" ")
        if tok.startswith("N") and len(f) >= 3 and f[1] != "ERR":
            body = f[1][f[1].index("[") + 1:]
            n = 0 if body.startswith("-]") else body.count("|") + 1
    return n


def _exc_tag(exc):
    n = type(exc).__name__
    return {"ValueError": "ValueError"}.get(n, n)


# ----------------------------------------------------------------------------------------------------
# the property on the real SDPs / objects (independent of the Lean model and of desc_str)

REV = {"sendonly": "recvonly", "recvonly": "sendonly", "sendrecv": "sendrecv", "inactive": "inactive"}


def _is_rtx(c):
    return c.mimeType.split("/")[1].lower() == "rtx"


def judge_descriptions(offer, answer):
    """clauses about the answer vs the offer; -> None or what fails"""
    om, am = offer.media, answer.media
    for what, d in (("offer", offer), ("answer", answer)):
        mids = [m.rtp.muxId for m in d.media]
        dup = sorted({x for x in mids if mids.count(x) > 1})
        if dup:
            return "mids: the %s uses mid %s for more than one of its %d media sections (mids %s)" % (
                what, ",".join(map(str, dup)), len(mids), ",".join(map(str, mids)))
        if any(x in (None, "") for x in mids):
            return "mids: a media section of the %s has no mid" % what
    if len(om) != len(am):
        return "mirror: answer has %d media sections, offer %d" % (len(am), len(om))
    for i, (o, a) in enumerate(zip(om, am)):
        if (o.kind, o.rtp.muxId) != (a.kind, a.rtp.muxId):
            return "mirror: section %d is %s/%s in the offer but %s/%s in the answer" % (i, o.kind, o.rtp.muxId, a.kind, a.rtp.muxId)
    ob = next((g.items for g in offer.group if g.semantic == "BUNDLE"), None)
    ab = next((g.items for g in answer.group if g.semantic == "BUNDLE"), None)
    if ab != [m.rtp.muxId for m in am]:
        return "mirror: BUNDLE group of the answer %r is not the list of its mids" % (ab,)
    if ab != ob:
        return "mirror: BUNDLE group of the answer %r differs from the offer's %r" % (ab, ob)
    for i, (o, a) in enumerate(zip(om, am)):
        if a.dtls is None or a.dtls.role not in ("client", "server"):
            return "role: answer section %d has no definite DTLS role (%r)" % (i, a.dtls and a.dtls.role)
        if a.kind not in ("audio", "video"):
            continue
        offered = {c.payloadType: c for c in o.rtp.codecs}
        real = [c for c in a.rtp.codecs if not _is_rtx(c)]
        if not real:
            return "codecs: answer section %d selects no real codec" % i
        for c in a.rtp.codecs:
            oc = offered.get(c.payloadType)
            if oc is None:
                return "codecs: answer section %d uses payload type %d which was not offered" % (i, c.payloadType)
            if oc.mimeType.lower() != c.mimeType.lower() or oc.clockRate != c.clockRate:
                return "codecs: answer section %d payload type %d is %s/%d but was offered as %s/%d" % (
                    i, c.payloadType, c.mimeType, c.clockRate, oc.mimeType, oc.clockRate)
            for f in c.rtcpFeedback:
                if f not in oc.rtcpFeedback:
                    return "feedback: answer section %d pt %d has feedback %s %s that was not offered" % (i, c.payloadType, f.type, f.parameter)
            if _is_rtx(c):
                apt = c.parameters.get("apt")
                base = [b for b in real if b.payloadType == apt]
                if not base:
                    return "rtx: answer section %d has RTX pt %d for apt=%r without that base codec" % (i, c.payloadType, apt)
                if base[0].clockRate != c.clockRate:
                    return "rtx: answer section %d RTX pt %d clock rate differs from its base" % (i, c.payloadType)
            elif oc.parameters != c.parameters:
                return "codecs: answer section %d pt %d parameters %r differ from the offered %r" % (i, c.payloadType, c.parameters, oc.parameters)
        oext = [(x.id, x.uri) for x in o.rtp.headerExtensions]
        for x in a.rtp.headerExtensions:
            if (x.id, x.uri) not in oext:
                return "extensions: answer section %d has extension %d %s that was not offered with that id" % (i, x.id, x.uri)
        if a.direction not in REV or o.direction not in REV:
            return "direction: section %d has no direction" % i
    return None


def judge_history(previous, offer):
    """follow-up exchanges only ADD media: the sections negotiated so far keep position, kind and mid (whoever offers),
    and a new section never takes a mid that is in use"""
    now = [(m.kind, m.rtp.muxId) for m in offer.media]
    if len(now) < len(previous):
        return "history: the follow-up offer has %d media sections, %d were negotiated before" % (len(now), len(previous))
    for i, (was, so) in enumerate(zip(previous, now)):
        if was != so:
            return "history: section %d was negotiated as %s/%s and is offered as %s/%s in the follow-up" % (i, was[0], was[1], so[0], so[1])
    return None


def judge_objects(o_pc, a_pc, answer):
    """clauses about the two connections right after the exchange"""
    if o_pc.signalingState != "stable" or a_pc.signalingState != "stable":
        return "stable: signalingState is %s / %s after the exchange" % (o_pc.signalingState, a_pc.signalingState)
    for name, pc in (("offerer", o_pc), ("answerer", a_pc)):
        own = [t.mid for t in pc.getTransceivers() if t.mid is not None]
        if pc.sctp is not None and pc.sctp.mid is not None:
            own.append(pc.sctp.mid)
        if len(set(own)) != len(own):
            return "mids: transceivers / SCTP transport of the %s share a mid: %s" % (name, ",".join(own))
    for m in answer.media:
        mid = m.rtp.muxId
        if m.kind in ("audio", "video"):
            to = [t for t in o_pc.getTransceivers() if t.mid == mid]
            ta = [t for t in a_pc.getTransceivers() if t.mid == mid]
            if len(to) != 1 or len(ta) != 1:
                return "mirror: mid %s is owned by %d / %d transceivers" % (mid, len(to), len(ta))
            co, ca = to[0].currentDirection, ta[0].currentDirection
            if co is None or ca is None or REV.get(co) != ca:
                return "direction: mid %s currentDirection %s (offerer) vs %s (answerer) are not complementary" % (mid, co, ca)
            if ca != m.direction:
                return "direction: mid %s answerer currentDirection %s but the answer says %s" % (mid, ca, m.direction)
            ro, ra = to[0].receiver.transport._role, ta[0].receiver.transport._role
            if to[0].sender.transport is not to[0].receiver.transport or ta[0].sender.transport is not ta[0].receiver.transport:
                return "bundle: mid %s sender and receiver use different transports" % mid
        else:
            if o_pc.sctp is None or a_pc.sctp is None or o_pc.sctp.mid != mid or a_pc.sctp.mid != mid:
                return "mirror: application section %s is not the SCTP transport of both sides" % mid
            ro, ra = o_pc.sctp.transport._role, a_pc.sctp.transport._role
        if {ro, ra} != {"client", "server"}:
            return "role: mid %s DTLS roles are %s (offerer) / %s (answerer), not opposite" % (mid, ro, ra)
    return None


def _idle_only(pc):
    """every negotiated section is connected; what keeps the connection from `connected` are transports in state
    `new` that belong to un-negotiated transceivers / SCTP only (known finding C03-unmatched-transport)"""
    for t in pc.getTransceivers():
        if t.mid is not None and t.receiver.transport.state != "connected":
            return False
    if pc.sctp is not None and pc.sctp.mid is not None and pc.sctp.transport.state != "connected":
        return False
    remote_ice = _priv(pc, "remoteIce")
    used = {id(t.receiver.transport) for t in pc.getTransceivers() if t in remote_ice}
    if pc.sctp is not None and pc.sctp in remote_ice:
        used.add(id(pc.sctp.transport))
    rest = [tr for tr in _priv(pc, "dtlsTransports") if id(tr) not in used]
    return bool(used) and bool(rest) and all(tr.state == "new" for tr in rest)


def _disjoint_prefs(o_pc, a_pc):
    """two same-kind transceivers of the two connections have non-empty codec preferences without a common real codec"""
    def real(t):
        return {(c.mimeType.lower(), tuple(sorted(c.parameters.items()))) for c in t._preferred_codecs
                if c.mimeType.split("/")[1].lower() != "rtx"}
    for to in o_pc.getTransceivers():
        for ta in a_pc.getTransceivers():
            if to.kind == ta.kind and real(to) and real(ta) and not (real(to) & real(ta)):
                return True
    return False


def judge_connected(pcs, answer):
    """-> (hard failure or None, known-finding failure or None)"""
    soft = None
    for name, pc in zip("AB", pcs):
        dead = []
        for t in pc.getTransceivers():
            if t.mid is not None and t.receiver.transport.state != "connected":
                dead.append("%s/%s" % (t.kind, t.mid))
        if pc.sctp is not None and pc.sctp.mid is not None and pc.sctp.transport.state != "connected":
            dead.append("application/%s" % pc.sctp.mid)
        if dead:
            return "connect: negotiated sections %s of peer %s sit on a transport in state other than connected" % (",".join(dead), name), None
        if pc.connectionState != "connected":
            if _idle_only(pc):
                soft = soft or ("idle-transport: peer %s stays %s because transport(s) of un-negotiated transceivers / SCTP never start"
                                % (name, pc.connectionState))
            else:
                return "connect: peer %s connectionState is %s" % (name, pc.connectionState), None
    return None, soft


# ----------------------------------------------------------------------------------------------------
# running a script on a real pair


class _Runner:
    def __init__(self, case, mode="full"):
        self.case = case
        self.mode = mode        # "full" | "short" (runtime wait bounded by SHORT_WAIT) | "static" (no runtime part)
        self.channels = []      # (peer, RTCDataChannel)
        self.echoes = {}
        self.failures = []      # oracle verdicts collected while running
        self.history = []       # (kind, mid) of the sections of the last completed exchange
        self.labels = []

    def setup_op(self, op):
        import asyncio
        from aiortc.mediastreams import MediaStreamTrack
        from aiortc.codecs import get_capabilities
        f = op.split(":")
        pc = self.pcs[int(f[1])]

        def mk_track(kind_):
            # a track that never delivers a frame: the sender waits in recv() until it is stopped, so no CPU goes
            # into encoding (media content is not part of this property)
            class IdleTrack(MediaStreamTrack):
                kind = kind_

                async def recv(self):
                    await asyncio.sleep(3600)
            return IdleTrack

        mk = {"audio": mk_track("audio"), "video": mk_track("video")}
        if f[0] == "T":
            pc.addTransceiver(mk[f[2]]() if f[4] == "1" else f[2], direction=f[3])
        elif f[0] == "K":
            pc.addTrack(mk[f[2]]())
        elif f[0] == "D":
            p = int(f[1])
            ch = pc.createDataChannel("c03-%d" % len(self.channels))
            n = len(self.channels)
            self.channels.append((p, ch))

            @ch.on("message")
            def on_message(msg, n=n):
                self.echoes.setdefault(n, []).append(msg)
        elif f[0] == "C":
            t = pc.getTransceivers()[int(f[2])]
            caps = get_capabilities(t.kind).codecs
            t.setCodecPreferences([caps[int(i)] for i in f[3].split(",")] if f[3] != "-" else [])
        elif f[0] == "R":
            pc.getTransceivers()[int(f[2])].direction = f[3]
        else:
            raise ValueError("bad op " + op)

    async def exchange(self, p, wait=True, wait_before=True):
        """-> (out tokens, stop?)   `wait=False`: the next operation follows at once (no waiting for `connected`)"""
        import asyncio
        o, a = self.pcs[p], self.pcs[1 - p]
        step = "createOffer"
        try:
            peek = self.case.get("peek")
            if peek:
                # the application looks at an offer first (createOffer must not change what the next one contains) ...
                step = "createOffer (inspected only)"
                await o.createOffer()
                step = "createOffer"
            offer = await o.createOffer()
            step = "setLocal(offer)"
            if peek == "implicit":
                await o.setLocalDescription()        # ... and may then let setLocalDescription() create it itself
            else:
                await o.setLocalDescription(offer)
            step = "setRemote(offer)"
            await a.setRemoteDescription(o.localDescription)
            step = "createAnswer"
            if peek:
                await a.createAnswer()
            answer = await a.createAnswer()
            step = "setLocal(answer)"
            if peek == "implicit":
                await a.setLocalDescription()
            else:
                await a.setLocalDescription(answer)
            step = "setRemote(answer)"
            if self.case.get("late") and not wait_before:
                await asyncio.sleep(LATE_S)     # signalling latency: the answer reaches the offerer a little late
            await o.setRemoteDescription(a.localDescription)
        except Exception as exc:  # noqa: BLE001
            tag = _exc_tag(exc)
            note = " [disjoint codec preferences]" if _disjoint_prefs(o, a) else ""
            try:
                # say so when the offer that was being answered is already malformed (one mid on several sections)
                mids = [m.rtp.muxId for m in _parse(o.localDescription.sdp, "offer").media] if step not in ("createOffer", "setLocal(offer)") else []
                dup = sorted({x for x in mids if mids.count(x) > 1})
                if dup:
                    note += " [the offer uses mid %s for more than one of its %d media sections]" % (",".join(map(str, dup)), len(mids))
            except Exception:  # noqa: BLE001
                pass
            self.failures.append(("exchange", "exchange: %s raised %s: %s%s" % (step, type(exc).__name__, str(exc)[:120], note), tag))
            return ["N%d ERR %s %s" % (p, step, tag), "STOP N:%d %s" % (p, tag)], True
        # observe immediately (no await between the last call and the observation)
        ol, orr = o.localDescription, o.remoteDescription
        al, ar = a.localDescription, a.remoteDescription
        d_ol, d_or = _parse(ol.sdp, ol.type), _parse(orr.sdp, orr.type)
        d_al, d_ar = _parse(al.sdp, al.type), _parse(ar.sdp, ar.type)
        s_offer, s_answer = desc_str(d_ol), desc_str(d_al)
        tok = "N%d %s %s" % (p, s_offer, s_answer)
        if desc_str(d_ar) != s_offer:
            tok += " !answerer.remoteDescription=" + desc_str(d_ar)
        if desc_str(d_or) != s_answer:
            tok += " !offerer.remoteDescription=" + desc_str(d_or)
        why = (judge_descriptions(d_ol, d_al) or judge_descriptions(d_ar, d_or) or judge_history(self.history, d_ol)
               or judge_objects(o, a, d_al))
        self.history = [(m.kind, m.rtp.muxId) for m in d_ol.media]
        if why:
            self.failures.append(("static", why, None))
        self.states = [state_str(self.pcs[0]), state_str(self.pcs[1])]
        # runtime part: connected + echo (observed only)
        if self.mode != "static" and wait:
            why = await self.wait_connected(d_al)
            if why:
                self.failures.append(("runtime", why, None))
        return [tok], False

    async def wait_connected(self, answer):
        import asyncio
        import time
        if not answer.media:
            return None         # an exchange of empty descriptions negotiates nothing: there is nothing to connect
        has_app = any(m.kind == "application" for m in answer.media)
        deadline = time.monotonic() + (WAIT if self.mode == "full" else SHORT_WAIT)
        sent = {}
        self.round = getattr(self, "round", 0) + 1
        while True:
            ok = all(pc.connectionState == "connected" or _idle_only(pc) for pc in self.pcs)
            if has_app:
                for n, (p, ch) in enumerate(self.channels):
                    msg = "ping-%d-%d" % (self.round, n)
                    if ch.readyState == "open" and n not in sent:
                        ch.send(msg)
                        sent[n] = msg
                    if n not in sent or ("echo:" + sent[n]) not in self.echoes.get(n, []):
                        ok = False
            if ok or time.monotonic() > deadline:
                break
            await asyncio.sleep(0.02)
        why, soft = judge_connected(self.pcs, answer)
        if why:
            return why
        if has_app:
            for n, (p, ch) in enumerate(self.channels):
                if ch.readyState != "open":
                    return "datachannel: channel %d created by peer %d is %s, not open" % (n, p, ch.readyState)
                if ("echo:" + sent.get(n, "?")) not in self.echoes.get(n, []):
                    return "datachannel: channel %d created by peer %d got no echo" % (n, p)
        return soft

    async def run(self):
        from aiortc import RTCConfiguration, RTCPeerConnection
        from aiortc.rtcconfiguration import RTCBundlePolicy
        pol = {"balanced": RTCBundlePolicy.BALANCED, "max-compat": RTCBundlePolicy.MAX_COMPAT, "max-bundle": RTCBundlePolicy.MAX_BUNDLE}
        self.pcs = [RTCPeerConnection(RTCConfiguration(bundlePolicy=pol[self.case["pa"]])),
                    RTCPeerConnection(RTCConfiguration(bundlePolicy=pol[self.case["pb"]]))]
        self.states = None
        out = []
        stopped = False
        try:
            for p, pc in enumerate(self.pcs):
                @pc.on("datachannel")
                def on_dc(ch):
                    @ch.on("message")
                    def on_msg(msg, ch=ch):
                        ch.send("echo:" + msg)
            last_n = max([i for i, op in enumerate(self.case["ops"]) if op.startswith("N:")], default=-1)
            first_n = min([i for i, op in enumerate(self.case["ops"]) if op.startswith("N:")], default=-1)
            for idx, op in enumerate(self.case["ops"]):
                if op.startswith("N:"):
                    # "nowait": follow-up negotiations are issued at once, while ICE/DTLS of the previous one are
                    # still in progress; only the last exchange is followed by the connected + echo observation
                    toks, stopped = await self.exchange(int(op[2:]), wait=not self.case.get("nowait") or idx == last_n,
                                                        wait_before=not self.case.get("nowait") or idx == first_n)
                    out += toks
                    if stopped:
                        break
                else:
                    try:
                        self.setup_op(op)
                    except Exception as exc:  # noqa: BLE001
                        out.append("STOP %s %s" % (op, _exc_tag(exc)))
                        self.failures.append(("setup", "setup: %s raised %s" % (op, type(exc).__name__), None))
                        stopped = True
                        break
            if not stopped:
                out += ["A=" + state_str(self.pcs[0]), "B=" + state_str(self.pcs[1])]
        finally:
            for pc in self.pcs:
                try:
                    await pc.close()
                except Exception:  # noqa: BLE001
                    pass
        return " # ".join(out), self.failures


def _quiet(loop, context):
    pass


def run_case(case, mode="full"):
    import asyncio
    import logging
    logging.disable(logging.CRITICAL)

    async def main():
        asyncio.get_running_loop().set_exception_handler(_quiet)
        return await asyncio.wait_for(_Runner(case, mode).run(), timeout=150)

    try:
        return asyncio.run(main())
    except Exception as exc:  # noqa: BLE001
        return "HARNESS-EXC " + type(exc).__name__ + ": " + str(exc)[:200], []


def _pool_run(case):
    try:
        return run_case(case)
    except Exception as exc:  # noqa: BLE001
        return "HARNESS-EXC " + type(exc).__name__ + ": " + str(exc)[:200], []


def _timing_suspect(result):
    out, failures = result
    if out.startswith("HARNESS-EXC TimeoutError"):
        return True
    if any(kind != "runtime" for kind, _why, _tag in failures):
        return False
    return any(not why.startswith("idle-transport") for _kind, why, _tag in failures)


# ----------------------------------------------------------------------------------------------------
# generators

REAL_CAPS = {"audio": [0, 1, 2, 3], "video": [0, 2, 3]}    # indices of non-RTX capabilities
RTX_CAP = {"video": 1}


def _prefs(rng, kind):
    """capability indices with at least one REAL codec whatever the kind of the transceiver the index ends up on
    (a transceiver created by a remote offer shifts the indices): 0, 2, 3 are real codecs for audio and video;
    1 is video/rtx resp. audio/G722"""
    real = [0, 2, 3]
    rng.shuffle(real)
    pick = real[:rng.randint(1, len(real))]
    if rng.random() < 0.5:
        pick.insert(rng.randint(0, len(pick)), 1)
    if rng.random() < 0.15:
        pick.append(pick[0])       # duplicate: setCodecPreferences keeps the last occurrence
    return pick


def _kinds_after(ops, p):
    """kinds of peer p's transceivers as created by its own ops (ignoring those created by remote offers)"""
    kinds = []
    track = []
    for op in ops:
        f = op.split(":")
        if f[0] == "T" and int(f[1]) == p:
            kinds.append(f[2]); track.append(f[4] == "1")
        elif f[0] == "K" and int(f[1]) == p:
            for i, k in enumerate(kinds):
                if k == f[2] and not track[i]:
                    track[i] = True
                    break
            else:
                kinds.append(f[2]); track.append(True)
    return kinds


def gen_case(rng):
    ops = []
    # prefs are only attached right after a T op (index known exactly when no K precedes); keep it exact:
    def add_side(p, allow_empty):
        local = []
        n = len(_kinds_after(ops, p))
        cnt = rng.randint(0 if allow_empty else 1, 3)
        dc = rng.random() < 0.5
        dc_first = dc and rng.random() < 0.3
        if dc_first:
            local.append("D:%d" % p)
        for _ in range(cnt):
            kind = rng.choice(KINDS)
            if rng.random() < 0.35:
                local.append("K:%d:%s" % (p, kind))
            else:
                local.append("T:%d:%s:%s:%d" % (p, kind, rng.choice(DIRS), rng.randint(0, 1)))
        if dc and not dc_first:
            local.append("D:%d" % p)
        if not allow_empty and cnt == 0 and not dc:
            local.append("D:%d" % p)
        ops.extend(local)
        # preferences on some of this peer's own transceivers (exact indices via _kinds_after)
        kinds = _kinds_after(ops, p)
        for i in range(n, len(kinds)):
            if rng.random() < 0.3:
                ops.append("C:%d:%d:%s" % (p, i, ",".join(map(str, _prefs(rng, kinds[i])))))

    first = rng.randint(0, 1) if rng.random() < 0.2 else 0
    add_side(first, allow_empty=False)
    if rng.random() < 0.7:
        add_side(1 - first, allow_empty=True)
    ops.append("N:%d" % first)
    for _ in range(rng.choice([0, 0, 1, 1, 1, 2])):
        who = rng.randint(0, 1)
        r = rng.random()
        if r < 0.6:
            add_side(who, allow_empty=True)
        if rng.random() < 0.25:
            # change the direction of an existing transceiver of either peer (index into its own list is always valid
            # for indices below the number of transceivers it created itself)
            q = rng.randint(0, 1)
            k = _kinds_after(ops, q)
            if k:
                ops.append("R:%d:%d:%s" % (q, rng.randrange(len(k)), rng.choice(DIRS)))
        ops.append("N:%d" % who)
    case = {"pa": rng.choice(POLICIES), "pb": rng.choice(POLICIES), "ops": ops}
    if rng.random() < 0.25:
        case["peek"] = rng.choice(["twice", "implicit"])
    if sum(1 for o in ops if o.startswith("N:")) > 1 and rng.random() < 0.5:
        case["nowait"] = True
        if rng.random() < 0.5:
            case["late"] = True
    return case


BIG_TOTALS = [10, 11, 12, 13, 20, 30]


def _big_item(rng, p, kinds=KINDS):
    """one op of peer p that is guaranteed to create a NEW transceiver (addTransceiver; addTrack may re-use one)"""
    return "T:%d:%s:%s:%d" % (p, rng.choice(kinds), rng.choice(DIRS), rng.randint(0, 1))


def gen_big_once(rng, total, pa=None, pb=None, dc=None):
    """`total` media sections offered AT ONCE: the offerer owns total (or total-1 + data channel somewhere in the middle)
    items, the answerer a few of its own beforehand (matched by kind, so they add no section unless of an unoffered kind)"""
    first = rng.randint(0, 1) if rng.random() < 0.3 else 0
    dc = (rng.random() < 0.7) if dc is None else dc
    n = total - 1 if dc else total
    dcpos = rng.randint(1, max(1, n - 1))
    style = rng.random()
    kinds = KINDS if style < 0.6 else [rng.choice(KINDS)]       # mixed, or a conference of one kind
    ops = []
    for i in range(n):
        if dc and i == dcpos:
            ops.append("D:%d" % first)
        if rng.random() < 0.15:
            ops.append("K:%d:%s" % (first, rng.choice(kinds)))
        else:
            ops.append(_big_item(rng, first, kinds))
    # addTrack re-uses a track-less transceiver of its kind: top up so that the offer really has `total` sections
    while len(_kinds_after(ops, first)) < n:
        ops.append(_big_item(rng, first, kinds))
    for _ in range(rng.choice([0, 0, 1, 2, 3])):
        ops.append(_big_item(rng, 1 - first, kinds))
    if rng.random() < 0.2:
        ops.append("D:%d" % (1 - first))
    ops.append("N:%d" % first)
    if rng.random() < 0.5:
        # one more section after the big one, possibly from the other side
        who = rng.randint(0, 1)
        ops.append(_big_item(rng, who))
        ops.append("N:%d" % who)
    return {"pa": pa or rng.choice(POLICIES), "pb": pb or rng.choice(POLICIES), "ops": ops}


def gen_big_rounds(rng, total, pa=None, pb=None, step=None, alternate=None):
    """media sections ACCUMULATED over many follow-up exchanges: every round the offering side adds 1-4 new
    transceivers (the data channel in some middle round) and offers; the two sides take turns (with occasional repeats)
    until the description has at least `total` sections"""
    ops = []
    who = rng.randint(0, 1)
    alternate = (rng.random() < 0.8) if alternate is None else alternate
    have = 0
    dc_at = rng.randint(2, max(2, total - 2)) if rng.random() < 0.8 else None
    dc_done = False
    rounds = 0
    while have < total:
        k = step or rng.randint(1, 4)
        for _ in range(min(k, total - have)):
            if dc_at is not None and not dc_done and have >= dc_at:
                ops.append("D:%d" % who)
                dc_done = True
            else:
                ops.append(_big_item(rng, who))
            have += 1
        if rng.random() < 0.15:
            # the other side prepares a transceiver too: it is matched by (or appended after) this round's offer
            ops.append(_big_item(rng, 1 - who))
        if rng.random() < 0.1:
            q = rng.randint(0, 1)
            kq = _kinds_after(ops, q)
            if kq:
                ops.append("R:%d:%d:%s" % (q, rng.randrange(len(kq)), rng.choice(DIRS)))
        ops.append("N:%d" % who)
        rounds += 1
        if alternate or rng.random() < 0.3:
            who = 1 - who
    case = {"pa": pa or rng.choice(POLICIES), "pb": pb or rng.choice(POLICIES), "ops": ops}
    # follow-up rounds issued back to back (only the last exchange is followed by the connected + echo observation):
    # always for long histories, where waiting after every round would dominate the run time
    if rounds > 6 or rng.random() < 0.5:
        case["nowait"] = True
        if rng.random() < 0.3:
            case["late"] = True
    return case


def gen_big(rng, total=None):
    total = total or rng.choice(BIG_TOTALS + [rng.randint(10, 32)])
    return gen_big_once(rng, total) if rng.random() < 0.5 else gen_big_rounds(rng, total)


def systematic_big(tier):
    """a fixed handful of LARGE configurations (every run, every seed): 12 / 13 / 20 / 30 sections at once and accumulated
    three at a time by alternating offerers, data channel in the middle"""
    import random
    rng = random.Random(3)
    out = []
    totals = [12, 13, 30] if tier == "quick" else BIG_TOTALS + [101, 102]
    for i, total in enumerate(totals):
        pol = POLICIES[i % 3], POLICIES[(i // 3 + i) % 3]
        out.append(gen_big_once(rng, total, pol[0], pol[1], dc=True))
        out.append(gen_big_rounds(rng, total, pol[1], pol[0], step=3 if total < 100 else 7, alternate=True))
    if tier == "quick":
        out.append(gen_big_once(rng, 102, "balanced", "max-bundle", dc=True))       # mids with three digits ("99" -> "100", "101")
    return out


def systematic():
    """small exhaustive families: every direction pair, every policy pair, addTrack vs addTransceiver, dc position"""
    out = []
    for da in DIRS:
        for db in DIRS:
            out.append({"pa": "balanced", "pb": "balanced",
                        "ops": ["T:0:audio:%s:0" % da, "T:1:audio:%s:0" % db, "N:0"]})
    for pa in POLICIES:
        for pb in POLICIES:
            out.append({"pa": pa, "pb": pb, "ops": ["T:0:video:sendrecv:1", "K:0:audio", "K:0:audio", "D:0",
                                                     "T:1:audio:sendrecv:0", "T:1:video:sendonly:1", "N:0", "N:1"]})
            out.append({"pa": pa, "pb": pb, "ops": ["D:0", "K:0:audio", "T:1:video:sendrecv:0", "K:1:audio", "N:0",
                                                     "K:0:video", "N:0"]})
            # follow-up negotiation issued immediately (the first one is still connecting): added media / swapped offerer
            out.append({"pa": pa, "pb": pb, "nowait": True, "ops": ["D:0", "N:0", "T:0:video:sendrecv:1", "N:0"]})
            out.append({"pa": pa, "pb": pb, "nowait": True, "ops": ["D:0", "K:0:audio", "N:0", "K:1:video", "N:1"]})
            out.append({"pa": pa, "pb": pb, "nowait": True, "late": True, "ops": ["D:0", "N:0", "N:1"]})
            # offers / answers created twice (inspected first), applied explicitly or created again by setLocalDescription()
            out.append({"pa": pa, "pb": pb, "peek": "implicit", "ops": ["D:0", "K:0:audio", "N:0"]})
            out.append({"pa": pa, "pb": pb, "peek": "twice", "ops": ["D:0", "N:0", "K:1:video", "N:1"]})
            # ... and the FIRST data channel added by a follow-up issued while the media-only session is still connecting
            out.append({"pa": pa, "pb": pb, "nowait": True, "ops": ["T:0:audio:sendrecv:0", "N:0", "D:0", "N:0"]})
            out.append({"pa": pa, "pb": pb, "nowait": True, "late": True, "ops": ["K:0:video", "N:0", "D:1", "N:1"]})
    return out


CORPUS = [
    # defect fixed by fixes/C03-bundle-by-transport-identity.patch (a): max-bundle offerer, data channel created first
    {"pa": "max-bundle", "pb": "balanced", "ops": ["D:0", "T:0:audio:sendrecv:0", "N:0"]},
    # (a'): max-bundle answerer whose first transceiver is not of the kind of the first offered section
    {"pa": "balanced", "pb": "max-bundle", "ops": ["T:0:audio:sendrecv:0", "T:0:video:sendrecv:0", "T:1:video:sendrecv:0",
                                                    "T:1:audio:sendrecv:0", "N:0"]},
    # (b): balanced, video first, two audio transceivers sharing a transport
    {"pa": "balanced", "pb": "balanced", "ops": ["T:0:video:sendrecv:0", "T:0:audio:sendrecv:0", "T:0:audio:sendrecv:0", "N:0"]},
    # known finding C03-unmatched-transport: answerer owns a transceiver the offer does not match (own transport)
    {"pa": "balanced", "pb": "balanced", "ops": ["T:0:audio:sendrecv:0", "T:1:video:sendrecv:0", "N:0"]},
    # ... and the follow-up exchange offered by that answerer negotiates it
    {"pa": "balanced", "pb": "balanced", "ops": ["T:0:audio:sendrecv:0", "T:1:video:sendrecv:0", "N:0", "N:1"]},
    # codec preferences: RTX kept only behind its base; H264 profile selection; duplicate preference
    {"pa": "balanced", "pb": "balanced", "ops": ["T:0:video:sendrecv:0", "C:0:0:3,1", "T:1:video:sendrecv:0", "C:1:0:0,3,2", "N:0"]},
    {"pa": "balanced", "pb": "balanced", "ops": ["T:0:video:sendrecv:0", "C:0:0:0", "T:1:video:sendrecv:0", "C:1:0:1,0,2,0", "N:0", "N:1"]},
    # incompatible preferences: OperationError by design (ASSUMPTIONS: Compatible)
    {"pa": "balanced", "pb": "balanced", "ops": ["T:0:video:sendrecv:0", "C:0:0:0", "T:1:video:sendrecv:0", "C:1:0:2", "N:0"]},
    # follow-up adds media on the answerer and swaps the offering side; direction change
    {"pa": "max-compat", "pb": "balanced", "ops": ["K:0:audio", "D:0", "N:0", "K:1:video", "R:0:0:recvonly", "N:1", "N:0"]},
    # the first data channel is added by a follow-up exchange issued at once, while the media-only session is still connecting
    {"pa": "balanced", "pb": "balanced", "nowait": True, "ops": ["T:0:audio:sendrecv:0", "N:0", "D:0", "N:0"]},
    {"pa": "max-bundle", "pb": "max-compat", "nowait": True, "late": True, "ops": ["K:0:video", "T:0:audio:recvonly:0", "N:0", "D:1", "N:1"]},
    # LARGE descriptions (round 3): a 12th / 13th media section at once (conference: one sendrecv pair + receive-only audio) ...
    {"pa": "balanced", "pb": "balanced", "ops": ["K:0:audio", "K:0:video"] + ["T:0:audio:recvonly:0"] * 10 + ["N:0"]},
    {"pa": "max-bundle", "pb": "max-compat", "ops": ["T:0:video:sendrecv:1"] * 6 + ["D:0"] + ["T:0:audio:sendonly:1"] * 6 + ["N:0"]},
    # ... and accumulated three at a time over follow-up exchanges offered by alternating sides (14 sections, data channel second)
    {"pa": "balanced", "pb": "balanced", "nowait": True,
     "ops": ["K:0:audio", "D:0", "N:0"] + sum([["T:%d:audio:sendrecv:0" % (r % 2)] * 3 + ["N:%d" % (r % 2)] for r in range(1, 5)], [])},
]


class Exchange(Component):
    name = "exchange"
    theorems = ["exchange_succeeds", "run_ok", "exchange_sections_any", "exchange_roles_opposite", "negotiate_mirrors", "negotiate_stable",
                "negotiate_roles_definite", "answer_codecs_offered", "directions_complementary", "common_codecs_offered",
                "negotiated_codecs_offered", "header_extensions_offered", "bundle_keeps_primary", "bundle_moves_all", "allocate_mid_fresh", "exchange_mids_distinct"]

    def __init__(self, tier):
        self.tier = tier
        self._cache = {}
        self._shrink_left = 90      # every shrink candidate costs a real pair: bound the total

    def corpus(self):
        return [dict(c) for c in CORPUS]

    def cases(self, rng, tier):
        out = systematic() if tier == "thorough" else systematic()[::3]
        out += systematic_big(tier)
        base = len(out)
        n = 120 if tier == "quick" else 6000
        n_big = 8 if tier == "quick" else 400          # large descriptions: 10 ... 32 sections, at once / accumulated
        seen = set(case_key(c) for c in out)
        while len(out) < base + n_big:
            c = gen_big(rng)
            k = case_key(c)
            if k in seen:
                continue
            seen.add(k)
            out.append(c)
        while len(out) < base + n_big + n:
            c = gen_case(rng)
            k = case_key(c)
            if k in seen:
                continue
            seen.add(k)
            out.append(c)
        return out

    # ---- evaluation with a process pool -------------------------------------------------------------
    def impl_many(self, cases):
        todo = [c for c in cases if case_key(c) not in self._cache]
        if todo:
            from harness import core
            core.use_repo()
            import multiprocessing as mp
            nproc = min(16, os.cpu_count() or 1, max(1, len(todo) // 4))
            if nproc <= 1:
                results = [_pool_run(c) for c in todo]
            else:
                with mp.get_context("fork").Pool(nproc) as pool:
                    results = pool.map(_pool_run, todo, chunksize=1)
            # the runtime part (ICE/DTLS/SCTP over loopback with real timers) can time out on an overloaded machine:
            # a few such verdicts are re-examined sequentially before they count (many of them are not noise)
            suspects = [i for i, r in enumerate(results) if _timing_suspect(r)]
            if len(suspects) <= 6:
                for i in suspects:
                    for _ in range(2):
                        results[i] = _pool_run(todo[i])
                        if not _timing_suspect(results[i]):
                            break
            for c, r in zip(todo, results):
                self._cache[case_key(c)] = r
        return [self._cache[case_key(c)][0] for c in cases]

    def _get(self, case):
        # single evaluations happen while a failure is being shrunk or replayed: bound the runtime wait, and skip the
        # runtime part altogether when the batch already failed on the static clauses
        k = case_key(case)
        if k not in self._cache:
            from harness import core
            core.use_repo()
            static_seen = any(kind in ("static", "exchange", "setup") and "[disjoint codec preferences]" not in w
                              for _o, fl in self._cache.values() for kind, w, _tag in fl)
            try:
                self._cache[k] = run_case(case, "static" if static_seen else "short")
            except Exception as exc:  # noqa: BLE001
                self._cache[k] = ("HARNESS-EXC " + type(exc).__name__ + ": " + str(exc)[:200], [])
        return self._cache[k]

    def impl(self, case):
        return self._get(case)[0]

    def model_line(self, case):
        return "negotiate run %s %s %s" % (case["pa"], case["pb"], ";".join(case["ops"]) or "-")

    def oracle(self, case, impl_out):
        out, failures = self._get(case)
        if out.startswith("HARNESS-EXC"):
            return "the harness could not run the case: " + out
        for kind, why, tag in failures:
            if kind == "exchange" and tag == "OperationError" and "[disjoint codec preferences]" in why:
                continue        # no common codec: refusing is the specified behaviour (ASSUMPTIONS: Compatible)
            return why
        return None

    def label(self, case, impl_out):
        out, failures = self._get(case)
        n = sum(1 for op in case["ops"] if op.startswith("N:"))
        if failures:
            kind, why, tag = failures[0]
            return "%s:%s" % (kind, tag or why.split(":")[0])
        swap = len(set(op for op in case["ops"] if op.startswith("N:"))) > 1
        secs = _sections(out)
        if secs >= 10:
            # large descriptions: bucket by size (12 = first mid with two digits after "9" and "10" exist) and history length
            return "ok:big:%s:%s%s%s%s" % ("s10-11" if secs < 12 else "s12-19" if secs < 20 else "s20-99" if secs < 100 else "s100+",
                                         "once" if n <= 2 else "n3-5" if n <= 5 else "n6+", ":swap" if swap else "",
                                         ":dc" if any(op.startswith("D:") for op in case["ops"]) else "",
                                         ":nowait" if case.get("nowait") else "")
        dc = any(op.startswith("D:") for op in case["ops"])
        pref = any(op.startswith("C:") for op in case["ops"])
        return "ok:n%d%s%s%s%s:%s/%s" % (n, ((":nowait+late" if case.get("late") else ":nowait") if case.get("nowait") else "") + (":peek" if case.get("peek") else ""), ":swap" if swap else "", ":dc" if dc else "", ":pref" if pref else "",
                                      case["pa"], case["pb"])

    def nontrivial(self, case, impl_out):
        return any(op.startswith("N:") for op in case["ops"])

    def shrink(self, case):
        for cand in self._shrink(case):
            if self._shrink_left <= 0:
                return
            self._shrink_left -= 1
            yield cand

    def _shrink(self, case):
        ops = case["ops"]
        # drop trailing / leading-follow-up exchanges first, then single ops
        ns = [i for i, o in enumerate(ops) if o.startswith("N:")]
        if len(ns) > 1:
            yield dict(case, ops=ops[:ns[-1]])
            yield dict(case, ops=ops[:ns[0] + 1])
        # long scripts (large descriptions): contiguous blocks first (halves, quarters, eighths), then single ops
        size = len(ops) // 2
        while len(ops) > 14 and size >= 2:
            for start in range(len(ops) - size, -1, -size):
                block = ops[start:start + size]
                cand = ops[:start] + ops[start + size:]
                if not any(o.startswith("N:") for o in cand):
                    continue
                gone = {o.split(":")[1] for o in block if o[0] in "TK"}
                yield dict(case, ops=[o for o in cand if not (o[0] in "CR" and o.split(":")[1] in gone)])
            size //= 2
        for i in range(len(ops) - 1, -1, -1):
            cand = ops[:i] + ops[i + 1:]
            if not any(o.startswith("N:") for o in cand):
                continue
            # indices in C/R ops must stay valid: drop dependents when a T/K is removed
            f = ops[i].split(":")
            if f[0] in ("T", "K"):
                cand = [o for o in cand if not (o[0] in "CR" and o.split(":")[1] == f[1])]
            yield dict(case, ops=cand)
        if case["pa"] != "balanced":
            yield dict(case, pa="balanced")
        if case["pb"] != "balanced":
            yield dict(case, pb="balanced")


def components(tier):
    return [Exchange(tier)]


def classify_finding(finding, comp_name, case, what):
    if finding.get("id") == "C03-unmatched-transport":
        return what.startswith("idle-transport:")
    return False
