"""C04 — DTLS connects only to the fingerprinted peer; both sides derive matching keys.

Three correspondences (real code vs compiled Lean model `Model/Dtls.lean`) and, for each, the property
evaluated on the implementation alone (oracle):

* identity : real `RTCDtlsTransport._validate_peer_identity` driven with a stub `_ssl` whose peer
             certificate returns generated digests, on generated fingerprint lists;
* keys     : real `SRTPProtectionProfile.get_key_and_salt` and real `_setup_srtp` (stub `_ssl`, recording
             `Policy`/`Session`) on random keying material, both roles, all profile lists;
* pair     : REAL DTLS transport pairs over an in-process dummy ICE transport: every answer of OpenSSL /
             libsrtp observed at the call boundary is fed to the Lean automaton, which must predict exactly
             the observed effects (state changes, role, exporter length, SRTP keys, deliveries, refusals);
             the oracle checks connected/failed and delivered/discarded against the property text;
* intruder : a raw pyOpenSSL peer with a NON-signalled certificate coalesces application data with its last
             handshake flight (the defect fixed by fixes/C04-data-before-identity-check.patch).
"""
from __future__ import annotations

import asyncio
import itertools
import json

from harness.check import Component, case_key

LEAN_TARGETS = ["Aiortc.Props.C04"]
DRIVERS = ["Dtls"]
MANIFEST = {
    "technique": "Lean 4 theorems about an executable model of the decision logic of RTCDtlsTransport (fingerprint policy, "
                 "key/salt slicing and role switch, start()/pump automaton with OpenSSL/libsrtp answers as inputs) + function-level "
                 "differential runs + trace acceptance of real in-process DTLS pairs + implementation-side oracle",
    "text": "The fingerprint policy (accepted iff at least one supported-hash fingerprint and every supported one equals the certificate "
            "digest, case-insensitively; invariant under recasing, permutation and unsupported entries), the RFC 5764 key partition "
            "(client-tx = server-rx, server-tx = client-rx for every profile of the regenerated table) and the automaton facts (CONNECTED, "
            "SRTP keys and every delivery to a data/RTP/RTCP receiver only after handshake-ok ∧ fingerprints accepted ∧ profile from the "
            "local list; FAILED terminal and silent; sends refused unless CONNECTED; unauthenticated packets dropped) are Lean theorems "
            "for all inputs. The model is tied to the code by running the real methods and real DTLS pairs against the compiled model.",
    "note": "Partial by nature: that equal exporter output arises on both sides, that matching keys decrypt and that altered packets "
            "fail authentication is OpenSSL's / libsrtp's job; those are observed (pair component), not proved.",
    "design_ref": "DESIGN.md §2 C04",
}
ASSUMPTIONS = [
    "OpenSSL: do_handshake succeeds only with the holder of the private key of the certificate returned by get_peer_certificate; "
    "export_keying_material returns the same bytes on both sides; a record that fails its MAC makes recv raise SSL.Error "
    "(model input `SslRecv.error`) — observed on every pair run, not proved",
    "libsrtp: unprotect succeeds with the original plaintext iff the packet was protected with the mirror key and is unaltered "
    "(model input `Unprotect`) — observed on every pair run, not proved",
    "str.lower() agrees with ASCII lower-casing wherever it matters: no non-ASCII code point lower-cases into a string over "
    "[0-9a-f:] or over the characters of the supported algorithm names (checked by brute force over all code points on every "
    "run, component `identity`)",
    "handlers are atomic between awaits: `_do_handshake` → `_validate_peer_identity` → `_setup_srtp` → CONNECTED run without yielding "
    "(true of the code: no await between them); start() is called at most once per transport and stop() not during the handshake",
    "the model is of the code with fixes/C04-data-before-identity-check.patch, fixes/C04-empty-fingerprints-fail.patch and "
    "fixes/C04-ascii-case-insensitive.patch applied",
]
TRUSTED_EXTRA = [
    "OpenSSL (DTLS handshake, certificate possession proof, SRTP profile negotiation, exporter, record MAC) and libsrtp "
    "(protect/unprotect, authentication, replay window) are not modelled: their answers are inputs of the Lean automaton",
    "pyOpenSSL / pylibsrtp / cryptography bindings; x509.Certificate.fingerprint",
    "harness instrumentation of the real transport (SSL.Connection / Session / Policy shims in the module namespace, per-instance "
    "wrappers of _recv_next, _set_state, _setup_srtp, _handle_rtp_data, _handle_rtcp_data)",
]
RULE = ("identity: fingerprint lists built from subsets/permutations/duplicates of the supported hashes with per-entry recasing of "
        "algorithm and value, corruption (digit flip, truncation, missing colons, other algorithm's digest, empty), unsupported / "
        "near-miss / non-ASCII algorithm names, empty list; digests random (2..64 bytes) or of a real certificate. keys: real and "
        "synthetic (key,salt) lengths × exact/short/long/empty material × idx; _setup_srtp over all ordered profile sublists × role × "
        "selected name (member, non-member, empty). pair: ordered profile sublists on each side × role assignment × fingerprint "
        "variants per side × data-receiver presence × early SRTP-looking/junk datagrams queued before the handshake, then data/RTP/RTCP "
        "traffic with bit flips in transit. distinct = distinct case JSON")

LABEL = b"EXTRACTOR-dtls_srtp"
PROPERTY_ALGS = ("sha-256", "sha-384", "sha-512")  # literal from the property text


def _M():
    from aiortc import rtcdtlstransport as M
    return M


# ----------------------------------------------------------------------------------------------
# encodings for the driver
# ----------------------------------------------------------------------------------------------

def enc_str(s: str) -> str:
    return ".".join(str(ord(c)) for c in s) if s else "-"


def enc_hex(b: bytes) -> str:
    return b.hex() if b else "-"


def enc_fps(fps) -> str:
    return ",".join(enc_str(a) + ":" + enc_str(v) for a, v in fps) if fps else "-"


def enc_digests(dg: dict) -> str:
    return ",".join(enc_str(a) + "=" + enc_hex(b) for a, b in dg.items()) if dg else "-"


def colon_hex(b: bytes) -> str:
    h = b.hex().upper()
    return ":".join(h[i:i + 2] for i in range(0, len(h), 2))


_FOLD = {c: c + 32 for c in range(65, 91)}


def ascii_fold(s: str) -> str:
    """Case-insensitivity of the SDP grammar (RFC 8122: hash names and hex digits are ASCII)."""
    return s.translate(_FOLD)


def policy_accepts(fps, digests_by_alg: dict) -> bool:
    """The property text, evaluated independently of the implementation: at least one fingerprint uses a
    supported hash and every fingerprint with a supported hash matches, compared case-insensitively."""
    supported = [(ascii_fold(a), v) for a, v in fps if ascii_fold(a) in PROPERTY_ALGS]
    if not supported:
        return False
    return all(a in digests_by_alg and ascii_fold(v) == ascii_fold(colon_hex(digests_by_alg[a])) for a, v in supported)


# ----------------------------------------------------------------------------------------------
# shared stubs
# ----------------------------------------------------------------------------------------------

class StubCert:
    def __init__(self, by_hash_name):
        self.by = by_hash_name

    def fingerprint(self, algo):
        return self.by[algo.name]


class StubSsl:
    def __init__(self, cert=None, selected=b"", material=b""):
        self.cert, self.selected, self.material = cert, selected, material
        self.export_calls = []

    def get_peer_certificate(self, as_cryptography=False):
        return self.cert

    def get_selected_srtp_profile(self):
        return self.selected

    def export_keying_material(self, label, n, context=None):
        self.export_calls.append((label, n))
        return self.material[:n]


class DummyIce:
    def __init__(self, role="controlling"):
        self.role = role


_CACHE: dict = {}


def _bare_transport():
    M = _M()
    if "bare" not in _CACHE:
        _CACHE["cert"] = M.RTCCertificate.generateCertificate()
        _CACHE["bare"] = M.RTCDtlsTransport(DummyIce(), [_CACHE["cert"]])
    return _CACHE["bare"]


def _check_casefold_assumption() -> str | None:
    """ASSUMPTIONS[2], by brute force."""
    if "fold" in _CACHE:
        return _CACHE["fold"]
    M = _M()
    algset = set("".join(M.X509_DIGEST_ALGORITHMS.keys()) + "".join(PROPERTY_ALGS))
    hexset = set("0123456789abcdef:")
    found = []
    for i in range(128, 0x110000):
        if 0xD800 <= i < 0xE000:
            continue
        low = set(chr(i).lower())
        if low <= hexset or low <= algset:
            found.append(f"U+{i:04X}")
    bad = None if not found else " ".join(found[:5])
    _CACHE["fold"] = bad
    return bad


# ----------------------------------------------------------------------------------------------
# component 1: _validate_peer_identity
# ----------------------------------------------------------------------------------------------

def recase(rng, s: str, mode: str) -> str:
    if mode == "upper":
        return s.upper()
    if mode == "lower":
        return s.lower()
    if mode == "mixed":
        return "".join(c.upper() if i % 2 else c.lower() for i, c in enumerate(s))
    if mode == "random":
        return "".join(c.upper() if rng.random() < 0.5 else c.lower() for c in s)
    return s


UNSUPPORTED = ["sha-1", "md5", "sha-224", "sha256", "sha_256", "", " sha-256", "sha-256 ", "ſha-256", "sha‐256",
               "SHA-1", "sha-3-256", "sha-2567", "ha-256", "ısha-256", "sha-512/256"]


def corrupt(rng, v: str, how: str, other: str) -> str:
    if how == "flip" and v:
        i = rng.randrange(len(v))
        c = v[i]
        repl = rng.choice([x for x in "0123456789ABCDEF" if x != c.upper()]) if c != ":" else "0"
        return v[:i] + repl + v[i + 1:]
    if how == "trunc":
        return v[:-1]
    if how == "trunc3":
        return v[:-3]
    if how == "nocolon":
        return v.replace(":", "")
    if how == "append":
        return v + ":00"
    if how == "empty":
        return ""
    if how == "space":
        return v + " "
    if how == "other":
        return other
    if how == "ligature":
        return v.replace("FF", "\ufb00", 1) if "FF" in v else v[:-1] + ("0" if v[-1:] != "0" else "1")
    if how == "unicode":
        return v[:1] + "ı" + v[2:] if len(v) > 1 else "ſ"
    return v + "x"


class Identity(Component):
    name = "identity"
    theorems = ["fingerprint_policy", "fingerprint_policy_real", "rejected_without_supported", "rejected_on_mismatch",
                "accepted_perm", "accepted_recase", "accepted_unsupported_irrelevant", "accepted_ascii_recase", "algs_const",
                "lower_colonHex_injective", "accepted_pins_digest"]

    def corpus(self):
        d = {"sha-256": "aa01", "sha-384": "bb02", "sha-512": "cc03"}
        return [
            {"dg": d, "fps": []},
            {"dg": d, "fps": [["sha-256", "AA:01"]]},
            {"dg": d, "fps": [["SHA-256", "aa:01"]]},
            {"dg": d, "fps": [["sha-256", "AA:01"], ["sha-384", "BB:03"]]},
            {"dg": d, "fps": [["sha-1", "AA:01"]]},
            {"dg": d, "fps": [["sha-1", "zz"], ["sha-512", "Cc:03"]]},
            {"dg": d, "fps": [["sha-256", "AA:01"], ["sha-256", "AA:02"]]},
            {"dg": d, "fps": [["sha-256", "AA01"]]},
            {"dg": {"sha-256": "", "sha-384": "00", "sha-512": "0a0b"}, "fps": [["sha-256", ""]]},
            {"dg": {"sha-256": "ff01", "sha-384": "bb02", "sha-512": "cc03"}, "fps": [["sha-256", "\ufb00:01"]]},
            {"dg": "real", "fps_real": [["sha-256", "ok", "upper"], ["SHA-512", "ok", "lower"]]},
        ]

    def cases(self, rng, tier):
        n = 3000 if tier == "quick" else 100000
        out = []
        M = _M()
        algs = list(M.X509_DIGEST_ALGORITHMS.keys())
        for _ in range(n):
            real = rng.random() < 0.1
            if real:
                dg = "real"
            else:
                ln = rng.choice([1, 2, 2, 3, 4, 32, 48, 64])
                dg = {a: bytes(rng.randrange(256) for _ in range(ln if ln < 32 else {0: 32, 1: 48, 2: 64}[i % 3])).hex()
                      for i, a in enumerate(algs)}
                if rng.random() < 0.05:
                    dg[algs[0]] = dg[algs[1]]  # two algorithms with the same digest
                if rng.random() < 0.15:
                    a0 = rng.choice(algs)
                    dg[a0] = "ff" + dg[a0][2:]  # so that the 'ﬀ'.upper() == 'FF' path is exercised
            k = rng.choice([0, 1, 1, 2, 2, 3, 3, 4, 5])
            entries = []
            for _ in range(k):
                kind = rng.choice(["good", "good", "good", "good", "bad", "unsupported", "unsupported-goodval"])
                a = rng.choice(algs) if algs else "sha-256"
                amode = rng.choice(["asis", "upper", "lower", "mixed", "random"])
                vmode = rng.choice(["asis", "upper", "lower", "mixed", "random"])
                how = "ok"
                if kind == "bad":
                    how = rng.choice(["flip", "flip", "trunc", "trunc3", "nocolon", "append", "empty", "space", "other", "unicode", "x", "ligature"])
                if kind.startswith("unsupported"):
                    name = rng.choice(UNSUPPORTED)
                    how = "ok" if kind.endswith("goodval") else rng.choice(["flip", "empty", "ok"])
                    entries.append([name, how, vmode, a])
                else:
                    entries.append([recase(rng, a, amode), how, vmode, a])
            if rng.random() < 0.3:
                rng.shuffle(entries)
            out.append({"dg": dg, "spec": entries, "r": rng.randrange(1 << 30)})
        return out

    # resolve a case to (digests_by_alg: dict[str, bytes], fps: list[(alg, value)])
    def _resolve(self, case):
        import random
        M = _M()
        if case["dg"] == "real":
            _bare_transport()
            cert = _CACHE["cert"]._cert
            dg = {a: cert.fingerprint(h) for a, h in M.X509_DIGEST_ALGORITHMS.items()}
        else:
            dg = {a: bytes.fromhex(h) for a, h in case["dg"].items()}
        if "fps" in case:
            return dg, [tuple(x) for x in case["fps"]]
        rng = random.Random(case.get("r", 0))
        fps = []
        keys = list(dg.keys())
        for ent in case.get("spec", case.get("fps_real", [])):
            if len(ent) == 3:
                name, how, vmode = ent
                base = name.lower()
            else:
                name, how, vmode, base = ent
            good = colon_hex(dg.get(base, b"\x00"))
            other = colon_hex(dg[keys[(keys.index(base) + 1) % len(keys)]]) if base in keys and keys else "00"
            v = good if how == "ok" else corrupt(rng, good, how, other)
            fps.append((name, recase(rng, v, vmode)))
        return dg, fps

    def model_line(self, case):
        dg, fps = self._resolve(case)
        return f"dtls validate {enc_digests(dg)} {enc_fps(fps)}"

    def impl(self, case):
        M = _M()
        dg, fps = self._resolve(case)
        t = _bare_transport()
        if case["dg"] == "real":
            cert = _CACHE["cert"]._cert
        else:
            cert = StubCert({M.X509_DIGEST_ALGORITHMS[a].name: b for a, b in dg.items()})
        t._ssl = StubSsl(cert=cert)
        t._state = M.State.CONNECTING
        try:
            t._validate_peer_identity(M.RTCDtlsParameters(
                fingerprints=[M.RTCDtlsFingerprint(algorithm=a, value=v) for a, v in fps]))
            out = "1" if t._state == M.State.CONNECTING else ("0" if t._state == M.State.FAILED else "state " + t.state)
        except Exception as exc:
            out = "crash " + type(exc).__name__
        finally:
            t._ssl = None
            t._state = M.State.NEW
        return out

    def oracle(self, case, impl_out):
        bad = _check_casefold_assumption()
        if bad:
            return f"case-folding assumption broken by {bad}"
        dg, fps = self._resolve(case)
        want = "1" if policy_accepts(fps, dg) else "0"
        if impl_out != want:
            return (f"_validate_peer_identity {'accepted' if impl_out == '1' else 'rejected/' + impl_out} the list "
                    f"{fps!r} but the fingerprint policy says {'accept' if want == '1' else 'reject'}")
        return None

    def label(self, case, impl_out):
        dg, fps = self._resolve(case)
        sup = [(a, v) for a, v in fps if ascii_fold(a) in PROPERTY_ALGS]
        if not fps:
            k = "empty"
        elif not sup:
            k = "none-supported"
        else:
            ok = [ascii_fold(v) == ascii_fold(colon_hex(dg[ascii_fold(a)])) for a, v in sup]
            k = "all-match" if all(ok) else "none-match" if not any(ok) else "some-match"
            if len(sup) < len(fps):
                k += "+unsupported"
            if any(a != a.lower() or v != v.upper() for a, v in sup):
                k += "+recased"
        return f"{impl_out}:{k}"

    def shrink(self, case):
        dg, fps = self._resolve(case)
        base = {"dg": {a: b.hex() for a, b in dg.items()}, "fps": [list(x) for x in fps]}
        for i in range(len(fps)):
            yield dict(base, fps=base["fps"][:i] + base["fps"][i + 1:])
        for i, (a, v) in enumerate(fps):
            if a != a.lower():
                yield dict(base, fps=base["fps"][:i] + [[a.lower(), v]] + base["fps"][i + 1:])
            if v != v.upper():
                yield dict(base, fps=base["fps"][:i] + [[a, v.upper()]] + base["fps"][i + 1:])
        if any(len(b) > 2 for b in dg.values()) and case.get("dg") != "real":
            # shorter digests, fingerprints re-derived where they matched
            nd = {a: b[:2] for a, b in dg.items()}
            nf = []
            for a, v in fps:
                al = a.lower()
                if al in dg and v.upper() == colon_hex(dg[al]):
                    nf.append([a, colon_hex(nd[al])])
                else:
                    nf.append([a, v[:5]])
            yield {"dg": {a: b.hex() for a, b in nd.items()}, "fps": nf}


# ----------------------------------------------------------------------------------------------
# component 2: get_key_and_salt / _setup_srtp
# ----------------------------------------------------------------------------------------------

class RecPolicy:
    """Stands in for pylibsrtp.Policy while `_setup_srtp` runs under the stub."""
    def __init__(self, key=None, ssrc_type=None, srtp_profile=None, **kw):
        self.key, self.ssrc_type, self.srtp_profile = bytes(key), ssrc_type, srtp_profile


class RecSessionStub:
    def __init__(self, policy):
        self.policy = policy


def ordered_sublists(names):
    out = []
    for k in range(1, len(names) + 1):
        out.extend(list(p) for p in itertools.permutations(names, k))
    return out


def rfc5764_keys(k, s, material, role):
    """RFC 5764 §4.2: client_write_key | server_write_key | client_write_salt | server_write_salt."""
    ck, sk = material[0:k], material[k:2 * k]
    cs, ss = material[2 * k:2 * k + s], material[2 * k + s:2 * k + 2 * s]
    client, server = ck + cs, sk + ss
    return (server, client) if role == "server" else (client, server)


class KeysComp(Component):
    name = "keys"
    theorems = ["keys_mirror", "keys_partition", "keys_mirror_table", "getKeyAndSalt_length", "setupSrtp_some_iff",
                "setupSrtp_profile", "srtp_profiles_const"]

    def _profiles(self):
        M = _M()
        return {p.openssl_profile.decode(): p for p in M.SRTP_PROFILES}

    def corpus(self):
        return [
            {"op": "kas", "k": 16, "s": 14, "src": bytes(range(60)).hex(), "idx": 0},
            {"op": "kas", "k": 16, "s": 14, "src": bytes(range(60)).hex(), "idx": 1},
            {"op": "kas", "k": 32, "s": 12, "src": bytes(range(88)).hex(), "idx": 1},
            {"op": "kas", "k": 16, "s": 12, "src": "", "idx": 1},
            {"op": "setup", "role": "server", "profiles": ["SRTP_AES128_CM_SHA1_80"], "sel": "SRTP_AES128_CM_SHA1_80",
             "mat": bytes(range(100, 188)).hex()},
            {"op": "setup", "role": "client", "profiles": ["SRTP_AES128_CM_SHA1_80"], "sel": "", "mat": "00" * 88},
        ]

    def cases(self, rng, tier):
        out = []
        profs = self._profiles()
        names = list(profs)
        n = 600 if tier == "quick" else 20000
        for _ in range(n):
            if rng.random() < 0.5 and names:
                p = profs[rng.choice(names)]
                k, s = p.key_length, p.salt_length
            else:
                k, s = rng.randrange(0, 40), rng.randrange(0, 20)
            full = 2 * (k + s)
            ln = rng.choice([full, full, full, full - 1, full + 1, 0, k, 2 * k, 2 * k + s, rng.randrange(0, full + 8), 88])
            out.append({"op": "kas", "k": k, "s": s, "src": bytes(rng.randrange(256) for _ in range(max(ln, 0))).hex(),
                        "idx": rng.choice([0, 1, 0, 1, 2, 3])})
        subs = ordered_sublists(names)
        sels = names + ["", "SRTP_AES128_CM_SHA1_32", "srtp_aes128_cm_sha1_80", "SRTP_AEAD_AES_256_GC"]
        combos = [(r, ps, sel) for r in ("client", "server", "auto") for ps in subs for sel in sels]
        if tier == "quick":
            combos = rng.sample(combos, min(len(combos), 250))
        for r, ps, sel in combos:
            out.append({"op": "setup", "role": r, "profiles": ps, "sel": sel,
                        "mat": bytes(rng.randrange(256) for _ in range(88)).hex()})
        return out

    def model_line(self, case):
        if case["op"] == "kas":
            return f"dtls kas {case['k']} {case['s']} {enc_hex(bytes.fromhex(case['src']))} {case['idx']}"
        return (f"dtls setup {case['role']} {','.join(case['profiles']) or '-'} {case['sel'] or '-'} "
                f"{enc_hex(bytes.fromhex(case['mat']))}")

    def _run_setup(self, case, role=None):
        M = _M()
        profs = self._profiles()
        t = _bare_transport()
        saved = (M.Policy, M.Session)
        RecPolicy.SSRC_ANY_INBOUND = saved[0].SSRC_ANY_INBOUND
        RecPolicy.SSRC_ANY_OUTBOUND = saved[0].SSRC_ANY_OUTBOUND
        M.Policy, M.Session = RecPolicy, RecSessionStub
        ssl = StubSsl(selected=case["sel"].encode(), material=bytes.fromhex(case["mat"]))
        try:
            t._ssl = ssl
            t._state = M.State.CONNECTING
            t._role = role or case["role"]
            t._srtp_profiles = [profs[n] for n in case["profiles"]]
            t._rx_srtp = t._tx_srtp = None
            t._setup_srtp()
            if t._state == M.State.FAILED:
                return "none", None
            if t._state != M.State.CONNECTING:
                return "state " + t.state, None
            rx, tx = t._rx_srtp.policy, t._tx_srtp.policy
            name = [n for n, p in profs.items() if p.libsrtp_profile == tx.srtp_profile]
            info = {"rx_type": rx.ssrc_type, "tx_type": tx.ssrc_type, "rx_prof": rx.srtp_profile, "tx_prof": tx.srtp_profile,
                    "calls": ssl.export_calls, "tx": tx.key, "rx": rx.key, "name": name[0] if name else "?"}
            return f"{info['name']} {ssl.export_calls[-1][1] if ssl.export_calls else '?'} {enc_hex(tx.key)} {enc_hex(rx.key)}", info
        except Exception as exc:
            return "crash " + type(exc).__name__, None
        finally:
            M.Policy, M.Session = saved
            t._ssl = None
            t._state = M.State.NEW
            t._role = "auto"
            t._srtp_profiles = M.SRTP_PROFILES
            t._rx_srtp = t._tx_srtp = None

    def impl(self, case):
        M = _M()
        if case["op"] == "kas":
            p = M.SRTPProtectionProfile(libsrtp_profile=0, openssl_profile=b"x", key_length=case["k"], salt_length=case["s"])
            try:
                return enc_hex(bytes(p.get_key_and_salt(bytes.fromhex(case["src"]), case["idx"])))
            except Exception as exc:
                return "crash " + type(exc).__name__
        return self._run_setup(case)[0]

    def oracle(self, case, impl_out):
        M = _M()
        if case["op"] == "kas":
            k, s, src, idx = case["k"], case["s"], bytes.fromhex(case["src"]), case["idx"]
            if len(src) == 2 * (k + s) and idx in (0, 1):
                tx, _ = rfc5764_keys(k, s, src, "client" if idx == 0 else "server")
                if impl_out != enc_hex(tx):
                    return f"get_key_and_salt(idx={idx}) is not the RFC 5764 {'client' if idx == 0 else 'server'} key|salt for key={k} salt={s}"
            return None
        profs = self._profiles()
        sel = case["sel"]
        should = sel in case["profiles"]
        if (impl_out != "none") != should:
            return f"_setup_srtp {'failed' if impl_out == 'none' else 'succeeded'} with selected profile {sel!r} and local list {case['profiles']}"
        if not should:
            return None
        out, info = self._run_setup(case)
        if info is None:
            return "_setup_srtp not reproducible: " + out
        p = profs[sel]
        n = 2 * (p.key_length + p.salt_length)
        if info["calls"] != [(LABEL, n)]:
            return f"exporter called as {info['calls']}, expected one call ({LABEL!r}, {n})"
        mat = bytes.fromhex(case["mat"])[:n]
        role = "server" if case["role"] == "server" else "client"
        tx, rx = rfc5764_keys(p.key_length, p.salt_length, mat, role)
        if (info["tx"], info["rx"]) != (tx, rx):
            return f"role {case['role']}: SRTP tx/rx keys are not the RFC 5764 {role} write/read keys for {sel}"
        if info["tx_type"] != M.Policy.SSRC_ANY_OUTBOUND or info["rx_type"] != M.Policy.SSRC_ANY_INBOUND:
            return "tx/rx policies have the wrong ssrc_type"
        if info["tx_prof"] != p.libsrtp_profile or info["rx_prof"] != p.libsrtp_profile:
            return f"libsrtp profile of the sessions is not the negotiated one ({sel})"
        # mirror image: the opposite role on the same material swaps the two keys
        other = "client" if role == "server" else "server"
        _, info2 = self._run_setup(case, role=other)
        if info2 is None or (info2["tx"], info2["rx"]) != (rx, tx):
            return f"keys of role {other} are not the mirror image of role {role} for {sel}"
        return None

    def label(self, case, impl_out):
        if case["op"] == "kas":
            k, s, n = case["k"], case["s"], len(case["src"]) // 2
            return f"kas-idx{case['idx']}-" + ("exact" if n == 2 * (k + s) else "short" if n < 2 * (k + s) else "long")
        return f"setup-{case['role']}-" + ("none" if impl_out == "none" else impl_out.split(" ")[0])

    def shrink(self, case):
        if case["op"] == "kas":
            src = bytes.fromhex(case["src"])
            if case["k"] > 1:
                yield dict(case, k=case["k"] // 2, src=src[: 2 * (case["k"] // 2 + case["s"])].hex())
            if case["s"] > 1:
                yield dict(case, s=case["s"] // 2, src=src[: 2 * (case["k"] + case["s"] // 2)].hex())
            if any(src):
                yield dict(case, src=bytes(range(len(src))).hex())
        else:
            for i in range(len(case["profiles"])):
                if len(case["profiles"]) > 1:
                    yield dict(case, profiles=case["profiles"][:i] + case["profiles"][i + 1:])
            yield dict(case, mat=bytes(range(88)).hex())


# ----------------------------------------------------------------------------------------------
# component 3: real DTLS pairs, trace acceptance
# ----------------------------------------------------------------------------------------------

class Conn:
    """One direction-pair of an in-process datagram link with an in-transit mutation hook."""
    def __init__(self, rx, tx, stats):
        self.rx, self.tx, self.stats = rx, tx, stats
        self.mutate = None  # callable(bytes) -> bytes | None, applied to the next datagram sent

    async def recv(self):
        data = await self.rx.get()
        if data is None:
            raise ConnectionError
        return data

    async def send(self, data):
        if self.mutate is not None:
            f, self.mutate = self.mutate, None
            data = f(data)
            if data is None:
                return
        self.stats["sent"] += 1
        await self.tx.put(data)


class Ice:
    def __init__(self, conn, role):
        self._connection, self.role = conn, role

    async def _recv(self):
        return await self._connection.recv()

    async def _send(self, data):
        await self._connection.send(data)

    async def stop(self):
        pass


class Rec:
    """Everything recorded about one endpoint: model events `ev`, observed effects `obs`."""
    def __init__(self, name):
        self.name, self.ev, self.obs = name, [], []
        self.cur = None
        self.phase = "idle"
        self.processed = 0


_CURRENT_SETUP: list = []


def _install_shims():
    """Replace SSL / Session in the module namespace by recording proxies (idempotent)."""
    M = _M()
    if getattr(M, "_c04_shims", False):
        return
    real_SSL, real_Session = M.SSL, M.Session
    import pylibsrtp

    class RecConn:
        def __init__(self, ctx):
            object.__setattr__(self, "_real", real_SSL.Connection(ctx))
            object.__setattr__(self, "_rec", getattr(ctx, "_c04_rec", None))

        def __getattr__(self, k):
            return getattr(self._real, k)

        def set_accept_state(self):
            if self._rec:
                self._rec.obs.append("role:server")
            return self._real.set_accept_state()

        def set_connect_state(self):
            if self._rec:
                self._rec.obs.append("role:client")
            return self._real.set_connect_state()

        def do_handshake(self):
            r = self._rec
            try:
                self._real.do_handshake()
            except real_SSL.WantReadError:
                raise
            except real_SSL.Error:
                if r:
                    r.ev.append("E")
                raise
            if r:
                cert = self._real.get_peer_certificate(as_cryptography=True)
                dg = {a: cert.fingerprint(h) for a, h in M.X509_DIGEST_ALGORITHMS.items()}
                sel = self._real.get_selected_srtp_profile() or b""
                mat = b""
                for p in M.SRTP_PROFILES:
                    if p.openssl_profile == sel:
                        mat = self._real.export_keying_material(LABEL, 2 * (p.key_length + p.salt_length))
                r.hs = {"dg": dg, "sel": sel.decode(), "mat": bytes(mat)}
                r.ev.append(f"O~{enc_digests(dg)}~{sel.decode() or '-'}~{enc_hex(bytes(mat))}")

        def export_keying_material(self, label, n, context=None):
            out = self._real.export_keying_material(label, n, context)
            r = self._rec
            if r:
                r.obs.append(f"xl:{n}")
                if label != LABEL:
                    r.obs.append("exporter-label:" + repr(label))
                if bytes(out) != r.hs["mat"]:
                    r.obs.append("exporter-differs")
            return out

        def DTLSv1_handle_timeout(self):
            r = self._rec
            if r and r.cur is not None:
                r.cur["timeout"] = True
            return self._real.DTLSv1_handle_timeout()

        def recv(self, n, flags=None):
            r = self._rec
            try:
                data = self._real.recv(n)
            except real_SSL.ZeroReturnError:
                if r and r.cur is not None:
                    r.cur["ssl"] = "Z"
                raise
            except real_SSL.Error:
                if r and r.cur is not None:
                    r.cur["ssl"] = "E"
                raise
            if r and r.cur is not None:
                r.cur["ssl"] = "D" + enc_hex(bytes(data))
            return data

        def send(self, data, flags=0):
            if self._rec:
                self._rec.obs.append("sd:" + enc_hex(bytes(data)))
            return self._real.send(data)

    class SslShim:
        Connection = RecConn

        def __getattr__(self, k):
            return getattr(real_SSL, k)

    class RecSession:
        def __init__(self, policy):
            self._real = real_Session(policy)
            self.policy_key = bytes(policy.key)
            self.policy_type = policy.ssrc_type
            self.policy_profile = policy.srtp_profile
            self._rec = _CURRENT_SETUP[-1] if _CURRENT_SETUP else None

        def _un(self, f, data):
            r = self._rec
            try:
                out = f(data)
            except pylibsrtp.Error:
                if r and r.cur is not None:
                    r.cur["srtp"] = "F"
                raise
            if r and r.cur is not None:
                r.cur["srtp"] = "O" + enc_hex(bytes(out))
            return out

        def unprotect(self, data):
            return self._un(self._real.unprotect, data)

        def unprotect_rtcp(self, data):
            return self._un(self._real.unprotect_rtcp, data)

        def protect(self, data):
            if self._rec:
                self._rec.obs.append("srtp:" + enc_hex(bytes(data)))
            return self._real.protect(data)

        def protect_rtcp(self, data):
            if self._rec:
                self._rec.obs.append("srtcp:" + enc_hex(bytes(data)))
            return self._real.protect_rtcp(data)

    M.SSL = SslShim()
    M.Session = RecSession
    M._c04_shims = True
    M._c04_real = (real_SSL, real_Session)


class DataReceiver:
    def __init__(self, rec):
        self.rec, self.data = rec, []

    async def _handle_data(self, data):
        self.rec.obs.append("dd:" + enc_hex(bytes(data)))
        self.data.append(bytes(data))


class RtpReceiver:
    def __init__(self):
        self.rtp, self.rtcp = [], []

    def _handle_disconnect(self):
        pass

    async def _handle_rtp_packet(self, packet, arrival_time_ms):
        self.rtp.append(packet)

    async def _handle_rtcp_packet(self, packet):
        self.rtcp.append(packet)


def _instrument(t, rec, cert, ice):
    M = _M()
    orig_ctx = cert._create_ssl_context

    def create_ctx(srtp_profiles):
        ctx = orig_ctx(srtp_profiles)
        ctx._c04_rec = rec
        return ctx
    # RTCCertificate instances are shared between cases: wrap per call through a per-transport proxy
    class CertProxy:
        def __getattr__(self, k):
            return getattr(cert, k)
        _create_ssl_context = staticmethod(create_ctx)
    t._RTCDtlsTransport__local_certificate = CertProxy()

    orig_set_state = t._set_state

    def set_state(state):
        old = t._state
        orig_set_state(state)
        if t._state != old:
            rec.obs.append("st:" + t.state)
    t._set_state = set_state

    orig_setup = t._setup_srtp

    def setup():
        _CURRENT_SETUP.append(rec)
        try:
            orig_setup()
        finally:
            _CURRENT_SETUP.pop()
        if t._tx_srtp is not None and t._rx_srtp is not None:
            name = [p.openssl_profile.decode() for p in M.SRTP_PROFILES if p.libsrtp_profile == t._tx_srtp.policy_profile]
            rec.obs.append(f"keys:{name[0] if name else '?'}:{enc_hex(t._tx_srtp.policy_key)}:{enc_hex(t._rx_srtp.policy_key)}")
            rec.keys = (name[0] if name else "?", t._tx_srtp.policy_key, t._rx_srtp.policy_key,
                        t._tx_srtp.policy_type, t._rx_srtp.policy_type, t._rx_srtp.policy_profile)
    t._setup_srtp = setup

    orig_ice_recv = ice._recv

    async def ice_recv():
        data = await orig_ice_recv()
        if rec.cur is not None:
            rec.cur["data"] = bytes(data)
        return data
    ice._recv = ice_recv

    orig_recv_next = t._recv_next

    async def recv_next():
        cur = {"data": None, "ssl": "N", "srtp": "N", "timeout": False}
        rec.cur = cur
        prefix = "W" if rec.phase == "hs" else "P"
        exc_name = None
        try:
            await orig_recv_next()
        except asyncio.CancelledError:
            rec.cur = None
            raise
        except ConnectionError:
            raise
        except BaseException as exc:
            exc_name = type(exc).__name__
            raise
        finally:
            if rec.cur is not None:
                rec.cur = None
                if cur["data"] is None:
                    # either the wait timed out (handshake only) or the transport raised ConnectionError
                    rec.ev.append(prefix + ("~T" if cur["timeout"] else "~C"))
                else:
                    rec.ev.append(f"{prefix}~K~{enc_hex(cur['data'])}~{cur['ssl']}~{cur['srtp']}")
                    rec.processed += 1
                if exc_name:
                    rec.obs.append("raised:" + exc_name)
    t._recv_next = recv_next

    orig_rtp, orig_rtcp = t._handle_rtp_data, t._handle_rtcp_data

    async def h_rtp(data, arrival_time_ms):
        rec.obs.append("drtp:" + enc_hex(bytes(data)))
        await orig_rtp(data, arrival_time_ms=arrival_time_ms)

    async def h_rtcp(data):
        rec.obs.append("drtcp:" + enc_hex(bytes(data)))
        await orig_rtcp(data)
    t._handle_rtp_data, t._handle_rtcp_data = h_rtp, h_rtcp


def _certs():
    M = _M()
    if "certs" not in _CACHE:
        _CACHE["certs"] = [M.RTCCertificate.generateCertificate() for _ in range(3)]
    return _CACHE["certs"]


def build_fps(spec, cert, other_cert):
    """Fingerprint list for `cert` from a JSON spec: entries [alg-as-written, kind, value-case]."""
    import random
    M = _M()
    out = []
    for i, (alg, kind, vcase) in enumerate(spec):
        base = alg.lower()
        h = M.X509_DIGEST_ALGORITHMS.get(base) or M.X509_DIGEST_ALGORITHMS.get("sha-256") or list(M.X509_DIGEST_ALGORITHMS.values())[0]
        good = colon_hex(cert._cert.fingerprint(h))
        rng = random.Random(i * 7919 + len(alg))
        if kind == "ok":
            v = good
        elif kind == "other-cert":
            v = colon_hex(other_cert._cert.fingerprint(h))
        elif kind == "junk":
            v = "bogus_fingerprint"
        else:
            v = corrupt(rng, good, kind, good[::-1])
        out.append((alg, recase(rng, v, vcase)))
    return out


# payload types exercised on the SRTP path, with and without the marker bit; 64..80 with the marker set
# are demultiplexed as RTCP by design (RFC 5761) and are therefore not used
RTP_PTS = [0, 8, 63, 81, 90, 95, 96, 127]


def make_rtp(seq, payload, ssrc, pt=None):
    from aiortc.rtp import RtpPacket
    if pt is None:
        pt = RTP_PTS[seq % len(RTP_PTS)]
    marker = (seq // len(RTP_PTS)) % 2
    p = RtpPacket(payload_type=pt, marker=marker, sequence_number=seq & 0xFFFF, timestamp=seq * 160, ssrc=ssrc)
    p.payload = payload
    return p.serialize()


def make_rtcp(ssrc, n):
    from aiortc.rtp import RtcpSrPacket, RtcpSenderInfo
    return bytes(RtcpSrPacket(ssrc=ssrc, sender_info=RtcpSenderInfo(ntp_timestamp=n, rtp_timestamp=n * 3, packet_count=n, octet_count=n * 7)))


SSRC = {"A": 1831097322, "B": 4028317929}


async def _run_pair(case):
    M = _M()
    _install_shims()
    from aiortc.rtcrtpparameters import RTCRtpCodecParameters, RTCRtpDecodingParameters, RTCRtpReceiveParameters
    profs = {p.openssl_profile.decode(): p for p in M.SRTP_PROFILES}
    qa, qb = asyncio.Queue(), asyncio.Queue()
    stats = {"A": {"sent": 0}, "B": {"sent": 0}}
    ca, cb = Conn(qa, qb, stats["A"]), Conn(qb, qa, stats["B"])
    ice = {"A": Ice(ca, "controlling"), "B": Ice(cb, "controlled")}
    certs = _certs()
    cert = {"A": certs[0], "B": certs[1]}
    rec = {"A": Rec("A"), "B": Rec("B")}
    t, dr, rr = {}, {}, {}
    roles = {"A": case["roles"][0], "B": case["roles"][1]}
    for s in "AB":
        t[s] = M.RTCDtlsTransport(ice[s], [cert[s]])
        t[s]._srtp_profiles = [profs[n] for n in case["prof" + s]]
        if roles[s] != "auto":
            t[s]._set_role(roles[s])
        _instrument(t[s], rec[s], cert[s], ice[s])
        if case["dr"][0 if s == "A" else 1]:
            dr[s] = DataReceiver(rec[s])
            t[s]._register_data_receiver(dr[s])
        rr[s] = RtpReceiver()
        # each side's receiver listens for the peer's SSRC
        peer = "B" if s == "A" else "A"
        t[s]._register_rtp_receiver(rr[s], RTCRtpReceiveParameters(
            codecs=[RTCRtpCodecParameters(mimeType="audio/PCMU", clockRate=8000, payloadType=pt) for pt in RTP_PTS],
            encodings=[RTCRtpDecodingParameters(ssrc=SSRC[peer], payloadType=0)]))
    fps = {"A": build_fps(case["fpA"], cert["B"], certs[2]), "B": build_fps(case["fpB"], cert["A"], certs[2])}

    async def start(s):
        r = rec[s]
        r.ev.append(f"S~{'1' if ice[s].role == 'controlling' else '0'}~{enc_fps(fps[s])}")
        r.phase = "hs"
        n_obs = len(r.obs)
        try:
            await t[s].start(M.RTCDtlsParameters(
                fingerprints=[M.RTCDtlsFingerprint(algorithm=a, value=v) for a, v in fps[s]]))
        except Exception as exc:
            tag = "raised:" + type(exc).__name__
            if tag not in r.obs[n_obs:]:
                r.obs.append(tag)
        finally:
            r.phase = "run"

    async def settle():
        """Let the pumps consume everything that is in flight."""
        quiet = 0
        for _ in range(5000):
            await asyncio.sleep(0)
            idle = True
            for s, q in (("A", qa), ("B", qb)):
                task = t[s]._task
                if task is None or task.done():
                    continue
                cur = rec[s].cur
                if not q.empty() or (cur is not None and cur["data"] is not None):
                    idle = False
            quiet = quiet + 1 if idle else 0
            if quiet >= 3:
                return

    # datagrams that are already waiting when the handshake starts (SRTP-looking / junk first bytes)
    for side, hx in case.get("early", []):
        (qa if side == "A" else qb).put_nowait(bytes.fromhex(hx))

    raised = {}

    async def guarded(s):
        n = len(rec[s].obs)
        await start(s)
        if any(o.startswith("raised:") for o in rec[s].obs[n:]):
            raised[s] = True

    tasks = {s: asyncio.ensure_future(guarded(s)) for s in "AB"}
    deadline = asyncio.get_event_loop().time() + 10
    while not all(x.done() for x in tasks.values()):
        await asyncio.sleep(0.002 if raised else 0)
        if raised and all(tasks[s].done() for s in raised):
            # an exception escaped one start(): the peer can never finish its handshake; give it a moment
            await asyncio.sleep(0.02)
            break
        if asyncio.get_event_loop().time() > deadline:
            break
    for s in "AB":
        if not tasks[s].done():
            tasks[s].cancel()
            try:
                await tasks[s]
            except BaseException:
                pass
            rec[s].obs.append("start-cancelled")
    await settle()
    state_after_start = {s: t[s].state for s in "AB"}

    sent = {"A": [], "B": []}      # (kind, plaintext, altered?) in order of sending
    seq = {"A": 100, "B": 7000}
    for op in case["traffic"]:
        kind, s = op[0], op[1]
        peer = "B" if s == "A" else "A"
        r = rec[s]
        flip = op[3] if len(op) > 3 else None
        if kind == "data":
            payload = bytes.fromhex(op[2])
        elif kind == "rtp":
            seq[s] += 1
            payload = make_rtp(seq[s], bytes.fromhex(op[2]), SSRC[s])
        else:
            seq[s] += 1
            payload = make_rtcp(SSRC[s], seq[s])
        if flip is not None:
            def mut(d, flip=flip, kind=kind):
                i = flip % (len(d) * 8)
                if kind == "data" and i // 8 in (11, 12):
                    # not the DTLS record length field: a shortened length makes OpenSSL parse the tail as a
                    # second record and answer with a fatal alert (see notes/C04.md, observation O1)
                    i += 16
                return d[: i // 8] + bytes([d[i // 8] ^ (1 << (i % 8))]) + d[i // 8 + 1:]
            ice[s]._connection.mutate = mut
        r.ev.append(("D~" if kind == "data" else "R~") + enc_hex(payload))
        try:
            if kind == "data":
                await t[s]._send_data(payload)
            else:
                await t[s]._send_rtp(payload)
            sent[s].append((kind, payload, flip is not None))
        except ConnectionError:
            r.obs.append("refused")
        except Exception as exc:
            r.obs.append("raised:" + type(exc).__name__)
        ice[s]._connection.mutate = None
        await settle()

    for s in "AB":
        rec[s].ev.append("X")
        await t[s].stop()
        await settle()
    # the peer sees close_notify (or nothing, if it has no pump)
    await asyncio.sleep(0)
    await settle()
    final = {s: t[s].state for s in "AB"}
    # stop pumps that are still alive (peer failed, no close_notify reached them)
    for s in "AB":
        if t[s]._task is not None:
            t[s]._task.cancel()
    return {"rec": rec, "state": state_after_start, "final": final, "sent": sent, "fps": fps, "cert": cert,
            "dr": {s: (dr[s].data if s in dr else None) for s in "AB"}, "rr": rr,
            "keys": {s: getattr(rec[s], "keys", None) for s in "AB"},
            "hs": {s: getattr(rec[s], "hs", None) for s in "AB"}}


class Pair(Component):
    name = "pair"
    theorems = ["connected_only_if", "delivery_only_if_validated", "failed_terminal", "failed_silent", "send_refused_unless_connected",
                "srtp_only_after_setup", "recvNext_delivery", "recvNext_auth_failure_drops", "run_state_connected_iff",
                "step_to_connected", "connected_stays", "inv_step"]

    def __init__(self):
        self._cache = {}    # case key -> {"line":…, "out":…, "taken":bool}
        self._summary = {}  # impl output -> summary for the oracle

    def _names(self):
        return [p.openssl_profile.decode() for p in _M().SRTP_PROFILES]

    def corpus(self):
        n = self._names()
        good = [["sha-256", "ok", "upper"]]
        return [
            {"profA": n, "profB": n, "roles": ["auto", "auto"], "fpA": good, "fpB": good, "dr": [True, True],
             "traffic": [["data", "A", "01ff"], ["rtp", "B", "aabb"], ["rtcp", "A", ""], ["rtp", "A", "00", 100], ["data", "B", "77", 130], ["data", "B", "78"]]},
            {"profA": n, "profB": n, "roles": ["client", "server"], "fpA": [["sha-256", "junk", "asis"]], "fpB": good, "dr": [True, True],
             "traffic": [["data", "A", "01"], ["data", "B", "02"], ["rtp", "B", "03"], ["rtp", "A", "04"]]},
            {"profA": n[:1], "profB": n[-1:], "roles": ["auto", "auto"], "fpA": good, "fpB": good, "dr": [True, True],
             "traffic": [["data", "A", "01"], ["rtp", "B", "03"]]},
            {"profA": n, "profB": n, "roles": ["server", "client"], "fpA": [], "fpB": good, "dr": [True, True],
             "traffic": [["data", "B", "02"]]},
            {"profA": n, "profB": n, "roles": ["auto", "auto"], "fpA": good, "fpB": good, "dr": [True, True],
             "early": [["A", "80c8000102030405060708090a0b"], ["B", "8000000102030405060708090a0b0c0d0e0f"]],
             "traffic": [["rtp", "A", "01"], ["data", "B", "02"]]},
        ]

    def cases(self, rng, tier):
        names = self._names()
        subs = ordered_sublists(names)
        good_variants = [
            [["sha-256", "ok", "upper"]],
            [["SHA-256", "ok", "lower"]],
            [["sha-384", "ok", "mixed"], ["sha-512", "ok", "random"]],
            [["sha-512", "ok", "upper"], ["Sha-256", "ok", "lower"], ["sha-384", "ok", "asis"]],
            [["sha-1", "junk", "asis"], ["sha-256", "ok", "asis"]],
            [["md5", "ok", "asis"], ["sHa-384", "ok", "random"], ["", "junk", "asis"]],
        ]
        bad_variants = [
            [["sha-256", "flip", "asis"]],
            [["sha-256", "other-cert", "asis"]],
            [["sha-256", "ok", "upper"], ["sha-384", "flip", "upper"]],
            [["sha-512", "trunc", "lower"], ["sha-256", "ok", "lower"]],
            [["sha-1", "ok", "asis"]],
            [["sha256", "ok", "asis"], ["md5", "junk", "asis"]],
            [["sha-256", "nocolon", "asis"]],
            [["sha-256", "junk", "asis"]],
            [],
            [["sha-384", "other-cert", "lower"], ["sha-384", "ok", "lower"]],
        ]
        role_opts = [["auto", "auto"], ["client", "server"], ["server", "client"]]
        n = 300 if tier == "quick" else 9000
        out = []
        combos = [(pa, pb, r) for pa in subs for pb in subs for r in role_opts]
        rng.shuffle(combos)
        for i in range(n):
            pa, pb, r = combos[i % len(combos)]
            m = rng.random()
            fa = rng.choice(good_variants) if m < 0.6 or 0.8 <= m else rng.choice(bad_variants)
            fb = rng.choice(good_variants) if m < 0.7 else rng.choice(bad_variants)
            if rng.random() < 0.5:
                fa, fb = fb, fa
            traffic = []
            for _ in range(rng.randrange(3, 9)):
                kind = rng.choice(["data", "data", "rtp", "rtp", "rtcp"])
                s = rng.choice("AB")
                payload = bytes(rng.randrange(256) for _ in range(rng.choice([1, 1, 2, 5, 20, 200, 1100]))).hex() if kind != "rtcp" else ""
                op = [kind, s, payload]
                if rng.random() < 0.3:
                    op.append(rng.randrange(0, 1 << 14))
                traffic.append(op)
            case = {"profA": pa, "profB": pb, "roles": r, "fpA": fa, "fpB": fb,
                    "dr": [rng.random() < 0.85, rng.random() < 0.85], "traffic": traffic}
            if rng.random() < 0.3:
                case["early"] = [[rng.choice("AB"),
                                  bytes([rng.choice([0x80, 0x80, 0x90, 0xBF, 0x81, 0x00, 0x13, 0x40, 0x7F, 0xC0, 0xFF]),
                                         rng.choice([0, 200, 201, 96])] + [rng.randrange(256) for _ in range(rng.choice([0, 10, 30]))]).hex()]
                                 for _ in range(rng.choice([1, 1, 2]))]
            case["n"] = i  # keeps cases distinct: runs are cached per case (keys are random per handshake)
            out.append(case)
        return out

    # ---- running / caching ----
    def _execute(self, case):
        loop = asyncio.new_event_loop()
        try:
            res = loop.run_until_complete(_run_pair(case))
            # let cancelled pumps finish
            loop.run_until_complete(asyncio.sleep(0))
        finally:
            try:
                for task in asyncio.all_tasks(loop):
                    task.cancel()
                loop.run_until_complete(asyncio.sleep(0))
            except Exception:
                pass
            loop.close()
        specs, outs = [], []
        for s in "AB":
            r = res["rec"][s]
            role = case["roles"][0 if s == "A" else 1]
            specs.append(f"{','.join(case['prof' + s]) or '-'}/{'1' if case['dr'][0 if s == 'A' else 1] else '0'}/{role}/{';'.join(r.ev) or '-'}")
            outs.append(",".join(r.obs + ["final:" + res["final"][s]]))
        line = "dtls trace " + " ".join(specs)
        out = " | ".join(outs)
        self._summary[case_key(case) + out] = res
        return line, out

    def impl(self, case):
        k = case_key(case)
        ent = self._cache.get(k)
        if ent is not None and not ent["taken"]:
            ent["taken"] = True
            return ent["out"]
        line, out = self._execute(case)
        self._cache[k] = {"line": line, "out": out, "taken": True}
        return out

    def model_line(self, case):
        k = case_key(case)
        ent = self._cache.get(k)
        if ent is None:
            try:
                line, out = self._execute(case)
            except Exception:
                return None
            ent = self._cache[k] = {"line": line, "out": out, "taken": False}
        return ent["line"]

    # ---- the property on the implementation ----
    def oracle(self, case, impl_out):
        res = self._summary.get(case_key(case) + impl_out)
        if res is None:
            return None if not impl_out.startswith("HARNESS-EXC") else "pair run failed: " + impl_out
        M = _M()
        names_now = self._names()
        cert, fps = res["cert"], res["fps"]
        dgs = {}
        import hashlib
        from cryptography.hazmat.primitives import serialization
        for s, peer in (("A", "B"), ("B", "A")):
            der = cert[peer]._cert.public_bytes(serialization.Encoding.DER)
            dgs[s] = {"sha-256": hashlib.sha256(der).digest(), "sha-384": hashlib.sha384(der).digest(), "sha-512": hashlib.sha512(der).digest()}
        id_ok = {s: policy_accepts(fps[s], dgs[s]) for s in "AB"}
        common = [p for p in case["profA"] if p in case["profB"]]
        for s in "AB":
            peer = "B" if s == "A" else "A"
            want = "connected" if (id_ok[s] and common) else "failed"
            got = res["state"][s]
            if got != want:
                return (f"side {s} (fingerprints {'matching' if id_ok[s] else 'NOT matching'} the peer certificate, common SRTP "
                        f"profiles {common}) ended start() in state {got!r}, expected {want!r}")
            obs = res["rec"][s].obs
            delivered = [o for o in obs if o.startswith(("dd:", "drtp:", "drtcp:"))]
            if want == "failed":
                if delivered or (res["dr"][s] or []) or res["rr"][s].rtp or res["rr"][s].rtcp:
                    return f"side {s} failed the identity/SRTP checks but delivered {delivered[:3]} to its receivers"
                if res["keys"][s] is not None:
                    return f"side {s} failed but SRTP sessions were keyed"
                if any(o.startswith(("sd:", "srtp:", "srtcp:")) for o in obs):
                    return f"side {s} failed but sent application data / SRTP"
                if res["final"][s] != "failed":
                    return f"side {s}: FAILED is not terminal (final state {res['final'][s]!r})"
        if all(res["state"][s] == "connected" for s in "AB"):
            ka, kb = res["keys"]["A"], res["keys"]["B"]
            if ka is None or kb is None:
                return "connected without SRTP keys"
            if ka[0] != kb[0] or ka[0] not in common:
                return f"negotiated profiles differ or are not common: {ka[0]} / {kb[0]} (common {common})"
            if ka[1] != kb[2] or ka[2] != kb[1]:
                return f"SRTP keys are not mirror images (profile {ka[0]}, roles {case['roles']})"
            p = [q for q in M.SRTP_PROFILES if q.openssl_profile.decode() == ka[0]][0]
            if len(ka[1]) != p.key_length + p.salt_length or ka[1] == ka[2]:
                return f"SRTP key has length {len(ka[1])} or tx == rx for profile {ka[0]}"
            if not (res["hs"]["A"] and res["hs"]["B"] and res["hs"]["A"]["mat"] == res["hs"]["B"]["mat"]):
                return "exporter output differs between the two sides"
        # delivered / discarded
        for s, peer in (("A", "B"), ("B", "A")):
            both = all(res["state"][x] == "connected" for x in "AB")
            exp = {"data": [], "rtp": [], "rtcp": []}
            for kind, payload, altered in res["sent"][s]:
                if both and not altered:
                    exp[kind].append(payload)
            obs = res["rec"][peer].obs
            got = {"data": [bytes.fromhex(o[3:]) for o in obs if o.startswith("dd:")],
                   "rtp": [bytes.fromhex(o[5:]) for o in obs if o.startswith("drtp:")],
                   "rtcp": [bytes.fromhex(o[6:]) for o in obs if o.startswith("drtcp:")]}
            if res["dr"][peer] is None:
                exp["data"] = []
            for kind in exp:
                if got[kind] != exp[kind]:
                    return (f"{kind} sent by {s}: peer {peer} received {[g.hex()[:24] for g in got[kind]]}, expected exactly the unaltered "
                            f"packets {[e.hex()[:24] for e in exp[kind]]} (altered ones discarded)")
            if res["dr"][peer] is not None and res["dr"][peer] != exp["data"]:
                return f"data receiver of {peer} got {res['dr'][peer]!r}, expected {exp['data']!r}"
            rtp_payloads = [bytes(p.payload) for p in res["rr"][peer].rtp]
            from aiortc.rtp import RtpPacket
            if rtp_payloads != [bytes(RtpPacket.parse(e).payload) for e in exp["rtp"]]:
                return f"RTP receiver of {peer} did not get exactly the unaltered RTP packets sent by {s}"
            if len(res["rr"][peer].rtcp) != len(exp["rtcp"]):
                return f"RTP receiver of {peer} got {len(res['rr'][peer].rtcp)} RTCP packets, expected {len(exp['rtcp'])}"
        # sends are refused unless connected
        for s in "AB":
            n_ref = sum(1 for o in res["rec"][s].obs if o == "refused")
            n_ops = sum(1 for op in case["traffic"] if op[1] == s)
            if res["state"][s] != "connected" and n_ref != n_ops:
                return f"side {s} is {res['state'][s]} but accepted {n_ops - n_ref} send(s)"
        return None

    def label(self, case, impl_out):
        res = self._summary.get(case_key(case) + impl_out)
        if res is None:
            return "exc"
        flips = sum(1 for op in case["traffic"] if len(op) > 3)
        return f"{res['state']['A']}/{res['state']['B']}-roles:{case['roles'][0][:1]}{case['roles'][1][:1]}-" + \
               (res["keys"]["A"][0] if res["keys"]["A"] else "nokeys") + ("-flips" if flips else "")

    def shrink(self, case):
        tr = case["traffic"]
        for i in range(len(tr)):
            yield dict(case, traffic=tr[:i] + tr[i + 1:])
        for s in ("profA", "profB"):
            for i in range(len(case[s])):
                if len(case[s]) > 1:
                    yield dict(case, **{s: case[s][:i] + case[s][i + 1:]})
        for s in ("fpA", "fpB"):
            for i in range(len(case[s])):
                yield dict(case, **{s: case[s][:i] + case[s][i + 1:]})
        early = case.get("early", [])
        for i in range(len(early)):
            yield dict(case, early=early[:i] + early[i + 1:])


# ----------------------------------------------------------------------------------------------
# component 4: the intruder (wrong certificate, data coalesced with the last handshake flight)
# ----------------------------------------------------------------------------------------------

async def _run_intruder(case):
    M = _M()
    _install_shims()
    real_SSL = M._c04_real[0]
    qa, qb = asyncio.Queue(), asyncio.Queue()
    st = {"sent": 0}
    cv, cx = Conn(qa, qb, st), Conn(qb, qa, {"sent": 0})
    certs = _certs()
    victim_cert, intruder_cert, signalled = certs[0], certs[1], certs[2] if not case["good"] else certs[1]
    ice = Ice(cv, "controlling")
    t = M.RTCDtlsTransport(ice, [victim_cert])
    t._set_role(case["victim_role"])
    rec = Rec("V")
    _instrument(t, rec, victim_cert, ice)
    dr = DataReceiver(rec)
    t._register_data_receiver(dr)
    ssl = real_SSL.Connection(intruder_cert._create_ssl_context(M.SRTP_PROFILES))
    if case["victim_role"] == "server":
        ssl.set_connect_state()
    else:
        ssl.set_accept_state()
    payload = bytes.fromhex(case["payload"])

    async def intruder():
        done = False
        while True:
            try:
                ssl.do_handshake()
                done = True
            except real_SSL.WantReadError:
                pass
            out = b""
            try:
                while True:
                    out += ssl.bio_read(1500)
            except real_SSL.Error:
                pass
            if done:
                ssl.send(payload)
                more = ssl.bio_read(1500)
                if case["coalesce"]:
                    await cx.send(out + more)
                else:
                    if out:
                        await cx.send(out)
                    await cx.send(more)
                return
            if out:
                await cx.send(out)
            ssl.bio_write(await cx.recv())

    fps = build_fps([["sha-256", "ok", "upper"]], signalled, certs[0])
    rec.ev.append(f"S~1~{enc_fps(fps)}")
    rec.phase = "hs"

    async def start():
        try:
            await t.start(M.RTCDtlsParameters(fingerprints=[M.RTCDtlsFingerprint(algorithm=a, value=v) for a, v in fps]))
        except Exception as exc:
            rec.obs.append("raised:" + type(exc).__name__)
        rec.phase = "run"
    await asyncio.wait_for(asyncio.gather(start(), intruder()), 10)
    for _ in range(20):
        await asyncio.sleep(0)
    state = t.state
    rec.ev.append("X")
    await t.stop()
    for _ in range(5):
        await asyncio.sleep(0)
    return {"rec": rec, "state": state, "final": t.state, "data": dr.data}


class Intruder(Pair):
    name = "intruder"
    theorems = ["delivery_only_if_validated", "failed_silent", "connected_only_if"]

    def corpus(self):
        return [{"victim_role": "client", "coalesce": True, "good": False, "payload": "4556494c"}]

    def cases(self, rng, tier):
        out = []
        n = 4 if tier == "quick" else 40
        for role in ("client", "server"):
            for co in (True, False):
                for good in (False, True):
                    for _ in range(1 if tier == "quick" else n):
                        out.append({"victim_role": role, "coalesce": co, "good": good, "n": len(out),
                                    "payload": bytes(rng.randrange(256) for _ in range(rng.choice([1, 4, 100]))).hex()})
        return out

    def _execute(self, case):
        loop = asyncio.new_event_loop()
        try:
            res = loop.run_until_complete(_run_intruder(case))
        finally:
            try:
                for task in asyncio.all_tasks(loop):
                    task.cancel()
                loop.run_until_complete(asyncio.sleep(0))
            except Exception:
                pass
            loop.close()
        r = res["rec"]
        line = f"dtls trace {','.join(self._names())}/1/{case['victim_role']}/{';'.join(r.ev)}"
        out = ",".join(r.obs + ["final:" + res["final"]])
        self._summary[case_key(case) + out] = res
        return line, out

    def oracle(self, case, impl_out):
        res = self._summary.get(case_key(case) + impl_out)
        if res is None:
            return "intruder run failed: " + impl_out if impl_out.startswith("HARNESS-EXC") else None
        want = "connected" if case["good"] else "failed"
        if res["state"] != want:
            return f"victim ({case['victim_role']}) ended in {res['state']!r} against a peer whose certificate is {'the' if case['good'] else 'NOT the'} signalled one"
        if not case["good"] and res["data"]:
            return (f"victim ({case['victim_role']}) handed {res['data'][0].hex()} from a peer with a non-signalled certificate to its data "
                    f"receiver (before the fingerprint check) and then failed")
        return None

    def label(self, case, impl_out):
        res = self._summary.get(case_key(case) + impl_out)
        return f"{case['victim_role']}-{'coalesced' if case['coalesce'] else 'separate'}-{'good' if case['good'] else 'bad'}cert-" + \
               (res["state"] if res else "exc") + ("-delivered" if res and res["data"] else "")

    def shrink(self, case):
        if case["payload"] != "00":
            yield dict(case, payload="00")


def components(tier):
    return [Identity(), KeysComp(), Pair(), Intruder()]


def classify_finding(finding, comp_name, case, what):
    return False
