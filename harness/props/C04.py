"""C04 — DTLS connects only to the fingerprinted peer; both sides derive matching keys.

Correspondences (real code vs compiled Lean model `Model/Dtls.lean`) and, for each, the property evaluated on
the implementation alone (oracle):

* identity : SEQUENCES of validations in one process: real `_validate_peer_identity` of a fresh transport on a REAL
             completed pyOpenSSL connection whose peer certificate is a REAL x509 certificate of a pool (library-made
             ones, pairs of distinct certificates sharing serial number/subject/issuer/validity, same key re-issued,
             re-signed, RSA …), and `RTCCertificate.getFingerprints()`; the stateless model / policy answers each step;
* pair     : REAL DTLS transport pairs over an in-process datagram link, optionally AFTER earlier connections in the
             same process (legitimate peer first, then a look-alike certificate): every answer of OpenSSL / libsrtp
             observed at the call boundary is fed to the Lean automaton, which must predict exactly the observed
             effects; traffic = data / RTCP / RTP on several SSRCs with re-ordered, repeated, backward-jumping and
             wrapping sequence numbers, bit flips and overtaking in transit; the oracle checks connected/failed and,
             PER PACKET, delivered/discarded against the property text;
             data messages of every size class (0, 1, every plausible limit between 1180 and 1500, beyond one datagram,
             beyond a DTLS record) in bursts, both directions; earlier connections of the process may be raw peers (below);
* intruder : SEQUENCES of connections of a real transport with a scripted raw pyOpenSSL peer: a NON-signalled certificate
             that puts application records into the datagram of its last handshake flight (defect fixed by
             fixes/C04-data-before-identity-check.patch) / behind it / later, properly keyed SRTP before and after that
             flight, unencrypted epoch-0 records and SRTP-looking junk around every flight — followed in the same process
             by honest peers; a transport may deliver only what ITS OWN authenticated peer sent, a failed one nothing;
* frame    : real `_write_ssl` on a BIO the case fills with whole records vs the byte-stream model `sendReads`;
* srtp     : the two libsrtp sessions the real `_setup_srtp` creates on both ends of a real completed handshake,
             long RTP index sequences sender.protect → receiver.unprotect, vs the replay-window model `Link.run`;
* keys     : real `SRTPProtectionProfile.get_key_and_salt` and real `_setup_srtp` (chosen selected-profile / exporter
             answers, real `Policy` objects read back) on random keying material, both roles, all profile lists.

A failing case of a sequence component is confirmed and shrunk in a fresh copy of a process image forked before the
first case ran (harness/c04zygote.py), so that the reported input reproduces on its own.
"""
from __future__ import annotations

import asyncio
import itertools
import json

from harness.check import Component, case_key

LEAN_TARGETS = ["Aiortc.Props.C04"]
DRIVERS = ["Dtls"]
MANIFEST = {
    "technique": "Lean 4 theorems about an executable model of the decision logic of RTCDtlsTransport (fingerprint policy, "
                 "key/salt slicing and role switch, start()/pump automaton with OpenSSL/libsrtp answers as inputs) + function-level "
                 "differential runs on real certificates / real completed handshakes, as sequences in one process + trace acceptance "
                 "of real in-process DTLS pairs (also one after another) + replay-window model of the two SRTP sessions + "
                 "implementation-side oracle evaluated per validation, per packet and per data message (all size classes; what a transport "
                 "delivers is compared with what its own authenticated peer sent, across sequences of connections with hostile raw "
                 "peers) + byte-stream model of `_write_ssl` (records -> datagrams) run against the real method",
    "text": "The fingerprint policy (accepted iff at least one supported-hash fingerprint and every supported one equals the certificate "
            "digest, case-insensitively; invariant under recasing, permutation and unsupported entries), the RFC 5764 key partition "
            "(client-tx = server-rx, server-tx = client-rx for every profile of the regenerated table) and the automaton facts (CONNECTED, "
            "SRTP keys and every delivery to a data/RTP/RTCP receiver only after handshake-ok ∧ fingerprints accepted ∧ profile from the "
            "local list; FAILED terminal and silent; sends refused unless CONNECTED; unauthenticated packets dropped) are Lean theorems "
            "for all inputs; so are: what getFingerprints() signals is accepted for that certificate, and a packet the sending SRTP "
            "session lets through is never 'too old' for a receiving session whose replay window is not narrower (any order, repeats, "
            "losses); `_send_data` / `_send_rtp` never change the state and a refusal by OpenSSL / libsrtp reaches the caller; a DTLS "
            "record that fits the size `_write_ssl` reads from the BIO leaves as one whole datagram (any run of such records, bare "
            "calls in between), a longer one is cut and its tail is the head of the next datagram. The model is tied to the code by "
            "running the real methods and real DTLS pairs against the compiled model.",
    "note": "Partial by nature: that equal exporter output arises on both sides, that matching keys decrypt and that altered packets "
            "fail authentication is OpenSSL's / libsrtp's job; those are observed (pair component), not proved.",
    "design_ref": "DESIGN.md §2 C04",
}
ASSUMPTIONS = [
    "OpenSSL: do_handshake succeeds only with the holder of the private key of the certificate returned by get_peer_certificate; "
    "export_keying_material returns the same bytes on both sides; a record that fails its MAC makes recv raise SSL.Error "
    "(model input `SslRecv.error`) — observed on every pair run, not proved",
    "libsrtp: unprotect succeeds with the original plaintext iff the packet was protected with the mirror key, is unaltered and "
    "passes the receiving session's replay check (model input `Unprotect`) — observed on every pair run, not proved; the replay "
    "check itself is modelled on extended packet indexes (`Rdb.check`, window sizes read from the real Policy objects) and "
    "compared with the real sessions on every `srtp` case; generated streams keep the receiver able to infer the roll-over "
    "counter (first packet of a stream unaltered, span < 2^15)",
    "a packet whose index the receiver has already delivered (plain retransmission) and a packet the SENDING session refuses to "
    "encrypt (pylibsrtp.Error escapes `_send_rtp`: visible to the caller) are not counted as 'sent and lost'",
    "str.lower() agrees with ASCII lower-casing wherever it matters: no non-ASCII code point lower-cases into a string over "
    "[0-9a-f:] or over the characters of the supported algorithm names (checked by brute force over all code points on every "
    "run, component `identity`)",
    "data messages: 'received intact' is demanded of every message that `_send_data` accepts without an exception and whose DTLS "
    "record — length read from the record header the sender itself puts on the wire — is at most 1500 bytes, the datagram size "
    "the transport reads from / writes to OpenSSL; a longer record (1464..16384-byte message under the AES-GCM suites) is cut by "
    "`_write_ssl` of the pinned code and what follows in that direction is lost until the BIO drains: genuine defect D4 of "
    "notes/C04.md, NOT demanded by the oracle (nothing foreign may be delivered even then). An exception from `_send_data` counts "
    "as a visible refusal only for an empty message, for more than 2^14 bytes, or when the record would exceed 1500 bytes",
    "a peer that puts TWO application records into one datagram: `_recv_next` calls `recv` once per datagram, the second record "
    "waits inside OpenSSL until the next datagram arrives; the raw-peer oracle demands delivery only of records that travel in a "
    "datagram of their own while no such record is waiting (what is delivered must still be what that peer sent, in order)",
    "handlers are atomic between awaits: `_do_handshake` → `_validate_peer_identity` → `_setup_srtp` → CONNECTED run without yielding "
    "(true of the code: no await between them); start() is called at most once per transport and stop() not during the handshake",
    "the model is of the code with fixes/C04-data-before-identity-check.patch, fixes/C04-empty-fingerprints-fail.patch and "
    "fixes/C04-ascii-case-insensitive.patch applied",
]
TRUSTED_EXTRA = [
    "OpenSSL (DTLS handshake, certificate possession proof, SRTP profile negotiation, exporter, record MAC) and libsrtp "
    "(protect/unprotect, authentication, replay window) are not modelled: their answers are inputs of the Lean automaton",
    "pyOpenSSL / pylibsrtp / cryptography bindings; x509.Certificate.fingerprint",
    "harness instrumentation of the real transport (SSL.Connection / Session shims in the module namespace, per-instance "
    "wrappers of _recv_next, _set_state, _handle_rtp_data, _handle_rtcp_data); the certificate pool and the in-memory handshakes "
    "of harness/c04pool.py (cryptography / pyOpenSSL); os.fork for the fresh-process confirmation of failing sequences",
]
RULE = ("identity: sequences of 1..6 steps (validate certificate i of the real pool against a fingerprint list / getFingerprints of i); "
        "lists built from subsets/permutations/duplicates of the supported hashes with per-entry recasing of algorithm and value, "
        "corruption (digit flip, truncation, missing colons, other algorithm's digest, empty, U+FB00), unsupported / near-miss / "
        "non-ASCII algorithm names, empty list, values taken from the certificate itself, from a certificate sharing its serial "
        "number/subject/issuer/validity or its key, or from an unrelated one. keys: real and synthetic (key,salt) lengths × "
        "exact/short/long/empty material × idx; _setup_srtp over all ordered profile sublists × role × selected name (member, "
        "non-member, empty). pair: ordered profile sublists on each side × role assignment × certificate pair × fingerprint variants "
        "per side (true digests, the peer's own getLocalParameters(), another certificate's) × data-receiver presence × early "
        "SRTP-looking/junk datagrams × optional earlier connection(s) in the same process (look-alike certificate, same parties "
        "twice), then data/RTCP/RTP traffic: per (side, SSRC of 3) extended sequence numbers +1 / forward jumps / backward jumps "
        "1..1025 incl. 127,128,129,1023,1024 / retransmissions / start values around 2^15 and 2^16, bit flips and overtaking in "
        "transit; RTP over all 64 first bytes 0x80..0xBF (P x X x CC with valid CSRC list / extension block / padding), RTCP over "
        "padding x count 0..31 x packet type 192..208 (full sweeps in the corpus of every run), datagrams with every first byte "
        "0..255 that nobody protected; data messages of 0, 1..1100, every size in {1180..1463} hit around 1200/1228/1243/1244/1280/1400/1463, sizes "
        "whose record exceeds one datagram (1464..16384) and sizes OpenSSL refuses (0, >2^14), in bursts in both directions "
        "between RTP/RTCP; earlier connections may be raw peers with a non-signalled certificate. intruder: sequences of 1..4 "
        "connections of a real transport with a scripted pyOpenSSL peer (certificate signalled or not; 0..3 application records "
        "appended to the last handshake flight / in own datagrams / after start() returned; SRTP keyed from that handshake before / "
        "after the last flight; epoch-0 application records and SRTP/RTCP-looking / junk datagrams before or inside flights 1..3), "
        "last connection mostly honest. frame: 1..9 steps of record lengths 1..4000 / bare calls. "
        "srtp: 20..2000 packets per case on 3 SSRCs, same moves, both directions, every profile. distinct = distinct case JSON")

LABEL = b"EXTRACTOR-dtls_srtp"
PROPERTY_ALGS = ("sha-256", "sha-384", "sha-512")  # literal from the property text


def _M():
    from aiortc import rtcdtlstransport as M
    return M


# ----------------------------------------------------------------------------------------------
# encodings for the driver
# ----------------------------------------------------------------------------------------------

def enc_str(s: str) -> str:
    return ".".join(str(ord(c)) for c in s) if s else "-"


def enc_hex(b: bytes) -> str:
    return b.hex() if b else "-"


def enc_fps(fps) -> str:
    return ",".join(enc_str(a) + ":" + enc_str(v) for a, v in fps) if fps else "-"


def enc_digests(dg: dict) -> str:
    return ",".join(enc_str(a) + "=" + enc_hex(b) for a, b in dg.items()) if dg else "-"


def colon_hex(b: bytes) -> str:
    return b.hex(":").upper() if b else ""


_FOLD = {c: c + 32 for c in range(65, 91)}


def ascii_fold(s: str) -> str:
    """Case-insensitivity of the SDP grammar (RFC 8122: hash names and hex digits are ASCII)."""
    return s.translate(_FOLD)


def policy_accepts(fps, digests_by_alg: dict) -> bool:
    """The property text, evaluated independently of the implementation: at least one fingerprint uses a
    supported hash and every fingerprint with a supported hash matches, compared case-insensitively."""
    supported = [(ascii_fold(a), v) for a, v in fps if ascii_fold(a) in PROPERTY_ALGS]
    if not supported:
        return False
    return all(a in digests_by_alg and ascii_fold(v) == ascii_fold(colon_hex(digests_by_alg[a])) for a, v in supported)


# ----------------------------------------------------------------------------------------------
# shared stubs
# ----------------------------------------------------------------------------------------------

class StubSsl:
    """Chosen answers for the three calls whose results are INPUTS of the decision logic; everything else is passed
    through to a genuine completed pyOpenSSL connection, so that code touching other parts of the API keeps working."""
    def __init__(self, cert=None, selected=b"", material=b"", real=None):
        self.cert, self.selected, self.material = cert, selected, material
        self.export_calls = []
        self._real = real

    def __getattr__(self, k):
        real = self.__dict__.get("_real")
        if real is None or k.startswith("__"):
            raise AttributeError(k)
        return getattr(real, k)

    def get_peer_certificate(self, as_cryptography=False):
        return self.cert

    def get_selected_srtp_profile(self):
        return self.selected

    def export_keying_material(self, label, n, context=None):
        self.export_calls.append((label, n))
        return self.material[:n]


class DummyIce:
    def __init__(self, role="controlling"):
        self.role = role


_CACHE: dict = {}


def _check_casefold_assumption() -> str | None:
    """ASSUMPTIONS[2], by brute force."""
    if "fold" in _CACHE:
        return _CACHE["fold"]
    M = _M()
    algset = set("".join(M.X509_DIGEST_ALGORITHMS.keys()) + "".join(PROPERTY_ALGS))
    hexset = set("0123456789abcdef:")
    found = []
    for i in range(128, 0x110000):
        if 0xD800 <= i < 0xE000:
            continue
        low = set(chr(i).lower())
        if low <= hexset or low <= algset:
            found.append(f"U+{i:04X}")
    bad = None if not found else " ".join(found[:5])
    _CACHE["fold"] = bad
    return bad


# ----------------------------------------------------------------------------------------------
# component 1: _validate_peer_identity / getFingerprints on REAL certificates, as SEQUENCES in one process
# ----------------------------------------------------------------------------------------------

def recase(rng, s: str, mode: str) -> str:
    if mode == "upper":
        return s.upper()
    if mode == "lower":
        return s.lower()
    if mode == "mixed":
        return "".join(c.upper() if i % 2 else c.lower() for i, c in enumerate(s))
    if mode == "random":
        return "".join(c.upper() if rng.random() < 0.5 else c.lower() for c in s)
    return s


UNSUPPORTED = ["sha-1", "md5", "sha-224", "sha256", "sha_256", "", " sha-256", "sha-256 ", "ſha-256", "sha‐256",
               "SHA-1", "sha-3-256", "sha-2567", "ha-256", "ısha-256", "sha-512/256"]


def corrupt(rng, v: str, how: str, other: str) -> str:
    if how == "flip" and v:
        i = rng.randrange(len(v))
        c = v[i]
        repl = rng.choice([x for x in "0123456789ABCDEF" if x != c.upper()]) if c != ":" else "0"
        return v[:i] + repl + v[i + 1:]
    if how == "trunc":
        return v[:-1]
    if how == "trunc3":
        return v[:-3]
    if how == "nocolon":
        return v.replace(":", "")
    if how == "append":
        return v + ":00"
    if how == "empty":
        return ""
    if how == "space":
        return v + " "
    if how == "other":
        return other
    if how == "ligature":
        return v.replace("FF", "ﬀ", 1) if "FF" in v else v[:-1] + ("0" if v[-1:] != "0" else "1")
    if how == "unicode":
        return v[:1] + "ı" + v[2:] if len(v) > 1 else "ſ"
    return v + "x"


def _raised_in_harness(exc) -> bool:
    """True when the innermost frame of the traceback is harness code: the harness could not DRIVE the
    implementation (an internal name it relies on is gone) — a broken correspondence, not a property failure."""
    tb = exc.__traceback__
    if tb is None:
        return True
    while tb.tb_next is not None:
        tb = tb.tb_next
    fn = tb.tb_frame.f_code.co_filename.replace("\\", "/")
    return "/harness/" in fn


class HarnessCannotDrive(Exception):
    pass


def _describe_cert(i):
    e = _pool()["certs"][i]
    if e["of"] is None:
        return f"#{i} ({e['kind']})"
    what = {"clone": "different key; same serial number, subject, issuer, validity", "rekey": "same key, other serial number/subject",
            "resigned": "same key and to-be-signed bytes, signed again"}[e["kind"]]
    return f"#{i} ({e['kind']} of #{e['of']}: {what})"


def _pool():
    from harness import c04pool
    return c04pool.pool(_M())


# ---- hermetic confirmation of failing cases (see harness/c04zygote.py) -----------------------------

_ZYGOTE: dict = {}


def _hermetic_handler(req):
    name, case = req
    comp = {c.name: c for c in components("quick")}[name]
    return comp._run_local(case)


def _ensure_zygote():
    """Fork the pristine process image (pool built, no aiortc transport code run yet). Called at the start of the first
    component, before any case runs in this process."""
    if "z" in _ZYGOTE:
        return _ZYGOTE["z"]
    import os
    z = None
    if os.environ.get("VERIF_C04_NO_FORK") != "1" and hasattr(os, "fork"):
        try:
            from harness import c04pool, c04zygote
            c04pool.handshakes(_M())
            z = c04zygote.Zygote(_hermetic_handler)
        except Exception:
            z = None
    _ZYGOTE["z"] = z
    return z


class SeqComponent(Component):
    """A component whose cases are sequences run in ONE process. Bulk: in the check process, one case after the other.
    A case that fails there is run again in a fresh copy of the pristine process image: if it fails there too, that
    (reproducible) run is what is reported and shrunk; if it only fails after the earlier cases of the run, it is reported
    as such only when no reproducible failing case exists."""

    def _run_local(self, case):           # -> picklable result of running `case` in THIS process
        raise NotImplementedError

    def _store(self, case, result) -> str:  # keep what the oracle needs, return the canonical output string
        raise NotImplementedError

    def _oracle_raw(self, case, impl_out):
        return None

    def _snapshot(self, case):
        return None

    def _restore(self, case, snap):
        pass

    HERMETIC_BUDGET_S = 20.0   # total time spent in fresh-process runs (confirmation + shrinking) per component

    def impl(self, case):
        z = _ZYGOTE.get("z")
        if getattr(self, "_bulk", False) or z is None:
            return self._store(case, self._run_local(case))
        import time
        t0 = time.time()
        try:
            return self._store(case, z.call((self.name, case)))
        finally:
            self._herm_spent = getattr(self, "_herm_spent", 0.0) + time.time() - t0

    def _shrink(self, case):
        return []

    def shrink(self, case):
        for cand in self._shrink(case):
            if getattr(self, "_herm_spent", 0.0) > self.HERMETIC_BUDGET_S:
                return
            yield cand

    def impl_many(self, cases):
        z = _ensure_zygote()
        self._bulk = True
        try:
            outs = Component.impl_many(self, cases)
        finally:
            self._bulk = False
        self._leak, self._confirmed = {}, False
        if z is not None and len(cases) > 1:
            tested = 0
            for i, (c, o) in enumerate(zip(cases, outs)):
                try:
                    f = self._oracle_raw(c, o)
                except Exception:
                    f = None
                if not f:
                    continue
                tested += 1
                snap = self._snapshot(c)
                try:
                    ho = self.impl(c)
                    hf = self._oracle_raw(c, ho)
                except Exception:
                    self._restore(c, snap)
                    break
                if hf:
                    outs[i] = ho
                    self._confirmed = True
                    break
                self._restore(c, snap)
                self._leak[case_key(c)] = o
                if tested >= 8:
                    break
        return outs

    def oracle(self, case, impl_out):
        f = self._oracle_raw(case, impl_out)
        if f and getattr(self, "_leak", {}).get(case_key(case)) == impl_out:
            if self._confirmed:
                return None  # a reproducible failing case of the same run is reported instead
            return f + (" [observed only after the earlier cases of this run had executed in the same process: the case alone, in a "
                        "fresh process, passes — state is carried over between validations/connections]")
        return f


class Identity(SeqComponent):
    """A case is a SEQUENCE of steps run in one process on fresh transports:
    {"k": "v", "cert": i, "spec": [[alg-as-written, how, value-case, base-alg, src], …]} — `_validate_peer_identity` on a
        real completed SSL connection whose peer certificate is pool certificate i; each signalled value is the digest of
        pool certificate `src` (i itself, a twin sharing its serial number/subject/…, or an unrelated one), optionally corrupted;
    {"k": "l", "cert": i} — `RTCCertificate(i).getFingerprints()` (what this side would signal for certificate i).
    The model and the oracle are stateless and answer every step on its own."""
    name = "identity"
    theorems = ["fingerprint_policy", "fingerprint_policy_real", "rejected_without_supported", "rejected_on_mismatch",
                "accepted_perm", "accepted_recase", "accepted_unsupported_irrelevant", "accepted_ascii_recase", "algs_const",
                "lower_colonHex_injective", "accepted_pins_digest", "local_fingerprints_accepted"]

    def _twins(self):
        return [(a, b) for a, b, _ in _pool()["twins"]]

    def corpus(self):
        g = lambda c, alg="sha-256", how="ok", vm="upper", src=None: [alg, how, vm, alg.lower(), c if src is None else src]
        out = [
            {"steps": [{"k": "v", "cert": 0, "spec": []}]},
            {"steps": [{"k": "v", "cert": 0, "spec": [g(0)]}]},
            {"steps": [{"k": "v", "cert": 0, "spec": [g(0, "SHA-256", "ok", "lower")]}]},
            {"steps": [{"k": "v", "cert": 0, "spec": [g(0), g(0, "sha-384", "flip")]}]},
            {"steps": [{"k": "v", "cert": 0, "spec": [["sha-1", "ok", "asis", "sha-256", 0]]}]},
            {"steps": [{"k": "v", "cert": 0, "spec": [["sha-1", "x", "asis", "sha-256", 0], g(0, "sha-512", "ok", "mixed")]}]},
            {"steps": [{"k": "v", "cert": 0, "spec": [g(0), g(0, "sha-256", "flip")]}]},
            {"steps": [{"k": "v", "cert": 0, "spec": [g(0, "sha-256", "nocolon")]}]},
            {"steps": [{"k": "v", "cert": 8, "spec": [g(8, "sha-256", "ligature", "asis")]}]},
            {"steps": [{"k": "v", "cert": 10, "spec": [g(10), g(10, "SHA-512", "ok", "lower")]}]},
        ]
        # accept the original, then the twin is presented against the ORIGINAL's fingerprints (and the other way round)
        for a, b in self._twins():
            for x, y in ((a, b), (b, a)):
                out.append({"steps": [{"k": "v", "cert": x, "spec": [g(x)]}, {"k": "v", "cert": y, "spec": [g(y, src=x)]},
                                      {"k": "v", "cert": y, "spec": [g(y)]}, {"k": "v", "cert": x, "spec": [g(x)]}]})
                out.append({"steps": [{"k": "l", "cert": x}, {"k": "v", "cert": y, "spec": [g(y, "sha-384", src=x), g(y, "sha-512", src=x)]},
                                      {"k": "l", "cert": y}]})
        out.append({"steps": [{"k": "l", "cert": 0}, {"k": "l", "cert": 4}, {"k": "l", "cert": 0}]})
        return out

    def _gen_step(self, rng, algs, cert, src, good_bias):
        k = rng.choice([0, 1, 1, 2, 2, 3, 3, 4, 5])
        entries = []
        for _ in range(k):
            kind = "good" if rng.random() < good_bias else rng.choice(["good", "bad", "unsupported", "unsupported-goodval"])
            a = rng.choice(algs) if algs else "sha-256"
            amode = rng.choice(["asis", "upper", "lower", "mixed", "random"])
            vmode = rng.choice(["asis", "upper", "lower", "mixed", "random"])
            how = "ok"
            if kind == "bad":
                how = rng.choice(["flip", "flip", "trunc", "trunc3", "nocolon", "append", "empty", "space", "other", "unicode", "x", "ligature"])
            if kind.startswith("unsupported"):
                name = rng.choice(UNSUPPORTED)
                how = "ok" if kind.endswith("goodval") else rng.choice(["flip", "empty", "ok"])
                entries.append([name, how, vmode, a, src])
            else:
                entries.append([recase(rng, a, amode), how, vmode, a, src])
        if rng.random() < 0.3:
            rng.shuffle(entries)
        return {"k": "v", "cert": cert, "spec": entries}

    def cases(self, rng, tier):
        n = 1800 if tier == "quick" else 50000
        M = _M()
        algs = list(M.X509_DIGEST_ALGORITHMS.keys())
        ncert = len(_pool()["certs"])
        twin_of = {}
        for a, b in self._twins():
            twin_of.setdefault(a, []).append(b)
            twin_of.setdefault(b, []).append(a)
        out = []
        for _ in range(n):
            steps = []
            m = rng.random()
            if m < 0.35:
                # one validation (the old single-shot stream), every certificate kind
                c = rng.randrange(ncert)
                steps.append(self._gen_step(rng, algs, c, c, 0.55))
            elif m < 0.65:
                # a certificate is seen (validated or signalled locally), then a certificate sharing attributes with it is
                # presented against the FIRST one's fingerprints; then both again with their own
                a = rng.choice(list(twin_of))
                b = rng.choice(twin_of[a])
                first = {"k": "l", "cert": a} if rng.random() < 0.3 else self._gen_step(rng, algs, a, a, 0.9)
                steps.append(first)
                if rng.random() < 0.3:
                    steps.append({"k": "l", "cert": rng.choice([a, b])})
                steps.append(self._gen_step(rng, algs, b, a, 0.9))
                for c in rng.sample([a, b], rng.choice([0, 1, 2])):
                    steps.append(self._gen_step(rng, algs, c, c, 0.8))
            else:
                for _ in range(rng.choice([2, 2, 3, 4, 6])):
                    c = rng.randrange(ncert)
                    r = rng.random()
                    if r < 0.15:
                        steps.append({"k": "l", "cert": c})
                    else:
                        src = c if r < 0.7 else rng.choice(twin_of.get(c, [c]) + [rng.randrange(ncert)])
                        steps.append(self._gen_step(rng, algs, c, src, 0.7))
            out.append({"steps": steps, "r": rng.randrange(1 << 30)})
        return out

    # step -> ("v", cert, [(alg, value)]) | ("l", cert, None); symbolic, so that a replay file works in another process
    def _resolve(self, case):
        memo = self.__dict__.setdefault("_memo", {})
        hit = memo.get(id(case))
        if hit is not None and hit[0] is case:
            return hit[1]
        out = self._resolve_uncached(case)
        if len(memo) > 200000:
            memo.clear()
        memo[id(case)] = (case, out)
        return out

    def _resolve_uncached(self, case):
        import random
        certs = _pool()["certs"]
        algs = list(PROPERTY_ALGS)
        out = []
        for n, st in enumerate(case["steps"]):
            if st["k"] == "l":
                out.append(("l", st["cert"], None))
                continue
            rng = random.Random(case.get("r", 0) * 131 + n)
            fps = []
            for name, how, vmode, base, src in st["spec"]:
                dg = certs[src]["dg"]
                good = colon_hex(dg.get(base, b"\x00"))
                other = colon_hex(dg[algs[(algs.index(base) + 1) % len(algs)]]) if base in algs else "00"
                v = good if how == "ok" else corrupt(rng, good, how, other)
                fps.append((name, recase(rng, v, vmode)))
            out.append(("v", st["cert"], fps))
        return out

    def model_line(self, case):
        certs = _pool()["certs"]
        toks = []
        for k, c, fps in self._resolve(case):
            toks += ["L", enc_digests(certs[c]["dg"])] if k == "l" else [enc_digests(certs[c]["dg"]), enc_fps(fps)]
        return "dtls validateseq " + " ".join(toks)

    def _validate_once(self, cert_i, fps):
        """Real `_validate_peer_identity` of a FRESH transport on a real completed SSL connection."""
        from harness import c04pool
        M = _M()
        conn, local = c04pool.peer_connection(M, cert_i)
        try:
            t = M.RTCDtlsTransport(DummyIce(), [_pool()["certs"][local]["rtc"]])
            t._ssl = conn
            before = t.state
            params = M.RTCDtlsParameters(fingerprints=[M.RTCDtlsFingerprint(algorithm=a, value=v) for a, v in fps])
            validate = t._validate_peer_identity
        except Exception as exc:
            raise HarnessCannotDrive(f"{type(exc).__name__}: {exc}")
        try:
            validate(params)
        except Exception as exc:
            if _raised_in_harness(exc):
                raise HarnessCannotDrive(f"{type(exc).__name__}: {exc}")
            return "crash:" + type(exc).__name__
        after = t.state
        return "1" if after == before else ("0" if after == "failed" else "state:" + after)

    def _local_once(self, cert_i):
        M = _M()
        try:
            get = _pool()["certs"][cert_i]["rtc"].getFingerprints
        except Exception as exc:
            raise HarnessCannotDrive(f"{type(exc).__name__}: {exc}")
        try:
            got = get()
            return ";".join(sorted(ascii_fold(f.algorithm) + "=" + ascii_fold(f.value) for f in got)) or "-"
        except Exception as exc:
            if _raised_in_harness(exc):
                raise HarnessCannotDrive(f"{type(exc).__name__}: {exc}")
            return "crash:" + type(exc).__name__

    def _run_local(self, case):
        outs = []
        try:
            for k, c, fps in self._resolve(case):
                outs.append(self._local_once(c) if k == "l" else self._validate_once(c, fps))
        except HarnessCannotDrive as exc:
            return "HARNESS-EXC cannot drive the implementation: " + str(exc)[:160]
        return " ".join(outs)

    def _store(self, case, result):
        return result

    def _seen_before(self, steps, n):
        return [f"step {m + 1}: certificate {_describe_cert(c)} {'signalled locally' if k == 'l' else 'validated'}"
                for m, (k, c, _) in enumerate(steps[:n])]

    def _oracle_raw(self, case, impl_out):
        bad = _check_casefold_assumption()
        if bad:
            return f"case-folding assumption broken by {bad}"
        if impl_out.startswith("HARNESS-EXC"):
            return None  # broken correspondence (reported through the model comparison), not a failing input
        certs = _pool()["certs"]
        steps = self._resolve(case)
        outs = impl_out.split(" ")
        if len(outs) != len(steps):
            return f"{len(steps)} steps but {len(outs)} results: {impl_out[:120]!r}"
        for n, ((k, c, fps), got) in enumerate(zip(steps, outs)):
            dg = certs[c]["dg"]
            hist = "; ".join(self._seen_before(steps, n))
            ctx = f"step {n + 1} of {len(steps)}" + (f" (earlier in this process — {hist})" if hist else "")
            if k == "l":
                if got.startswith("crash:"):
                    return f"{ctx}: getFingerprints() of certificate {_describe_cert(c)} raised {got[6:]}"
                signalled = [tuple(x.split("=", 1)) for x in got.split(";") if "=" in x]
                if not policy_accepts(signalled, dg):
                    return (f"{ctx}: getFingerprints() of certificate {_describe_cert(c)} returned {signalled!r}, which a peer applying "
                            f"the fingerprint policy to this very certificate rejects (not its digests)")
                continue
            want = "1" if policy_accepts(fps, dg) else "0"
            if got != want:
                srcs = sorted({e[4] for e in case["steps"][n]["spec"]})
                return (f"{ctx}: _validate_peer_identity {'ACCEPTED' if got == '1' else 'rejected/' + got} peer certificate "
                        f"{_describe_cert(c)} against the list {fps!r} (values taken from certificate(s) {srcs}) but the fingerprint "
                        f"policy says {'accept' if want == '1' else 'reject'}")
        return None

    def _step_label(self, c, fps, got):
        dg = _pool()["certs"][c]["dg"]
        sup = [(a, v) for a, v in fps if ascii_fold(a) in PROPERTY_ALGS]
        if not fps:
            k = "empty"
        elif not sup:
            k = "none-supported"
        else:
            ok = [ascii_fold(v) == ascii_fold(colon_hex(dg[ascii_fold(a)])) for a, v in sup]
            k = "all-match" if all(ok) else "none-match" if not any(ok) else "some-match"
            if len(sup) < len(fps):
                k += "+unsupported"
            if any(a != a.lower() or v != v.upper() for a, v in sup):
                k += "+recased"
        return f"{got.split(':')[0]}:{k}"

    def label(self, case, impl_out):
        if impl_out.startswith("HARNESS-EXC"):
            return "cannot-drive"
        steps = self._resolve(case)
        outs = impl_out.split(" ")
        if len(outs) != len(steps):
            return "garbled"
        twins = {frozenset(p) for p in self._twins()}
        seen, imp = set(), False
        for n, (k, c, _) in enumerate(steps):
            if k == "v" and any(frozenset((c, e[4])) in twins and e[4] in seen for e in case["steps"][n]["spec"]):
                imp = True
            seen.add(c)
        kind = "single" if len(steps) == 1 else ("seq-twin-after-original" if imp else "seq")
        k, c, fps = steps[-1]
        last = "local" if k == "l" else self._step_label(c, fps, outs[-1])
        return f"{kind}:{last}"

    def _shrink(self, case):
        steps = case["steps"]
        for i in range(len(steps)):
            if len(steps) > 1:
                yield dict(case, steps=steps[:i] + steps[i + 1:])
        for i, st in enumerate(steps):
            if st["k"] != "v":
                continue
            sp = st["spec"]
            for j in range(len(sp)):
                yield dict(case, steps=steps[:i] + [dict(st, spec=sp[:j] + sp[j + 1:])] + steps[i + 1:])
            for j, e in enumerate(sp):
                if e[0] != e[0].lower() or e[2] != "upper":
                    yield dict(case, steps=steps[:i] + [dict(st, spec=sp[:j] + [[e[0].lower(), e[1], "upper", e[3], e[4]]] + sp[j + 1:])] + steps[i + 1:])


# ----------------------------------------------------------------------------------------------
# component 2: get_key_and_salt / _setup_srtp
# ----------------------------------------------------------------------------------------------

_SINK: list = []   # stack of lists: every SRTP session constructed by the code under test is appended to the top one


def sessions_by_direction(sessions):
    """(sending session, receiving session) among the captured ones, told apart by the ssrc_type of their policy —
    not by the attribute the transport happens to store them in. None where there is not exactly one."""
    P = _M().Policy
    tx = [x for x in sessions if x.policy_type == P.SSRC_ANY_OUTBOUND]
    rx = [x for x in sessions if x.policy_type == P.SSRC_ANY_INBOUND]
    return (tx[0] if len(tx) == 1 else None), (rx[0] if len(rx) == 1 else None)


class RecSessionStub:
    """Stands in for pylibsrtp.Session while `_setup_srtp` runs at function level: keeps the REAL `Policy` object it was
    given (key, ssrc type, profile, replay window are read back through pylibsrtp's own getters)."""
    def __init__(self, policy):
        self.policy = policy
        self.policy_type = policy.ssrc_type
        if _SINK:
            _SINK[-1].append(self)


def eff_window(w: int) -> int:
    """libsrtp: `window_size` 0 means the default of 128 packets."""
    return 128 if not w else int(w)


def policy_info(policy) -> dict:
    return {"key": bytes(policy.key), "type": policy.ssrc_type, "prof": policy.srtp_profile,
            "win": int(policy.window_size), "rep": bool(policy.allow_repeat_tx)}


def ordered_sublists(names):
    out = []
    for k in range(1, len(names) + 1):
        out.extend(list(p) for p in itertools.permutations(names, k))
    return out


def rfc5764_keys(k, s, material, role):
    """RFC 5764 §4.2: client_write_key | server_write_key | client_write_salt | server_write_salt."""
    ck, sk = material[0:k], material[k:2 * k]
    cs, ss = material[2 * k:2 * k + s], material[2 * k + s:2 * k + 2 * s]
    client, server = ck + cs, sk + ss
    return (server, client) if role == "server" else (client, server)


class KeysComp(Component):
    name = "keys"
    theorems = ["keys_mirror", "keys_partition", "keys_mirror_table", "getKeyAndSalt_length", "setupSrtp_some_iff",
                "setupSrtp_profile", "srtp_profiles_const"]

    def _profiles(self):
        M = _M()
        return {p.openssl_profile.decode(): p for p in M.SRTP_PROFILES}

    def corpus(self):
        return [
            {"op": "kas", "k": 16, "s": 14, "src": bytes(range(60)).hex(), "idx": 0},
            {"op": "kas", "k": 16, "s": 14, "src": bytes(range(60)).hex(), "idx": 1},
            {"op": "kas", "k": 32, "s": 12, "src": bytes(range(88)).hex(), "idx": 1},
            {"op": "kas", "k": 16, "s": 12, "src": "", "idx": 1},
            {"op": "setup", "role": "server", "profiles": ["SRTP_AES128_CM_SHA1_80"], "sel": "SRTP_AES128_CM_SHA1_80",
             "mat": bytes(range(100, 188)).hex()},
            {"op": "setup", "role": "client", "profiles": ["SRTP_AES128_CM_SHA1_80"], "sel": "", "mat": "00" * 88},
        ]

    def cases(self, rng, tier):
        out = []
        profs = self._profiles()
        names = list(profs)
        n = 600 if tier == "quick" else 20000
        for _ in range(n):
            if rng.random() < 0.5 and names:
                p = profs[rng.choice(names)]
                k, s = p.key_length, p.salt_length
            else:
                k, s = rng.randrange(0, 40), rng.randrange(0, 20)
            full = 2 * (k + s)
            ln = rng.choice([full, full, full, full - 1, full + 1, 0, k, 2 * k, 2 * k + s, rng.randrange(0, full + 8), 88])
            out.append({"op": "kas", "k": k, "s": s, "src": bytes(rng.randrange(256) for _ in range(max(ln, 0))).hex(),
                        "idx": rng.choice([0, 1, 0, 1, 2, 3])})
        subs = ordered_sublists(names)
        sels = names + ["", "SRTP_AES128_CM_SHA1_32", "srtp_aes128_cm_sha1_80", "SRTP_AEAD_AES_256_GC"]
        combos = [(r, ps, sel) for r in ("client", "server", "auto") for ps in subs for sel in sels]
        if tier == "quick":
            combos = rng.sample(combos, min(len(combos), 250))
        for r, ps, sel in combos:
            out.append({"op": "setup", "role": r, "profiles": ps, "sel": sel,
                        "mat": bytes(rng.randrange(256) for _ in range(88)).hex()})
        return out

    def model_line(self, case):
        if case["op"] == "kas":
            return f"dtls kas {case['k']} {case['s']} {enc_hex(bytes.fromhex(case['src']))} {case['idx']}"
        return (f"dtls setup {case['role']} {','.join(case['profiles']) or '-'} {case['sel'] or '-'} "
                f"{enc_hex(bytes.fromhex(case['mat']))}")

    def _run_setup(self, case, role=None):
        M = _M()
        profs = self._profiles()
        from harness import c04pool
        saved = M.Session
        M.Session = RecSessionStub
        ssl = StubSsl(selected=case["sel"].encode(), material=bytes.fromhex(case["mat"]), real=c04pool.peer_connection(M, 0)[0])
        made = []
        _SINK.append(made)
        try:
            try:
                t = M.RTCDtlsTransport(DummyIce(), [_pool()["certs"][0]["rtc"]])
                t._ssl = ssl
                if (role or case["role"]) != "auto":
                    t._set_role(role or case["role"])
                t._srtp_profiles = [profs[n] for n in case["profiles"]]
                before = t.state
                setup = t._setup_srtp
            except Exception as exc:
                return "HARNESS-EXC cannot drive the implementation: " + type(exc).__name__ + ": " + str(exc)[:120], None
            setup()
            if t.state == "failed":
                return "none", None
            if t.state != before:
                return "state " + t.state, None
            txs, rxs = sessions_by_direction(made)
            if txs is None or rxs is None:
                return f"sessions {sorted(x.policy_type for x in made)}", None
            rx, tx = policy_info(rxs.policy), policy_info(txs.policy)
            name = [n for n, p in profs.items() if p.libsrtp_profile == tx["prof"]]
            info = {"rx_type": rx["type"], "tx_type": tx["type"], "rx_prof": rx["prof"], "tx_prof": tx["prof"],
                    "calls": ssl.export_calls, "tx": tx["key"], "rx": rx["key"], "name": name[0] if name else "?",
                    "rx_pol": rx, "tx_pol": tx}
            return f"{info['name']} {ssl.export_calls[-1][1] if ssl.export_calls else '?'} {enc_hex(tx['key'])} {enc_hex(rx['key'])}", info
        except Exception as exc:
            if _raised_in_harness(exc):
                return "HARNESS-EXC cannot drive the implementation: " + type(exc).__name__ + ": " + str(exc)[:120], None
            return "crash " + type(exc).__name__, None
        finally:
            _SINK.pop()
            M.Session = saved

    def impl(self, case):
        M = _M()
        if case["op"] == "kas":
            p = M.SRTPProtectionProfile(libsrtp_profile=0, openssl_profile=b"x", key_length=case["k"], salt_length=case["s"])
            try:
                return enc_hex(bytes(p.get_key_and_salt(bytes.fromhex(case["src"]), case["idx"])))
            except Exception as exc:
                return "crash " + type(exc).__name__
        return self._run_setup(case)[0]

    def oracle(self, case, impl_out):
        M = _M()
        if case["op"] == "kas":
            k, s, src, idx = case["k"], case["s"], bytes.fromhex(case["src"]), case["idx"]
            if len(src) == 2 * (k + s) and idx in (0, 1):
                tx, _ = rfc5764_keys(k, s, src, "client" if idx == 0 else "server")
                if impl_out != enc_hex(tx):
                    return f"get_key_and_salt(idx={idx}) is not the RFC 5764 {'client' if idx == 0 else 'server'} key|salt for key={k} salt={s}"
            return None
        profs = self._profiles()
        sel = case["sel"]
        should = sel in case["profiles"]
        if impl_out.startswith("HARNESS-EXC"):
            return None  # broken correspondence (reported through the model comparison), not a failing input
        if impl_out.startswith("sessions "):
            return f"_setup_srtp did not create exactly one sending and one receiving SRTP session: {impl_out}"
        if (impl_out != "none") != should:
            return f"_setup_srtp {'failed' if impl_out == 'none' else 'succeeded'} with selected profile {sel!r} and local list {case['profiles']}"
        if not should:
            return None
        out, info = self._run_setup(case)
        if info is None:
            return "_setup_srtp not reproducible: " + out
        p = profs[sel]
        n = 2 * (p.key_length + p.salt_length)
        if info["calls"] != [(LABEL, n)]:
            return f"exporter called as {info['calls']}, expected one call ({LABEL!r}, {n})"
        mat = bytes.fromhex(case["mat"])[:n]
        role = "server" if case["role"] == "server" else "client"
        tx, rx = rfc5764_keys(p.key_length, p.salt_length, mat, role)
        if (info["tx"], info["rx"]) != (tx, rx):
            return f"role {case['role']}: SRTP tx/rx keys are not the RFC 5764 {role} write/read keys for {sel}"
        if info["tx_prof"] != p.libsrtp_profile or info["rx_prof"] != p.libsrtp_profile:
            return f"libsrtp profile of the sessions is not the negotiated one ({sel})"
        # mirror image of the replay windows: the peer's receiving session is configured by this very code, so whatever this
        # sending session lets through (indexes less than its window behind the newest one) the receiving one must not call
        # "too old" (Props/C04.lean `window_no_silent_loss`: rx window ≥ tx window is exactly the condition)
        wtx, wrx = eff_window(info["tx_pol"]["win"]), eff_window(info["rx_pol"]["win"])
        if wrx < wtx:
            return (f"role {case['role']}, {sel}: the receiving SRTP session has a replay window of {wrx} packets, the sending one of "
                    f"{wtx}: an RTP packet {wrx}..{wtx - 1} sequence numbers behind the newest one is encrypted by the sender and "
                    f"silently dropped (index too old) by the peer")
        # mirror image: the opposite role on the same material swaps the two keys
        other = "client" if role == "server" else "server"
        _, info2 = self._run_setup(case, role=other)
        if info2 is None or (info2["tx"], info2["rx"]) != (rx, tx):
            return f"keys of role {other} are not the mirror image of role {role} for {sel}"
        return None

    def label(self, case, impl_out):
        if case["op"] == "kas":
            k, s, n = case["k"], case["s"], len(case["src"]) // 2
            return f"kas-idx{case['idx']}-" + ("exact" if n == 2 * (k + s) else "short" if n < 2 * (k + s) else "long")
        return f"setup-{case['role']}-" + ("none" if impl_out == "none" else impl_out.split(" ")[0])

    def shrink(self, case):
        if case["op"] == "kas":
            src = bytes.fromhex(case["src"])
            if case["k"] > 1:
                yield dict(case, k=case["k"] // 2, src=src[: 2 * (case["k"] // 2 + case["s"])].hex())
            if case["s"] > 1:
                yield dict(case, s=case["s"] // 2, src=src[: 2 * (case["k"] + case["s"] // 2)].hex())
            if any(src):
                yield dict(case, src=bytes(range(len(src))).hex())
        else:
            for i in range(len(case["profiles"])):
                if len(case["profiles"]) > 1:
                    yield dict(case, profiles=case["profiles"][:i] + case["profiles"][i + 1:])
            yield dict(case, mat=bytes(range(88)).hex())


# ----------------------------------------------------------------------------------------------
# component 3: real DTLS pairs, trace acceptance
# ----------------------------------------------------------------------------------------------

class Conn:
    """One direction of an in-process datagram link: an in-transit mutation hook, an optional hold (the next datagram is
    overtaken by the following `hold` datagrams of this direction) and the log of what reached the receiving queue."""
    def __init__(self, rx, tx, stats):
        self.rx, self.tx, self.stats = rx, tx, stats
        self.mutate = None  # callable(bytes) -> bytes | None, applied to the next datagram sent
        self.hold = 0       # > 0: the next datagram sent is delivered after `hold` later ones
        self.tag = None     # op index of the traffic op that is being sent (None: handshake / alerts)
        self.held = []      # [remaining, data, tag]
        self.arrivals = []  # tags in the order the datagrams were put into the peer's queue
        self.wire = []      # (tag, length, first 13 bytes) of every datagram the transport handed to send() while a traffic op ran

    async def recv(self):
        data = await self.rx.get()
        if data is None:
            raise ConnectionError
        return data

    async def _deliver(self, data, tag):
        self.stats["sent"] += 1
        self.arrivals.append(tag)
        await self.tx.put(data)

    async def send(self, data):
        if self.tag is not None:
            self.wire.append((self.tag, len(data), bytes(data[:13])))
        if self.mutate is not None:
            f, self.mutate = self.mutate, None
            data = f(data)
            if data is None:
                return
        if self.hold > 0:
            self.held.append([self.hold, data, self.tag])
            self.hold = 0
            return
        await self._deliver(data, self.tag)
        for h in self.held:
            h[0] -= 1
        ready = [h for h in self.held if h[0] <= 0]
        self.held = [h for h in self.held if h[0] > 0]
        for _, d, tag in ready:
            await self._deliver(d, tag)

    async def flush(self):
        held, self.held = self.held, []
        for _, d, tag in held:
            await self._deliver(d, tag)


class Ice:
    def __init__(self, conn, role):
        self._connection, self.role = conn, role

    async def _recv(self):
        return await self._connection.recv()

    async def _send(self, data):
        await self._connection.send(data)

    async def stop(self):
        pass


class Rec:
    """Everything recorded about one endpoint: model events `ev`, observed effects `obs`."""
    def __init__(self, name):
        self.name, self.ev, self.obs = name, [], []
        self.sessions = []
        self.cur = None
        self.phase = "idle"
        self.processed = 0


import contextvars

# the endpoint record of the transport whose start() is running in the current asyncio task (each start() runs in its own
# task, the pump task created inside it inherits the context): lets the SRTP session proxy find its endpoint without
# wrapping any private method of the transport
_CUR_REC: contextvars.ContextVar = contextvars.ContextVar("c04_rec", default=None)


def _install_shims():
    """Replace SSL / Session in the module namespace by recording proxies (idempotent)."""
    M = _M()
    if getattr(M, "_c04_shims", False):
        return
    real_SSL, real_Session = M.SSL, M.Session
    import pylibsrtp

    class RecConn:
        def __init__(self, ctx):
            object.__setattr__(self, "_real", real_SSL.Connection(ctx))
            object.__setattr__(self, "_rec", getattr(ctx, "_c04_rec", None))

        def __getattr__(self, k):
            return getattr(self._real, k)

        def set_accept_state(self):
            if self._rec:
                self._rec.obs.append("role:server")
            return self._real.set_accept_state()

        def set_connect_state(self):
            if self._rec:
                self._rec.obs.append("role:client")
            return self._real.set_connect_state()

        def do_handshake(self):
            r = self._rec
            try:
                self._real.do_handshake()
            except real_SSL.WantReadError:
                raise
            except real_SSL.Error:
                if r:
                    r.ev.append("E")
                raise
            if r:
                cert = self._real.get_peer_certificate(as_cryptography=True)
                dg = {a: cert.fingerprint(h) for a, h in M.X509_DIGEST_ALGORITHMS.items()}
                sel = self._real.get_selected_srtp_profile() or b""
                mat = b""
                for p in M.SRTP_PROFILES:
                    if p.openssl_profile == sel:
                        mat = self._real.export_keying_material(LABEL, 2 * (p.key_length + p.salt_length))
                r.hs = {"dg": dg, "sel": sel.decode(), "mat": bytes(mat)}
                r.ev.append(f"O~{enc_digests(dg)}~{sel.decode() or '-'}~{enc_hex(bytes(mat))}")

        def export_keying_material(self, label, n, context=None):
            out = self._real.export_keying_material(label, n, context)
            r = self._rec
            if r:
                r.obs.append(f"xl:{n}")
                if label != LABEL:
                    r.obs.append("exporter-label:" + repr(label))
                if bytes(out) != r.hs["mat"]:
                    r.obs.append("exporter-differs")
            return out

        def DTLSv1_handle_timeout(self):
            r = self._rec
            if r and r.cur is not None:
                r.cur["timeout"] = True
            return self._real.DTLSv1_handle_timeout()

        def recv(self, n, flags=None):
            r = self._rec
            try:
                data = self._real.recv(n)
            except real_SSL.ZeroReturnError:
                if r and r.cur is not None:
                    r.cur["ssl"] = "Z"
                raise
            except real_SSL.Error:
                if r and r.cur is not None:
                    r.cur["ssl"] = "E"
                raise
            if r and r.cur is not None:
                r.cur["ssl"] = "D" + enc_hex(bytes(data))
            return data

        def send(self, data, flags=0):
            r = self._rec
            if r:
                r.obs.append("sd:" + enc_hex(bytes(data)))
                r.send_exc = None
            try:
                return self._real.send(data)
            except Exception as exc:
                # OpenSSL's answer to `send` is an input of the model (`D~hex~F~<exception>`): an empty message and one
                # beyond the DTLS record limit of 2^14 bytes are refused here, visibly to the caller of `_send_data`
                if r:
                    r.send_exc = type(exc).__name__
                raise

    class SslShim:
        Connection = RecConn

        def __getattr__(self, k):
            return getattr(real_SSL, k)

    class RecSession:
        def __init__(self, policy):
            self._real = real_Session(policy)
            self.policy_key = bytes(policy.key)
            self.policy_type = policy.ssrc_type
            self.policy_profile = policy.srtp_profile
            try:
                self.policy_window = (int(policy.window_size), bool(policy.allow_repeat_tx))
            except Exception:
                self.policy_window = None
            self._rec = _CUR_REC.get()
            if _SINK:
                _SINK[-1].append(self)
            r = self._rec
            if r is not None:
                r.sessions.append(self)
                tx, rx = sessions_by_direction(r.sessions)
                if tx is not None and rx is not None and getattr(r, "keys", None) is None:
                    # both sessions of this endpoint exist now (the second constructor call inside _setup_srtp)
                    name = [p.openssl_profile.decode() for p in M.SRTP_PROFILES if p.libsrtp_profile == tx.policy_profile]
                    r.obs.append(f"keys:{name[0] if name else '?'}:{enc_hex(tx.policy_key)}:{enc_hex(rx.policy_key)}")
                    r.keys = (name[0] if name else "?", tx.policy_key, rx.policy_key, tx.policy_type, rx.policy_type, rx.policy_profile)
                    r.windows = (tx.policy_window, rx.policy_window)

        def _un(self, f, data):
            r = self._rec
            try:
                out = f(data)
            except pylibsrtp.Error:
                if r and r.cur is not None:
                    r.cur["srtp"] = "F"
                raise
            if r and r.cur is not None:
                r.cur["srtp"] = "O" + enc_hex(bytes(out))
            return out

        def unprotect(self, data):
            return self._un(self._real.unprotect, data)

        def unprotect_rtcp(self, data):
            return self._un(self._real.unprotect_rtcp, data)

        def protect(self, data):
            if self._rec:
                self._rec.obs.append("srtp:" + enc_hex(bytes(data)))
            return self._real.protect(data)

        def protect_rtcp(self, data):
            if self._rec:
                self._rec.obs.append("srtcp:" + enc_hex(bytes(data)))
            return self._real.protect_rtcp(data)

    M.SSL = SslShim()
    M.Session = RecSession
    M._c04_shims = True
    M._c04_real = (real_SSL, real_Session)


class DataReceiver:
    def __init__(self, rec):
        self.rec, self.data = rec, []

    async def _handle_data(self, data):
        self.rec.obs.append("dd:" + enc_hex(bytes(data)))
        self.data.append(bytes(data))


class RtpReceiver:
    def __init__(self):
        self.rtp, self.rtcp = [], []

    def _handle_disconnect(self):
        pass

    async def _handle_rtp_packet(self, packet, arrival_time_ms):
        self.rtp.append(packet)

    async def _handle_rtcp_packet(self, packet):
        self.rtcp.append(packet)


def _instrument(t, rec, cert, ice):
    M = _M()
    orig_ctx = cert._create_ssl_context

    def create_ctx(srtp_profiles):
        ctx = orig_ctx(srtp_profiles)
        ctx._c04_rec = rec
        return ctx
    # RTCCertificate instances are shared between cases: wrap per call through a per-transport proxy
    class CertProxy:
        def __getattr__(self, k):
            return getattr(cert, k)
        _create_ssl_context = staticmethod(create_ctx)
    t._RTCDtlsTransport__local_certificate = CertProxy()

    orig_set_state = t._set_state

    def set_state(state):
        old = t._state
        orig_set_state(state)
        if t._state != old:
            rec.obs.append("st:" + t.state)
    t._set_state = set_state

    orig_ice_recv = ice._recv

    async def ice_recv():
        data = await orig_ice_recv()
        if rec.cur is not None:
            rec.cur["data"] = bytes(data)
        return data
    ice._recv = ice_recv

    orig_recv_next = t._recv_next

    async def recv_next():
        cur = {"data": None, "ssl": "N", "srtp": "N", "timeout": False}
        rec.cur = cur
        prefix = "W" if rec.phase == "hs" else "P"
        exc_name = None
        try:
            await orig_recv_next()
        except asyncio.CancelledError:
            rec.cur = None
            raise
        except ConnectionError:
            raise
        except BaseException as exc:
            exc_name = type(exc).__name__
            raise
        finally:
            if rec.cur is not None:
                rec.cur = None
                if cur["data"] is None:
                    # either the wait timed out (handshake only) or the transport raised ConnectionError
                    rec.ev.append(prefix + ("~T" if cur["timeout"] else "~C"))
                else:
                    # the model demultiplexes on the first two bytes of the datagram: a prefix keeps the request lines short
                    rec.ev.append(f"{prefix}~K~{enc_hex(cur['data'][:24])}~{cur['ssl']}~{cur['srtp']}")
                    rec.processed += 1
                if exc_name:
                    rec.obs.append("raised:" + exc_name)
    t._recv_next = recv_next

    orig_rtp, orig_rtcp = t._handle_rtp_data, t._handle_rtcp_data

    async def h_rtp(data, arrival_time_ms):
        rec.obs.append("drtp:" + enc_hex(bytes(data)))
        await orig_rtp(data, arrival_time_ms=arrival_time_ms)

    async def h_rtcp(data):
        rec.obs.append("drtcp:" + enc_hex(bytes(data)))
        await orig_rtcp(data)
    t._handle_rtp_data, t._handle_rtcp_data = h_rtp, h_rtcp


def _certs():
    return [e["rtc"] for e in _pool()["certs"]]


def build_fps(spec, cert_i, other_i=2, signalled=None):
    """Fingerprint list expected of the peer whose certificate is pool certificate `cert_i`, from a JSON spec of entries
    [alg-as-written, kind, value-case]; kind: "ok" (true digest of that certificate), "of:<j>" (true digest of pool
    certificate j), "other-cert", "signalled" (what the peer transport's own getLocalParameters() says), "junk", or a
    corruption of the true digest."""
    import random
    certs = _pool()["certs"]
    out = []
    for i, (alg, kind, vcase) in enumerate(spec):
        base = alg.lower() if alg.lower() in PROPERTY_ALGS else "sha-256"
        good = colon_hex(certs[cert_i]["dg"][base])
        rng = random.Random(i * 7919 + len(alg))
        if kind == "ok":
            v = good
        elif kind == "other-cert":
            v = colon_hex(certs[other_i]["dg"][base])
        elif kind.startswith("of:"):
            v = colon_hex(certs[int(kind[3:])]["dg"][base])
        elif kind == "signalled":
            v = next((f.value for f in (signalled or []) if ascii_fold(f.algorithm) == base), "bogus_fingerprint")
        elif kind == "junk":
            v = "bogus_fingerprint"
        else:
            v = corrupt(rng, good, kind, good[::-1])
        out.append((alg, recase(rng, v, vcase)))
    return out


# payload types exercised on the SRTP path, with and without the marker bit; 64..80 with the marker set
# are demultiplexed as RTCP by design (RFC 5761) and are therefore not used
RTP_PTS = [0, 8, 63, 81, 90, 95, 96, 127]


def make_rtp(seq, payload, ssrc, pt=None, hdr=None):
    """`hdr` (0..63) = the low six bits of the first byte: P (32) | X (16) | CC (0..15); the packet then carries a CSRC list of CC
    entries, a one-byte-header extension block and/or padding, so that it is a VALID RTP packet with that first byte."""
    if pt is None:
        pt = RTP_PTS[seq % len(RTP_PTS)]
    marker = (seq // len(RTP_PTS)) % 2
    if hdr is None:
        from aiortc.rtp import RtpPacket
        p = RtpPacket(payload_type=pt, marker=marker, sequence_number=seq & 0xFFFF, timestamp=(seq * 160) & 0xFFFFFFFF, ssrc=ssrc)
        p.payload = payload
        return p.serialize()
    import struct
    hdr &= 0x3F
    b = struct.pack("!BBHII", 0x80 | hdr, (marker << 7) | pt, seq & 0xFFFF, (seq * 160) & 0xFFFFFFFF, ssrc)
    b += b"".join(struct.pack("!I", 0x51C0000 + i) for i in range(hdr & 15))
    if hdr & 16:
        b += b"\xbe\xde\x00\x01" + b"\x10\xa5\x00\x00"      # RFC 8285 one-byte header: id 1, one byte of data, two bytes of padding
    b += payload
    if hdr & 32:
        n = 4 - len(b) % 4
        b += bytes(n - 1) + bytes([n])
    return b


def make_rtcp(ssrc, n, pt=None, fb=None):
    """`fb` (0..63) = the low six bits of the first byte: P (32) | count / FMT / subtype (0..31); `pt` = RTCP packet type (second
    byte, 192..208 is what `is_rtcp` sends through SRTCP). The body has `count` well-formed items for SR/RR/SDES/BYE."""
    if pt is None and fb is None:
        from aiortc.rtp import RtcpSrPacket, RtcpSenderInfo
        return bytes(RtcpSrPacket(ssrc=ssrc, sender_info=RtcpSenderInfo(ntp_timestamp=n, rtp_timestamp=n * 3, packet_count=n, octet_count=n * 7)))
    import struct
    pt = 200 if pt is None else pt
    fb = (fb or 0) & 0x3F
    count = fb & 31
    block = lambda i: struct.pack("!IIIIII", 0x7000 + i, (i << 24) | 5, 1000 + i, n & 0xFFFF, i, n + i)
    if pt == 200:
        body = struct.pack("!IQIII", ssrc, n, n * 3, n, n * 7) + b"".join(block(i) for i in range(count))
    elif pt == 201:
        body = struct.pack("!I", ssrc) + b"".join(block(i) for i in range(count))
    elif pt == 202:
        body = b"".join(struct.pack("!I", ssrc + i) + b"\x01\x02ab" for i in range(max(count, 1)))
    elif pt == 203:
        body = b"".join(struct.pack("!I", ssrc + i) for i in range(max(count, 1)))
    elif pt == 204:
        body = struct.pack("!I", ssrc) + b"c04 " + struct.pack("!I", n)
    else:
        body = struct.pack("!III", ssrc, 0x7001, n)
    if fb & 32:
        body += b"\x00\x00\x00\x04"
    return struct.pack("!BBH", 0x80 | fb, pt, len(body) // 4) + body


SSRCS = {"A": [1831097322, 305419896, 4294901761], "B": [4028317929, 7, 2863311530]}
SSRC = {s: v[0] for s, v in SSRCS.items()}


def pattern(n, salt=0) -> bytes:
    """n payload bytes that differ from position to position and from message to message (a truncated, shifted or spliced
    message never equals another one of the case)."""
    return bytes(((salt * 37 + 11) + i * (1 + salt % 7) + (i >> 8) * 13) % 251 for i in range(n))


def norm_ops(traffic):
    """Traffic ops in canonical dict form. Legacy list form [kind, side, payload-hex, flip?]: RTP/RTCP on the side's first
    SSRC with the next sequence number. Dict form: {"op", "s", "pl" (payload hex) or "n" (payload = `pattern(n, position)`),
    "flip", "k" (SSRC index), "ext" (extended sequence number ROC·65536+seq of an RTP packet), "hold" (datagram overtaken in
    transit by the next `hold` ones)}."""
    seq = {"A": 100, "B": 7000}
    out = []
    for pos, op in enumerate(traffic):
        if isinstance(op, dict):
            pl = op.get("pl", "") if op.get("n") is None else pattern(op["n"], op.get("salt", pos)).hex()
            d = {"op": op["op"], "s": op["s"], "pl": pl, "flip": op.get("flip"), "k": op.get("k", 0),
                 "ext": op.get("ext"), "hold": op.get("hold", 0), "hdr": op.get("hdr"), "pt": op.get("pt")}
        else:
            d = {"op": op[0], "s": op[1], "pl": op[2], "flip": op[3] if len(op) > 3 else None, "k": 0, "ext": None, "hold": 0,
                 "hdr": None, "pt": None}
        if d["op"] in ("rtp", "rtcp") and d["ext"] is None:
            seq[d["s"]] += 1
            d["ext"] = seq[d["s"]]
        out.append(d)
    return out


async def _run_conn(case):
    """One connection attempt between two real transports + traffic; returns plain (picklable) data."""
    M = _M()
    _install_shims()
    import pylibsrtp
    from aiortc.rtcrtpparameters import RTCRtpCodecParameters, RTCRtpDecodingParameters, RTCRtpReceiveParameters
    profs = {p.openssl_profile.decode(): p for p in M.SRTP_PROFILES}
    qa, qb = asyncio.Queue(), asyncio.Queue()
    stats = {"A": {"sent": 0}, "B": {"sent": 0}}
    ca, cb = Conn(qa, qb, stats["A"]), Conn(qb, qa, stats["B"])
    ice = {"A": Ice(ca, "controlling"), "B": Ice(cb, "controlled")}
    certs = _certs()
    ci = {"A": case.get("certA", 0), "B": case.get("certB", 1)}
    cert = {s: certs[ci[s]] for s in "AB"}
    rec = {"A": Rec("A"), "B": Rec("B")}
    t, dr, rr = {}, {}, {}
    roles = {"A": case["roles"][0], "B": case["roles"][1]}
    for s in "AB":
        t[s] = M.RTCDtlsTransport(ice[s], [cert[s]])
        t[s]._srtp_profiles = [profs[n] for n in case["prof" + s]]
        if roles[s] != "auto":
            t[s]._set_role(roles[s])
        _instrument(t[s], rec[s], cert[s], ice[s])
        if case["dr"][0 if s == "A" else 1]:
            dr[s] = DataReceiver(rec[s])
            t[s]._register_data_receiver(dr[s])
        rr[s] = RtpReceiver()
        # each side's receiver listens for the peer's SSRCs
        peer = "B" if s == "A" else "A"
        t[s]._register_rtp_receiver(rr[s], RTCRtpReceiveParameters(
            codecs=[RTCRtpCodecParameters(mimeType="audio/PCMU", clockRate=8000, payloadType=pt) for pt in RTP_PTS],
            encodings=[RTCRtpDecodingParameters(ssrc=x, payloadType=0) for x in SSRCS[peer]]))
    fps = {}
    for s, peer in (("A", "B"), ("B", "A")):
        spec = case["fp" + s]
        signalled = None
        if any(e[1] == "signalled" for e in spec):
            try:
                signalled = t[peer].getLocalParameters().fingerprints
            except Exception:
                signalled = []
        fps[s] = build_fps(spec, ci[peer], 2, signalled)

    async def start(s):
        r = rec[s]
        _CUR_REC.set(r)
        r.ev.append(f"S~{'1' if ice[s].role == 'controlling' else '0'}~{enc_fps(fps[s])}")
        r.phase = "hs"
        n_obs = len(r.obs)
        try:
            await t[s].start(M.RTCDtlsParameters(
                fingerprints=[M.RTCDtlsFingerprint(algorithm=a, value=v) for a, v in fps[s]]))
        except Exception as exc:
            tag = "raised:" + type(exc).__name__
            if tag not in r.obs[n_obs:]:
                r.obs.append(tag)
        finally:
            r.phase = "run"

    async def settle():
        """Let the pumps consume everything that is in flight."""
        quiet = 0
        for _ in range(5000):
            await asyncio.sleep(0)
            idle = True
            for s, q in (("A", qa), ("B", qb)):
                task = t[s]._task
                if task is None or task.done():
                    continue
                cur = rec[s].cur
                if not q.empty() or (cur is not None and cur["data"] is not None):
                    idle = False
            quiet = quiet + 1 if idle else 0
            if quiet >= 3:
                return

    # datagrams that are already waiting when the handshake starts (SRTP-looking / junk first bytes)
    for side, hx in case.get("early", []):
        (qa if side == "A" else qb).put_nowait(bytes.fromhex(hx))

    raised = {}

    async def guarded(s):
        n = len(rec[s].obs)
        await start(s)
        if any(o.startswith("raised:") for o in rec[s].obs[n:]):
            raised[s] = True

    tasks = {s: asyncio.ensure_future(guarded(s)) for s in "AB"}
    deadline = asyncio.get_event_loop().time() + 10
    while not all(x.done() for x in tasks.values()):
        await asyncio.sleep(0.002 if raised else 0)
        if raised and all(tasks[s].done() for s in raised):
            # an exception escaped one start(): the peer can never finish its handshake; give it a moment
            await asyncio.sleep(0.02)
            break
        if asyncio.get_event_loop().time() > deadline:
            break
    for s in "AB":
        if not tasks[s].done():
            tasks[s].cancel()
            try:
                await tasks[s]
            except BaseException:
                pass
            rec[s].obs.append("start-cancelled")
    await settle()
    state_after_start = {s: t[s].state for s in "AB"}

    ops = []      # one record per traffic op
    rtcp_n = {"A": 0, "B": 0}
    for idx, op in enumerate(norm_ops(case["traffic"])):
        kind, s = op["op"], op["s"]
        r = rec[s]
        flip = op["flip"]
        ssrc = SSRCS[s][op["k"] % len(SSRCS[s])]
        if kind == "junk":
            # a datagram that did not come from the peer's transport (anything can arrive on the ICE socket): put on the link as is
            payload = bytes.fromhex(op["pl"])
            conn = ice[s]._connection
            conn.tag = idx
            await conn.send(payload)
            conn.tag = None
            ops.append({"i": idx, "kind": "junk", "s": s, "plain": payload, "altered": False, "hold": 0, "k": 0, "ext": None,
                        "ssrc": None, "status": "junk", "generic": True})
            await settle()
            continue
        if kind == "data":
            payload = bytes.fromhex(op["pl"])
        elif kind == "rtp":
            payload = make_rtp(op["ext"], bytes.fromhex(op["pl"]), ssrc, hdr=op["hdr"])
        else:
            rtcp_n[s] += 1
            payload = make_rtcp(ssrc, 1000 * op["k"] + rtcp_n[s], pt=op["pt"], fb=op["hdr"])
        conn = ice[s]._connection
        if flip is not None:
            def mut(d, flip=flip, kind=kind):
                i = flip % (len(d) * 8)
                if kind == "data" and i // 8 in (11, 12):
                    # not the DTLS record length field: a shortened length makes OpenSSL parse the tail as a
                    # second record and answer with a fatal alert (see notes/C04.md, observation O1)
                    i += 16
                return d[: i // 8] + bytes([d[i // 8] ^ (1 << (i % 8))]) + d[i // 8 + 1:]
            conn.mutate = mut
        conn.hold, conn.tag = op["hold"], idx
        n_ev = len(r.ev)
        r.ev.append(("D~" if kind == "data" else "R~") + enc_hex(payload))
        status = "sent"
        try:
            if kind == "data":
                await t[s]._send_data(payload)
            else:
                await t[s]._send_rtp(payload)
        except ConnectionError:
            r.obs.append("refused")
            status = "refused"
        except pylibsrtp.Error:
            # the SENDING libsrtp session refused to encrypt the packet (index behind its own replay window): visible to
            # the caller, nothing was put on the wire
            r.ev[n_ev] += "~F"
            r.obs.append("raised:Error")
            status = "txerr"
        except Exception as exc:
            if kind == "data" and getattr(r, "send_exc", None) == type(exc).__name__:
                # OpenSSL itself refused the message (`SSL.Connection.send` raised): visible to the caller
                r.ev[n_ev] += "~F~" + r.send_exc
                status = "sslerr:" + type(exc).__name__
            else:
                status = "raised:" + type(exc).__name__
            r.obs.append("raised:" + type(exc).__name__)
        r.send_exc = None
        conn.mutate, conn.hold, conn.tag = None, 0, None
        ops.append({"i": idx, "kind": kind, "s": s, "plain": payload, "altered": flip is not None, "hold": op["hold"],
                    "k": op["k"], "ext": op["ext"], "ssrc": ssrc, "status": status, "generic": op["hdr"] is not None or op["pt"] is not None})
        await settle()
    for s in "AB":
        await ice[s]._connection.flush()
    await settle()

    for s in "AB":
        rec[s].ev.append("X")
        await t[s].stop()
        await settle()
    # the peer sees close_notify (or nothing, if it has no pump)
    await asyncio.sleep(0)
    await settle()
    final = {s: t[s].state for s in "AB"}
    # stop pumps that are still alive (peer failed, no close_notify reached them)
    for s in "AB":
        if t[s]._task is not None:
            t[s]._task.cancel()
    pool = _pool()["certs"]
    return {"ev": {s: rec[s].ev for s in "AB"}, "obs": {s: rec[s].obs for s in "AB"},
            "state": state_after_start, "final": final, "ops": ops, "fps": fps, "cert": ci,
            "dgs": {"A": pool[ci["B"]]["dg"], "B": pool[ci["A"]]["dg"]},
            # datagrams that reached X's queue were sent by the other side: arrivals[X] = tags in arrival order
            "arrivals": {"A": list(cb.arrivals), "B": list(ca.arrivals)},
            # what each side handed to its ICE transport while one of its traffic ops ran: (op index, length, first 13 bytes)
            "wire": {"A": list(ca.wire), "B": list(cb.wire)},
            "dr": {s: (list(dr[s].data) if s in dr else None) for s in "AB"},
            "rr": {s: {"rtp": [(p.ssrc, p.sequence_number, bytes(p.payload)) for p in rr[s].rtp], "rtcp": len(rr[s].rtcp)} for s in "AB"},
            "keys": {s: getattr(rec[s], "keys", None) for s in "AB"},
            "windows": {s: getattr(rec[s], "windows", None) for s in "AB"},
            "mat": {s: (rec[s].hs["mat"] if getattr(rec[s], "hs", None) else None) for s in "AB"}}


def _run_loop(coro_fn, case):
    loop = asyncio.new_event_loop()
    try:
        res = loop.run_until_complete(coro_fn(case))
        # let cancelled pumps finish
        loop.run_until_complete(asyncio.sleep(0))
        return res
    finally:
        try:
            for task in asyncio.all_tasks(loop):
                task.cancel()
            loop.run_until_complete(asyncio.sleep(0))
        except Exception:
            pass
        loop.close()


MIN_WINDOW = 64  # libsrtp's smallest replay window: a packet held back in transit is only required while it is this close

# Application data (`_send_data`). DTLS never fragments an application record: one message = one record = one datagram.
MAX_DATAGRAM = 1500        # literal: the largest datagram the transport reads from / writes to OpenSSL (Ethernet MTU). A message
#                            whose DTLS record is at most this long must cross in ONE datagram and be delivered intact.
MAX_DTLS_PLAIN = 1 << 14   # RFC 6347 §4.1 / RFC 5246 §6.2.1: a record carries at most 2^14 bytes; OpenSSL refuses more
# size classes of generated data messages (every plausible internal limit between a typical SCTP packet and the datagram size)
DATA_SMALL = [1, 1, 2, 5, 20, 200, 1100]
DATA_EDGE = [1, 1180, 1199, 1200, 1201, 1228, 1243, 1244, 1245, 1265, 1279, 1280, 1281, 1300, 1350, 1399, 1400, 1401, 1436, 1450,
             1460, 1462, 1463]
DATA_OVER = [1464, 1465, 1487, 1488, 1500, 1501, 2000, 16384]   # record longer than one datagram (see notes/C04.md, D4)
DATA_REFUSED = [0, 16385, 17000]                                 # OpenSSL refuses: `_send_data` raises, nothing is sent


def _wire_by_op(res, s):
    out = {}
    for tag, ln, head in (res.get("wire") or {}).get(s, []):
        out.setdefault(tag, []).append((ln, head))
    return out


def _declared_record(dgrams):
    """Length (header included) of the DTLS application-data record that starts the first datagram of a data op, read from
    the record header the sender itself put on the wire; None when the datagram does not start with such a header."""
    if not dgrams:
        return None
    head = dgrams[0][1]
    if len(head) == 13 and head[0] == 23 and head[1] == 0xFE and head[3:5] == b"\x00\x01":
        return 13 + int.from_bytes(head[11:13], "big")
    return None


def _data_facts(res):
    """Per data op index: {"n", "rec" (declared record length or None), "over" (the record does not fit one datagram),
    "poisoned" (an earlier message of the same sender did not fit: documented defect D4 wedges what follows)}, and the record
    overhead observed on this connection (None when no data record was seen)."""
    facts, overhead = {}, None
    for s in "AB":
        wire = _wire_by_op(res, s)
        poisoned = False
        for o in res["ops"]:
            if o["s"] != s or o["kind"] != "data":
                continue
            n = len(o["plain"])
            rec = _declared_record(wire.get(o["i"])) if o["status"] == "sent" else None
            if rec is not None and rec >= n + 13:
                overhead = rec - n if overhead is None else min(overhead, rec - n)
            over = (rec if rec is not None else n + 13) > MAX_DATAGRAM
            facts[o["i"]] = {"n": n, "rec": rec, "over": over, "poisoned": poisoned, "dgrams": [d[0] for d in wire.get(o["i"], [])]}
            if over and o["status"] == "sent":
                poisoned = True
    return facts, overhead


class Pair(SeqComponent):
    """A case is one connection attempt (+ traffic), optionally preceded by earlier connections (`pre`) made in the same
    process — e.g. a legitimate peer first, then an impostor whose certificate copies the legitimate one's serial number."""
    name = "pair"
    theorems = ["connected_only_if", "delivery_only_if_validated", "failed_terminal", "failed_silent", "send_refused_unless_connected",
                "srtp_only_after_setup", "recvNext_delivery", "recvNext_auth_failure_drops", "run_state_connected_iff",
                "step_to_connected", "connected_stays", "inv_step", "sendRtp_state_unchanged", "sendRtp_protect_failure_visible",
                "window_no_silent_loss", "demux_rfc7983", "demux_table", "recvNext_drop", "recvNext_srtp_sweep", "recvNext_dtls_sweep"]

    def __init__(self):
        self._cache = {}    # case key -> {"line":…, "out":…, "taken":bool}
        self._summary = {}  # case key + impl output -> list of per-connection results, for the oracle

    def _names(self):
        return [p.openssl_profile.decode() for p in _M().SRTP_PROFILES]

    def _conns(self, case):
        return list(case.get("pre", [])) + [case]

    @staticmethod
    def _kind(c):
        """"raw": a real transport against a scripted pyOpenSSL peer (`_run_raw`); "pair": two real transports (`_run_conn`)."""
        return "raw" if "victim_role" in c else "pair"

    def corpus(self):
        n = self._names()
        good = [["sha-256", "ok", "upper"]]
        base = {"profA": n, "profB": n, "roles": ["auto", "auto"], "fpA": good, "fpB": good, "dr": [True, True]}
        out = [
            dict(base, traffic=[["data", "A", "01ff"], ["rtp", "B", "aabb"], ["rtcp", "A", ""], ["rtp", "A", "00", 100], ["data", "B", "77", 130], ["data", "B", "78"]]),
            dict(base, roles=["client", "server"], fpA=[["sha-256", "junk", "asis"]],
                 traffic=[["data", "A", "01"], ["data", "B", "02"], ["rtp", "B", "03"], ["rtp", "A", "04"]]),
            dict(base, profA=n[:1], profB=n[-1:], traffic=[["data", "A", "01"], ["rtp", "B", "03"]]),
            dict(base, roles=["server", "client"], fpA=[], traffic=[["data", "B", "02"]]),
            dict(base, early=[["A", "80c8000102030405060708090a0b"], ["B", "8000000102030405060708090a0b0c0d0e0f"]],
                 traffic=[["rtp", "A", "01"], ["data", "B", "02"]]),
        ]
        # one SSRC: a burst, packets at and around both edges of the 1024-packet window behind the newest one, a
        # retransmission, 16-bit wrap-around; then the same on a second SSRC and in the other direction
        def rtp(s, ext, k=0, **kw):
            return dict({"op": "rtp", "s": s, "pl": "%04x" % (ext & 0xFFFF), "k": k, "ext": ext}, **kw)
        for roles in (["client", "server"], ["server", "client"]):
            for prof in n:
                tr = [rtp("A", 3000), rtp("A", 3001), rtp("A", 3001 - 127), rtp("A", 3001 - 128), rtp("A", 3001 - 129),
                      rtp("A", 3001 - 1023), rtp("A", 3001 - 1024), rtp("A", 3001 - 500), rtp("A", 3001 - 500), rtp("A", 3002),
                      rtp("B", 65000, 1), rtp("B", 65535, 1), rtp("B", 65536 + 600, 1), rtp("B", 65536 + 600 - 1023, 1),
                      rtp("B", 65536 + 600 - 129, 1, hold=2), rtp("B", 65536 + 601, 1), rtp("B", 65536 + 602, 1),
                      {"op": "rtcp", "s": "A", "k": 1}, {"op": "rtcp", "s": "A", "k": 1, "hold": 1}, {"op": "rtcp", "s": "A", "k": 0},
                      {"op": "data", "s": "B", "pl": "0a0b", "hold": 1}, {"op": "data", "s": "B", "pl": "0c"}]
                out.append(dict(base, roles=roles, profA=[prof], profB=[prof], traffic=tr))
        # every first byte 0x80..0xBF: RTP with each of the 64 layouts P x X x CC (valid CSRC list / extension block / padding),
        # payload types and marker cycling; RTCP with each padding x count and every packet type 192..208 (at count 0, 31 and
        # 31 + padding as well); one direction each, then the other way round under the other role assignment / profile
        def first_bytes(a, b):
            tr = [dict(rtp(a, 900 + h, 1), hdr=h) for h in range(64)]
            tr += [{"op": "rtcp", "s": b, "k": h % 3, "hdr": h, "pt": 192 + h % 17} for h in range(64)]
            tr += [{"op": "rtcp", "s": b, "k": 0, "hdr": h, "pt": t} for t in range(192, 209) for h in (0, 31, 63)]
            tr += [dict(rtp(a, 1000 + j, 1), hdr=63, pl="%02x" % j * (1 + 40 * j)) for j in range(4)]
            return tr
        out.append(dict(base, roles=["client", "server"], traffic=first_bytes("A", "B")))
        # all 256 first bytes on datagrams nobody protected: [20..63] goes to OpenSSL, [128..191] to libsrtp (both discard it),
        # everything else is dropped at once — the model must predict the same class for each; traffic still flows afterwards
        out.append(dict(base, traffic=[["rtp", "A", "01"], ["data", "A", "02"]] +
                        [{"op": "junk", "s": "AB"[b % 2], "pl": "%02x" % b + ("c8" if b % 3 == 0 else "60") + pattern(38, b).hex()} for b in range(256)] +
                        [{"op": "junk", "s": "A", "pl": "bf"}, {"op": "junk", "s": "B", "pl": "14"}, ["rtp", "A", "03"], ["data", "B", "04"], ["rtp", "B", "05"], ["data", "A", "06"]]))
        out.append(dict(base, roles=["server", "client"], profA=n[-1:], profB=n[-1:], traffic=first_bytes("B", "A")[::2]))
        # data messages of every size class in both directions, RTP/RTCP in between; then sizes OpenSSL refuses (visible, the
        # traffic after them still flows); last the sizes whose record does not fit one datagram
        def data(s_, n_, **kw):
            return dict({"op": "data", "s": s_, "n": n_}, **kw)
        sweep = []
        for j, n_ in enumerate(DATA_EDGE):
            sweep += [data("A", n_), data("B", n_)]
            if j % 4 == 1:
                sweep += [rtp("A", 500 + j, 2), {"op": "rtcp", "s": "B", "k": 2}]
        tail = [data("A", 0), data("B", 16385), data("A", 7), data("B", 1463), data("A", 1463, hold=1), data("A", 1244), data("A", 3, flip=77),
                data("B", 1300, flip=5000), data("B", 1280), data("A", 1464), data("B", 5), data("B", 16384), data("A", 9)]
        out.append(dict(base, traffic=sweep + tail))
        for roles in (["client", "server"], ["server", "client"]):
            out.append(dict(base, roles=roles, traffic=sweep[::3] + [x for x in tail if x["n"] < 16384]))
        for prof in n:
            out.append(dict(base, roles=["client", "server"], profA=[prof], profB=[prof],
                            traffic=[data("A", 1244), data("B", 1463), rtp("B", 10), data("A", 1), data("B", 1280), data("A", 1463), data("B", 2)]))
        # a raw peer with a non-signalled certificate sends its first application record in the datagram of its last handshake
        # flight (decrypted inside the victim's handshake loop) and more behind it; then an honest pair connects and talks
        for vrole in ("client", "server"):
            eager = {"victim_role": vrole, "good": False, "msgs": [["e1" + "45" * 20, "c"], ["e2" + "46" * 5, "s"]], "late": ["e3aa"],
                     "srtp": [["b", 10], ["a", 11]], "intruder_cert": 1, "signalled_cert": 2, "victim_cert": 0}
            out.append(dict(base, certA=0, certB=3, traffic=[["data", "A", "01"], ["data", "B", "02"], ["rtp", "B", "03"], ["data", "B", "04"]],
                            pre=[eager]))
        # a legitimate peer, then — same process — another party whose certificate shares attributes with the legitimate one
        for a, b, _ in _pool()["twins"]:
            for x, y in ((a, b), (b, a)):
                legit = dict(base, certA=2 if x != 2 and y != 2 else 0, certB=x, traffic=[["data", "B", "01"]])
                out.append(dict(base, certA=legit["certA"], certB=y, fpA=[["sha-256", f"of:{x}", "upper"], ["sha-512", f"of:{x}", "lower"]],
                                traffic=[["data", "B", "4556494c"], ["rtp", "B", "66"], ["data", "A", "02"]],
                                pre=[dict(legit, fpA=[["sha-256", "ok", "upper"], ["sha-512", "ok", "lower"]])]))
                out.append(dict(base, certA=legit["certA"], certB=y, fpA=[["sha-384", "signalled", "asis"]],
                                traffic=[["data", "B", "03"]], pre=[dict(legit, fpA=[["sha-384", "signalled", "asis"]])]))
        return out

    GOOD = [
        [["sha-256", "ok", "upper"]],
        [["SHA-256", "ok", "lower"]],
        [["sha-384", "ok", "mixed"], ["sha-512", "ok", "random"]],
        [["sha-512", "ok", "upper"], ["Sha-256", "ok", "lower"], ["sha-384", "ok", "asis"]],
        [["sha-1", "junk", "asis"], ["sha-256", "ok", "asis"]],
        [["md5", "ok", "asis"], ["sHa-384", "ok", "random"], ["", "junk", "asis"]],
        [["sha-256", "signalled", "asis"], ["sha-512", "signalled", "lower"]],
    ]
    BAD = [
        [["sha-256", "flip", "asis"]],
        [["sha-256", "other-cert", "asis"]],
        [["sha-256", "ok", "upper"], ["sha-384", "flip", "upper"]],
        [["sha-512", "trunc", "lower"], ["sha-256", "ok", "lower"]],
        [["sha-1", "ok", "asis"]],
        [["sha256", "ok", "asis"], ["md5", "junk", "asis"]],
        [["sha-256", "nocolon", "asis"]],
        [["sha-256", "junk", "asis"]],
        [],
        [["sha-384", "other-cert", "lower"], ["sha-384", "ok", "lower"]],
    ]

    def _payload(self, rng, ordinal, j):
        # first two bytes tell connections and messages of a sequence apart
        return (bytes([0xA0 + ordinal % 80, j]) + bytes(rng.randrange(256) for _ in range(rng.choice([0, 2, 30, 200, 1200])))).hex()

    def _gen_raw(self, rng, good, ordinal, certs=None):
        from harness import c04pool
        ecs = c04pool.ec_indexes(_M())
        v, x, sgn = certs if certs else rng.sample(ecs, 3)
        c = {"victim_role": rng.choice(["client", "server"]), "good": good, "victim_cert": v, "intruder_cert": x, "signalled_cert": sgn,
             "dr": rng.random() < 0.9}
        msgs = []
        for j in range(rng.choice([0, 1, 1, 1, 2, 3])):
            mode = ("c" if rng.random() < 0.7 else "s") if j == 0 else ("c" if rng.random() < 0.15 else "s")
            msgs.append([self._payload(rng, ordinal, j), mode])
        c["msgs"] = msgs
        c["late"] = [self._payload(rng, ordinal, 100 + j) for j in range(rng.choice([0, 0, 1, 2]))]
        if rng.random() < 0.4:
            c["srtp"] = [[rng.choice("ba"), 20 + j] for j in range(rng.choice([1, 2, 3]))]
        if rng.random() < (0.5 if not good else 0.25):
            inj = []
            for _ in range(rng.choice([1, 1, 2, 3])):
                fl = rng.choice([1, 1, 2, 2, 3])
                what = rng.choice(["srtp", "srtcp", "junk", "app0-own", "app0-append"])
                if what == "srtp":
                    inj.append([fl, "pre", (bytes([0x80, 96]) + bytes(rng.randrange(256) for _ in range(30))).hex()])
                elif what == "srtcp":
                    inj.append([fl, "pre", (bytes([0x80, 200]) + bytes(rng.randrange(256) for _ in range(30))).hex()])
                elif what == "junk":
                    inj.append([fl, "pre", (bytes([rng.choice([0, 1, 19, 64, 100, 127, 192, 255])]) + bytes(rng.randrange(256) for _ in range(rng.choice([0, 1, 20])))).hex()])
                elif what == "app0-own":
                    inj.append([fl, "pre", epoch0_app_record(bytes.fromhex(self._payload(rng, ordinal, 200))).hex()])
                else:
                    inj.append([fl, "app", epoch0_app_record(bytes.fromhex(self._payload(rng, ordinal, 201))).hex()])
            c["inj"] = inj
        if good and rng.random() < 0.3:
            c["fp"] = rng.choice(Pair.GOOD[:6])
        return c

    def _gen_traffic(self, rng, n_ops, heavy, sizes=False):
        """Data / RTCP / RTP ops. Data: messages of every size class (`sizes`: bursts of mixed sizes in both directions with some
        RTP/RTCP in between; at the very end possibly messages whose record does not fit one datagram). RTP: per (side, SSRC) a stream of extended sequence numbers — mostly +1, forward jumps,
        backward jumps of every size up to and just beyond the 1024 window (127, 128, 129, 1023, 1024 …) relative to the
        newest one, retransmissions of a number sent before, start values around the 16-bit wrap. The FIRST packet of a
        stream is never altered or held (a receiver that has seen nothing of a stream cannot infer its roll-over counter)."""
        streams = {}   # (side, k) -> {"hi": newest ext, "sent": [ext...]}
        traffic = []
        kinds = ["data", "rtp", "rtp", "rtcp"] if not heavy else ["data", "rtp", "rtp", "rtp", "rtp", "rtp", "rtcp"]
        if sizes:
            kinds = ["data"] * 7 + ["rtp", "rtp", "rtcp"]
        for _ in range(n_ops):
            kind = rng.choice(kinds)
            s = rng.choice("AB")
            op = {"op": kind, "s": s}
            first = False
            if kind == "data":
                if rng.random() < (0.65 if sizes else 0.2):
                    # around every plausible internal limit between an SCTP packet and the datagram size
                    op["n"] = rng.choice(DATA_EDGE + [rng.randrange(1180, 1464), rng.randrange(1180, 1464), rng.randrange(1, 1464)])
                    op["salt"] = rng.randrange(1000)
                elif rng.random() < 0.06:
                    op["n"] = rng.choice([0, 0, 0, 0, 16385])  # OpenSSL refuses: visible, nothing sent, later traffic flows
                else:
                    op["pl"] = bytes(rng.randrange(256) for _ in range(rng.choice(DATA_SMALL))).hex()
            elif kind == "rtcp":
                op["k"] = rng.randrange(3)
                if rng.random() < 0.6:
                    # any padding bit x count / FMT (first byte 0x80..0xBF) x any packet type `is_rtcp` sends through SRTCP
                    op["hdr"] = rng.choice([rng.randrange(64), rng.randrange(64), 0, 31, 32, 63])
                    op["pt"] = rng.randrange(192, 209)
            else:
                k = rng.choice([0, 0, 1, 2])
                st = streams.get((s, k))
                if st is None:
                    ext = rng.choice([0, 1, 1100, 3000, 32767, 32768, 40000, 65000, 65530, 65535])
                    streams[(s, k)] = st = {"hi": ext, "sent": []}
                    first = True
                else:
                    m = rng.random()
                    hi = st["hi"]
                    if m < 0.40:
                        ext = hi + 1
                    elif m < 0.55:
                        ext = hi + rng.choice([2, 3, 10, 128, 129, 600, 1024, 1500])
                    elif m < 0.65 and st["sent"]:
                        ext = rng.choice(st["sent"])                      # retransmission
                    else:
                        d = rng.choice([1, 2, 3, 50, 126, 127, 128, 129, 130, 500, 1000, 1022, 1023, 1024, 1025, rng.randrange(1, 1100)])
                        ext = hi - d if hi - d >= 0 else hi + 1100            # early in a stream: jump forward first
                st["hi"] = max(st["hi"], ext)
                st["sent"].append(ext)
                op.update(k=k, ext=ext, pl=bytes(rng.randrange(256) for _ in range(rng.choice([1, 2, 5, 20, 200, 1100, 1200]))).hex())
                if rng.random() < 0.5:
                    # any of the 64 header layouts P x X x CC (first byte 0x80..0xBF), as a valid packet
                    op["hdr"] = rng.choice([rng.randrange(64), rng.randrange(64), 15, 16, 31, 32, 47, 48, 63])
            if not first:
                if rng.random() < 0.25:
                    op["flip"] = rng.randrange(0, 1 << 14)
                if rng.random() < 0.12 and not (kind == "rtp" and st["hi"] - op["ext"] > 20):
                    op["hold"] = rng.choice([1, 1, 2, 3])
            traffic.append(op)
        if sizes and rng.random() < 0.35:
            for _ in range(rng.choice([1, 1, 2])):
                traffic.append({"op": "data", "s": rng.choice("AB"), "n": rng.choice(DATA_OVER[:-1] * 3 + [16384, rng.randrange(1464, 3000)]),
                                "salt": rng.randrange(1000)})
                traffic.append({"op": "data", "s": rng.choice("AB"), "n": rng.choice([1, 40, 1200, 1463]), "salt": rng.randrange(1000)})
        return traffic

    def cases(self, rng, tier):
        names = self._names()
        subs = ordered_sublists(names)
        role_opts = [["auto", "auto"], ["client", "server"], ["server", "client"]]
        n = 300 if tier == "quick" else 6000
        out = []
        combos = [(pa, pb, r) for pa in subs for pb in subs for r in role_opts]
        rng.shuffle(combos)
        from harness import c04pool
        ecs = c04pool.ec_indexes(_M())
        twins = [(a, b) for a, b, _ in _pool()["twins"]]
        plain = [i for i in ecs if _pool()["certs"][i]["kind"] in ("lib", "ff")]
        for i in range(n):
            pa, pb, r = combos[i % len(combos)]
            m = rng.random()
            fa = rng.choice(self.GOOD) if m < 0.6 or 0.8 <= m else rng.choice(self.BAD)
            fb = rng.choice(self.GOOD) if m < 0.7 else rng.choice(self.BAD)
            if rng.random() < 0.5:
                fa, fb = fb, fa
            heavy = rng.random() < 0.35
            sizes = not heavy and rng.random() < 0.45
            if heavy or sizes:
                # RTP-heavy traffic needs a connection: same profile order trouble aside, keep a common profile and good lists
                fa, fb = rng.choice(self.GOOD), rng.choice(self.GOOD)
                if not [p for p in pa if p in pb]:
                    pb = pa
            case = {"profA": pa, "profB": pb, "roles": r, "fpA": fa, "fpB": fb,
                    "dr": [rng.random() < 0.85, rng.random() < 0.85],
                    "traffic": self._gen_traffic(rng, rng.randrange(12, 40) if heavy else rng.randrange(6, 18) if sizes else rng.randrange(3, 9),
                                                 heavy, sizes)}
            ca, cb = rng.sample(ecs, 2)
            case["certA"], case["certB"] = ca, cb
            if rng.random() < 0.3 and not heavy and not sizes:
                case["early"] = [[rng.choice("AB"),
                                  bytes([rng.choice([0x80, 0x80, 0x90, 0xBF, 0x81, 0x00, 0x13, 0x40, 0x7F, 0xC0, 0xFF]),
                                         rng.choice([0, 200, 201, 96])] + [rng.randrange(256) for _ in range(rng.choice([0, 10, 30]))]).hex()]
                                 for _ in range(rng.choice([1, 1, 2]))]
            q = rng.random()
            if q < 0.25:
                # an earlier connection in the same process with a certificate that shares attributes with this one's
                x, y = rng.choice(twins)
                if rng.random() < 0.5:
                    x, y = y, x
                v = rng.choice([c for c in plain if c not in (x, y)])
                sig = rng.random() < 0.3
                okl = [["sha-256", "signalled", "asis"]] if sig else rng.choice(self.GOOD)
                pre = {"profA": names, "profB": names, "roles": rng.choice(role_opts), "fpA": okl, "fpB": rng.choice(self.GOOD),
                       "dr": [True, True], "certA": v, "certB": x,
                       "traffic": [["data", rng.choice("AB"), "%02x" % rng.randrange(256)] for _ in range(rng.choice([0, 1, 2]))]}
                case["pre"] = [pre]
                case["certA"], case["certB"] = v, y
                mode = rng.random()
                if mode < 0.55:
                    # the answering party is NOT the one whose fingerprints were signalled (those of the earlier peer)
                    alg = rng.choice(["sha-256", "SHA-384", "sha-512"])
                    case["fpA"] = [[alg, f"of:{x}", rng.choice(["upper", "lower", "asis"])]]
                elif mode < 0.75:
                    case["fpA"] = [["sha-256", "signalled", "asis"]]
                # else: whatever was drawn (honest second connection with a look-alike certificate)
            elif q < 0.40:
                # earlier in this process: raw peer(s) with a NON-signalled certificate that put application records into the
                # datagram of their last handshake flight / right behind it / SRTP around it; then this honest pair connects
                k = rng.choice([1, 1, 2])
                case["pre"] = [self._gen_raw(rng, False, j) for j in range(k)]
                if rng.random() < 0.5:
                    case["pre"][-1]["victim_cert"] = case["certA"]
            elif q < 0.47:
                # the same two parties connect twice
                case["pre"] = [dict(case, traffic=case["traffic"][:2])]
                case["pre"][0].pop("early", None)
            case["n"] = i  # keeps cases distinct: runs are cached per case (keys are random per handshake)
            out.append(case)
        return out

    # ---- running / caching ----
    def _run_local(self, case):
        try:
            return self._run_local_inner(case)
        except Exception as exc:
            if _raised_in_harness(exc):
                out = "HARNESS-EXC cannot drive the implementation: " + type(exc).__name__ + ": " + str(exc)[:160]
            else:
                out = "crash:" + type(exc).__name__ + ": " + str(exc)[:160]
            return {"line": "dtls cannot-drive", "out": out, "results": None}

    def _run_local_inner(self, case):
        results = [_run_loop(_run_raw if self._kind(c) == "raw" else _run_conn, c) for c in self._conns(case)]
        specs, outs = [], []
        for c, res in zip(self._conns(case), results):
            if self._kind(c) == "raw":
                specs.append(f"{','.join(self._names())}/{'1' if c.get('dr', True) else '0'}/{c['victim_role']}/{';'.join(res['ev'])}")
                outs.append(",".join(res["obs"] + ["final:" + res["final"]]))
                continue
            for s in "AB":
                role = c["roles"][0 if s == "A" else 1]
                specs.append(f"{','.join(c['prof' + s]) or '-'}/{'1' if c['dr'][0 if s == 'A' else 1] else '0'}/{role}/{';'.join(res['ev'][s]) or '-'}")
                outs.append(",".join(res["obs"][s] + ["final:" + res["final"][s]]))
        return {"line": "dtls trace " + " ".join(specs), "out": " | ".join(outs), "results": results}

    def _store(self, case, result):
        k = case_key(case)
        self._summary[k + result["out"]] = result["results"]
        self._cache[k] = {"line": result["line"], "out": result["out"], "taken": True}
        return result["out"]

    def _snapshot(self, case):
        return self._cache.get(case_key(case))

    def _restore(self, case, snap):
        if snap is not None:
            self._cache[case_key(case)] = snap

    def impl(self, case):
        ent = self._cache.get(case_key(case))
        if ent is not None and not ent["taken"]:
            ent["taken"] = True
            return ent["out"]
        return SeqComponent.impl(self, case)

    def model_line(self, case):
        k = case_key(case)
        ent = self._cache.get(k)
        if ent is None:
            try:
                SeqComponent.impl(self, case)
            except Exception:
                return None
            ent = self._cache[k]
            ent["taken"] = False
        return ent["line"]

    # ---- the property on the implementation ----
    def _oracle_raw(self, case, impl_out):
        results = self._summary.get(case_key(case) + impl_out)
        if results is None:
            # HARNESS-EXC: the harness could not drive the implementation — a broken correspondence (the model line of such a
            # run never matches), not a failing input
            return ("the transport pair raised " + impl_out[6:]) if impl_out.startswith("crash:") else None
        conns = self._conns(case)
        for n, (c, res) in enumerate(zip(conns, results)):
            msg = self._oracle_rawconn(c, res) if self._kind(c) == "raw" else self._oracle_conn(c, res)
            if msg:
                # is something that was delivered here what a party of an EARLIER connection of this process sent?
                mine = self._payloads_sent(c, res)
                for g in self._payloads_delivered(c, res):
                    if g in mine:
                        continue
                    for m in range(n):
                        if g in self._payloads_sent(conns[m], results[m]):
                            msg += (f" [the delivered message {g.hex()[:24]} is what was sent on connection {m + 1} of this process "
                                    f"({self._describe_conn(conns[m], results[m])}): data crosses from one transport to another]")
                            break
                    else:
                        continue
                    break
                if len(conns) == 1:
                    return msg
                before = "; ".join(f"connection {m + 1}: {self._describe_conn(conns[m], r)}" for m, r in enumerate(results[:n]))
                return (f"connection {n + 1} of {len(conns)} in this process ({self._describe_conn(c, res)}" +
                        (f"; earlier — {before}" if before else "") + f"): {msg}")
        return None

    def _describe_conn(self, c, res):
        if self._kind(c) == "raw":
            k = res["cert"]
            return (f"transport with certificate {_describe_cert(k['V'])} as DTLS {c['victim_role']} against a raw peer presenting "
                    f"{_describe_cert(k['X'])}, signalled {'that one' if k['S'] == k['X'] else _describe_cert(k['S'])} → {res['state']}")
        return (f"certificates A={_describe_cert(res['cert']['A'])}, B={_describe_cert(res['cert']['B'])} → "
                f"{res['state']['A']}/{res['state']['B']}")

    def _payloads_sent(self, c, res):
        if self._kind(c) == "raw":
            return {x["pl"] for x in res["sent"]}
        return {o["plain"] for o in res["ops"] if o["kind"] == "data"}

    def _payloads_delivered(self, c, res):
        if self._kind(c) == "raw":
            return list(res["data"] or [])
        return [x for s_ in "AB" for x in (res["dr"][s_] or [])]

    def _oracle_rawconn(self, c, res):
        """The property for one real transport (the victim) against a scripted peer: connected only to the signalled certificate;
        a failed transport delivers, keys and sends nothing; a connected one hands to its receivers ONLY what its own
        authenticated peer sent on this connection — in order, each record once — and everything that peer sent in a datagram
        of its own after its handshake was complete."""
        inj = c.get("inj") or []
        disruptive = any(k == "app" or (hx[:2] and 19 < int(hx[:2], 16) < 64) for _, k, hx in inj)
        k = res["cert"]
        good = policy_accepts(res["fps"], _pool()["certs"][k["X"]]["dg"])   # the property text on the list that was signalled
        who = ("the signalled one" if good else
               f"NOT the signalled one (presented {_describe_cert(k['X'])}, signalled {_describe_cert(k['S'])})")
        head = f"victim (DTLS {c['victim_role']})"
        obs = res["obs"]
        if not good and res["state"] != "failed":
            return f"{head} ended in {res['state']!r} against a peer whose certificate is {who}"
        if good and not disruptive and res["peer_done"] and res["state"] != "connected":
            return f"{head} ended in {res['state']!r} against a peer whose certificate is {who}"
        delivered = [o for o in obs if o.startswith(("dd:", "drtp:", "drtcp:"))]
        if res["state"] != "connected":
            if delivered or res["data"]:
                what = res["data"][0].hex()[:32] if res["data"] else delivered[0][:40]
                return (f"{head} handed {what} from a peer whose certificate is {who} to its receivers although it ended start() in "
                        f"{res['state']!r}")
            if any(o.startswith("keys:") for o in obs):
                return f"{head} ended in {res['state']!r} but SRTP sessions were keyed"
            if any(o.startswith(("sd:", "srtp:", "srtcp:")) for o in obs):
                return f"{head} ended in {res['state']!r} but sent application data / SRTP"
            if res["state"] == "failed" and res["final"] != "failed":
                return f"{head}: FAILED is not terminal (final state {res['final']!r})"
            return None
        # connected: delivered data = an in-order selection of what THIS peer sent, containing every record that must arrive
        if res["data"] is not None:
            sent, j = res["sent"], 0
            for g in res["data"]:
                if all(x["pl"] != g for x in sent[j:]):
                    j = len(sent)
                while j < len(sent) and sent[j]["pl"] != g:
                    if sent[j]["must"]:
                        return (f"{head}, connected: application record {j + 1} of its authenticated peer ({sent[j]['pl'].hex()[:24]}, sent in a "
                                f"datagram of its own after the handshake) was never handed to the data receiver")
                    j += 1
                if j == len(sent):
                    return (f"{head}, connected: handed {g.hex()[:32]} ({len(g)} bytes) to its data receiver, which its authenticated peer did "
                            f"not send on this connection (that peer sent {[x['pl'].hex()[:12] for x in sent]})")
                j += 1
            for x in sent[j:]:
                if x["must"]:
                    return (f"{head}, connected: application record {x['pl'].hex()[:24]} of its authenticated peer (own datagram, after the "
                            f"handshake) was never handed to the data receiver")
        for o in obs:
            if o.startswith("drtp:") and bytes.fromhex(o[5:]) not in res["srtp_sent"]:
                return f"{head}, connected: handed an RTP packet to its handler that its peer did not send ({o[5:37]})"
        return None

    def _expected_flow(self, res, s, peer, both):
        """Per packet, in the order the datagrams reached `peer`: what of the traffic sent by `s` must / may have been handed
        to peer's data receiver, RTP handler and RTCP handler. Returns an error text or None."""
        ops = {o["i"]: o for o in res["ops"] if o["s"] == s}
        arrived = [ops[tag] for tag in res["arrivals"][peer] if tag is not None and tag in ops]
        obs = res["obs"][peer]
        got = {"data": [bytes.fromhex(o[3:]) for o in obs if o.startswith("dd:")],
               "rtp": [bytes.fromhex(o[5:]) for o in obs if o.startswith("drtp:")],
               "rtcp": [bytes.fromhex(o[6:]) for o in obs if o.startswith("drtcp:")]}
        ptr = {"data": 0, "rtp": 0, "rtcp": 0}
        oversize_lost = None
        hi, seen = {}, {}          # per SSRC: newest extended index delivered to peer, indexes delivered
        tx_hi = {}                 # per SSRC: newest extended index the sender encrypted before this packet
        order = {o["i"]: n for n, o in enumerate(res["ops"])}
        dfacts, _ = _data_facts(res)
        done = set()
        # whatever a send call accepted without an exception has to reach the wire (the in-memory link loses nothing)
        reached = {tag for tag in res["arrivals"][peer] if tag is not None}
        for o in res["ops"]:
            if o["s"] == s and o["status"] == "sent" and o["i"] not in reached:
                size = f" of {len(o['plain'])} bytes" if o["kind"] == "data" else ""
                return (f"{o['kind']} {'message' if o['kind'] == 'data' else 'packet'}{size} (op {o['i']}) was accepted by {s}'s "
                        f"{'_send_data' if o['kind'] == 'data' else '_send_rtp'} without an exception, but {s} handed nothing to its ICE "
                        f"transport for it: silently dropped by the sender")
        for o in arrived:
            kind = o["kind"]
            if o["i"] in done or kind == "junk":
                continue       # a second datagram of the same op / not sent by the transport: nothing of it may be delivered (below)
            done.add(o["i"])
            if o["status"] != "sent":
                return f"{kind} op {o['i']} of {s} ({o['status']}) nevertheless put a datagram on the wire"
            if o["altered"]:
                continue   # must not be delivered: anything it produced shows up as a packet nobody sent (below)
            nxt = got[kind][ptr[kind]] if ptr[kind] < len(got[kind]) else None
            delivered = nxt == o["plain"]
            if not delivered and o["plain"] in got[kind][ptr[kind]:]:
                return (f"{peer} handed a {kind} packet to its receivers that {s} did not send in that form "
                        f"({got[kind][ptr[kind]].hex()[:32]}; altered in transit?)")
            if delivered:
                ptr[kind] += 1
            must = both
            why = ""
            if kind == "data":
                f = dfacts[o["i"]]
                if res["dr"][peer] is None or f["over"] or f["poisoned"]:
                    must = False
                    if res["dr"][peer] is not None and both and not delivered and oversize_lost is None:
                        # known finding C04-oversize-data-record-cut: reported at the end unless something else is wrong too
                        oversize_lost = o["i"]
                cut = f["rec"] is not None and f["dgrams"] and f["dgrams"][0] < f["rec"]
                why = (f" of {f['n']} bytes" + (f" (DTLS record of {f['rec']} bytes" if f["rec"] is not None else " (no intact record header") +
                       f"; {s} handed datagram(s) of {f['dgrams']} bytes to its ICE transport for it" +
                       (": the record was cut" if cut else "") + ")")
            if kind == "rtp":
                ss = o["ssrc"]
                newest = max([p["ext"] for p in res["ops"] if p["s"] == s and p["kind"] == "rtp" and p["ssrc"] == ss
                              and p["status"] == "sent" and order[p["i"]] < order[o["i"]]], default=None)
                behind = (newest - o["ext"]) if newest is not None else None
                if o["ext"] in seen.get(ss, set()):
                    must = False   # a retransmission of an index the receiver has delivered: libsrtp's replay protection may drop it
                if o["hold"] and ss in hi and hi[ss] - o["ext"] >= MIN_WINDOW:
                    must = False   # overtaken in transit by too much
                why = (f" first byte 0x{o['plain'][0]:02x} (P={o['plain'][0] >> 5 & 1} X={o['plain'][0] >> 4 & 1} CC={o['plain'][0] & 15}) "
                       f"second byte 0x{o['plain'][1]:02x} seq={o['ext'] & 0xFFFF} (extended {o['ext']}) ssrc={ss}" +
                       (f", {behind} behind the newest sequence number sent on that SSRC" if behind is not None and behind > 0 else ""))
                if delivered:
                    seen.setdefault(ss, set()).add(o["ext"])
                    hi[ss] = max(hi.get(ss, -1), o["ext"])
            if kind == "rtcp":
                why = (f" first byte 0x{o['plain'][0]:02x} (P={o['plain'][0] >> 5 & 1} count={o['plain'][0] & 31}) packet type {o['plain'][1]} "
                       f"of {len(o['plain'])} bytes")
            if must and not delivered:
                if kind == "data":
                    return (f"data message{why} was accepted by {s}'s _send_data without an exception (op {o['i']}), nothing was altered "
                            f"in transit, and it was never handed to {peer}'s data receiver (delivered so far: {ptr[kind]} data messages)")
                return (f"{kind} packet{why} was accepted, encrypted and put on the wire by {s} (op {o['i']}), arrived unaltered, and was "
                        f"never handed to {peer}'s {kind.upper() + ' handler'} (delivered so far: {ptr[kind]} of that kind)")
        for kind in got:
            if ptr[kind] != len(got[kind]):
                return (f"{peer} handed {len(got[kind]) - ptr[kind]} {kind} packet(s) to its receivers that {s} did not send in that form "
                        f"(first: {got[kind][ptr[kind]].hex()[:32]})")
        if oversize_lost is not None:
            f = dfacts[oversize_lost]
            return (f"data message of {f['n']} bytes (op {oversize_lost}) was accepted by {s}'s _send_data without an exception, or follows "
                    f"one whose DTLS record did not fit into one datagram, and was never handed to {peer}'s data receiver "
                    f"[data record over {MAX_DATAGRAM} bytes]")
        # every op that was sent and neither held forever nor refused must have arrived (link sanity)
        if res["dr"][peer] is not None and res["dr"][peer] != got["data"]:
            return f"data receiver of {peer} got {res['dr'][peer]!r}, but _handle_data was called with {got['data']!r}"
        from aiortc.rtp import RtpPacket
        want_rr = [(p.ssrc, p.sequence_number, bytes(p.payload)) for p in (RtpPacket.parse(x) for x in got["rtp"])]
        if res["rr"][peer]["rtp"] != want_rr:
            return f"RTP receiver of {peer} did not get exactly the RTP packets that passed SRTP (sent by {s})"
        # (the legacy RTCP ops are single sender reports routed to the receiver; generic packet types / counts are parsed and
        # routed by code outside this property)
        if not any(o.get("generic") for o in res["ops"] if o["kind"] == "rtcp") and res["rr"][peer]["rtcp"] != len(got["rtcp"]):
            return f"RTP receiver of {peer} got {res['rr'][peer]['rtcp']} RTCP packets, expected {len(got['rtcp'])}"
        return None

    def _oracle_conn(self, case, res):
        M = _M()
        fps = res["fps"]
        id_ok = {s: policy_accepts(fps[s], res["dgs"][s]) for s in "AB"}
        common = [p for p in case["profA"] if p in case["profB"]]
        for s in "AB":
            peer = "B" if s == "A" else "A"
            want = "connected" if (id_ok[s] and common) else "failed"
            got = res["state"][s]
            if got != want:
                return (f"side {s} (signalled fingerprints {fps[s]!r} {'matching' if id_ok[s] else 'NOT matching'} the certificate the peer "
                        f"presented, common SRTP profiles {common}) ended start() in state {got!r}, expected {want!r}")
            obs = res["obs"][s]
            delivered = [o for o in obs if o.startswith(("dd:", "drtp:", "drtcp:"))]
            if want == "failed":
                if delivered or (res["dr"][s] or []) or res["rr"][s]["rtp"] or res["rr"][s]["rtcp"]:
                    return f"side {s} failed the identity/SRTP checks but delivered {delivered[:3]} to its receivers"
                if res["keys"][s] is not None:
                    return f"side {s} failed but SRTP sessions were keyed"
                if any(o.startswith(("sd:", "srtp:", "srtcp:")) for o in obs):
                    return f"side {s} failed but sent application data / SRTP"
                if res["final"][s] != "failed":
                    return f"side {s}: FAILED is not terminal (final state {res['final'][s]!r})"
        both = all(res["state"][s] == "connected" for s in "AB")
        if both:
            ka, kb = res["keys"]["A"], res["keys"]["B"]
            if ka is None or kb is None:
                return "connected without SRTP keys"
            if ka[0] != kb[0] or ka[0] not in common:
                return f"negotiated profiles differ or are not common: {ka[0]} / {kb[0]} (common {common})"
            if ka[1] != kb[2] or ka[2] != kb[1]:
                return f"SRTP keys are not mirror images (profile {ka[0]}, roles {case['roles']})"
            p = [q for q in M.SRTP_PROFILES if q.openssl_profile.decode() == ka[0]][0]
            if len(ka[1]) != p.key_length + p.salt_length or ka[1] == ka[2]:
                return f"SRTP key has length {len(ka[1])} or tx == rx for profile {ka[0]}"
            if not (res["mat"]["A"] and res["mat"]["B"] and res["mat"]["A"] == res["mat"]["B"]):
                return "exporter output differs between the two sides"
        # delivered / discarded, per packet
        for s, peer in (("A", "B"), ("B", "A")):
            msg = self._expected_flow(res, s, peer, both)
            if msg:
                return msg
        # sends are refused unless connected
        for s in "AB":
            mine = [o for o in res["ops"] if o["s"] == s and o["kind"] != "junk"]
            if res["state"][s] != "connected" and any(o["status"] != "refused" for o in mine):
                return f"side {s} is {res['state'][s]} but accepted {sum(1 for o in mine if o['status'] != 'refused')} send(s)"
            dfacts, overhead = _data_facts(res)
            wire = _wire_by_op(res, s)
            for o in mine:
                if o["status"].startswith("raised:"):
                    return f"{o['kind']} send of side {s} (op {o['i']}) raised {o['status'][7:]}"
                if o["status"].startswith("sslerr:"):
                    # a clean refusal is fine where no DTLS record can carry the message in one datagram
                    n = len(o["plain"])
                    if not (n == 0 or n > MAX_DTLS_PLAIN or n + (overhead or 13) > MAX_DATAGRAM):
                        return (f"_send_data of side {s} (op {o['i']}) raised {o['status'][7:]} for a message of {n} bytes, which fits a "
                                f"DTLS record of {n + (overhead or 13)} <= {MAX_DATAGRAM} bytes")
                    if wire.get(o["i"]):
                        return (f"_send_data of side {s} (op {o['i']}, {n} bytes) raised {o['status'][7:]} but handed datagram(s) of "
                                f"{[d[0] for d in wire[o['i']]]} bytes to the ICE transport")
        return None

    def label(self, case, impl_out):
        results = self._summary.get(case_key(case) + impl_out)
        if not results:
            return "cannot-drive" if impl_out.startswith("HARNESS-EXC") else "exc"
        res = results[-1]
        ops = res["ops"]
        tags = []
        if any(o["altered"] for o in ops):
            tags.append("flips")
        rtp = [o for o in ops if o["kind"] == "rtp" and o["status"] != "refused"]
        back = 0
        newest = {}
        for o in rtp:
            key = (o["s"], o["ssrc"])
            if key in newest:
                back = max(back, newest[key] - o["ext"])
            if o["status"] == "sent":
                newest[key] = max(newest.get(key, -1), o["ext"])
        if back > 0:
            tags.append("back<128" if back < 128 else "back<1024" if back < 1024 else "back>=1024")
        if any(o["status"] == "txerr" for o in ops):
            tags.append("txrefused")
        dsz = [len(o["plain"]) for o in ops if o["kind"] == "data" and o["status"] == "sent"]
        if any(1180 <= x <= 1463 for x in dsz):
            tags.append("data1180-1463")
        if any(x > 1463 for x in dsz):
            tags.append("data>1463")
        if any(o["status"].startswith("sslerr:") for o in ops):
            tags.append("sslrefused")
        if any(o["hold"] for o in ops):
            tags.append("held")
        if len({(o["s"], o["ssrc"]) for o in rtp}) > 2:
            tags.append("multissrc")
        if any(o["ext"] >= 65536 for o in rtp):
            tags.append("wrap")
        pre = ""
        if len(results) > 1:
            twins = {frozenset((a, b)) for a, b, _ in _pool()["twins"]}
            tw = any(frozenset((r["cert"]["B"], res["cert"]["B"])) in twins for r in results[:-1] if "B" in r["cert"])
            raw = any("X" in r["cert"] for r in results[:-1])
            pre = "after-rawpeer:" if raw else "after-twin:" if tw else "after-conn:"
        return (f"{pre}{res['state']['A']}/{res['state']['B']}-roles:{case['roles'][0][:1]}{case['roles'][1][:1]}-" +
                (res["keys"]["A"][0] if res["keys"]["A"] else "nokeys") + ("-" + "+".join(tags) if tags else ""))

    def _shrink(self, case):
        if case.get("pre"):
            yield {k: v for k, v in case.items() if k != "pre"}
            for i in range(len(case["pre"])):
                if len(case["pre"]) > 1:
                    yield dict(case, pre=case["pre"][:i] + case["pre"][i + 1:])
            for i, p in enumerate(case["pre"]):
                if p.get("traffic"):
                    yield dict(case, pre=case["pre"][:i] + [dict(p, traffic=[])] + case["pre"][i + 1:])
                if self._kind(p) == "raw":
                    for cand in Intruder._shrink_raw(p):
                        yield dict(case, pre=case["pre"][:i] + [cand] + case["pre"][i + 1:])
        tr = case["traffic"]
        if len(tr) > 6:
            yield dict(case, traffic=tr[: len(tr) // 2])
            yield dict(case, traffic=tr[len(tr) // 2:])
        for i in range(len(tr)):
            yield dict(case, traffic=tr[:i] + tr[i + 1:])
        for i, op in enumerate(tr):
            if isinstance(op, dict) and (op.get("hold") or op.get("flip") is not None):
                yield dict(case, traffic=tr[:i] + [{k: v for k, v in op.items() if k not in ("hold", "flip")}] + tr[i + 1:])
            if isinstance(op, dict) and len(op.get("pl", "")) > 2:
                yield dict(case, traffic=tr[:i] + [dict(op, pl=op["pl"][:2])] + tr[i + 1:])
            if isinstance(op, dict) and op.get("n"):
                # towards the smallest size that still fails
                for m in (1, op["n"] // 2, op["n"] - 100, op["n"] - 10, op["n"] - 1):
                    if 0 < m < op["n"]:
                        yield dict(case, traffic=tr[:i] + [dict(op, n=m)] + tr[i + 1:])
        for s in ("profA", "profB"):
            for i in range(len(case[s])):
                if len(case[s]) > 1:
                    yield dict(case, **{s: case[s][:i] + case[s][i + 1:]})
        for s in ("fpA", "fpB"):
            for i in range(len(case[s])):
                yield dict(case, **{s: case[s][:i] + case[s][i + 1:]})
        early = case.get("early", [])
        for i in range(len(early)):
            yield dict(case, early=early[:i] + early[i + 1:])


# ----------------------------------------------------------------------------------------------
# component 4: the intruder — a raw pyOpenSSL peer (any certificate) that sends application records and SRTP packets at
# every stage before / after the victim is `connected`, followed in the same process by honest connections
# ----------------------------------------------------------------------------------------------

def raw_msgs(c):
    """[(payload, mode)] — application records the raw peer produces as soon as ITS handshake is complete. mode "c": appended to
    the datagram built so far (the first one: to the peer's last handshake flight, if it has one), "s": a datagram of its own.
    Legacy form: {"payload", "coalesce"}."""
    if "msgs" in c:
        return [(bytes.fromhex(h), m) for h, m in c["msgs"]]
    return [(bytes.fromhex(c["payload"]), "c" if c["coalesce"] else "s")]


def epoch0_app_record(payload: bytes, seq: int = 9) -> bytes:
    """An UNENCRYPTED DTLS 1.2 application-data record of epoch 0 (what a peer that has no keys yet can put on the wire)."""
    return b"\x17\xfe\xfd\x00\x00" + seq.to_bytes(6, "big") + len(payload).to_bytes(2, "big") + payload


async def _run_raw(case):
    """One connection attempt of a real transport (the victim) with a scripted raw pyOpenSSL peer. The peer presents pool
    certificate `intruder_cert`; the victim was signalled that certificate (`good`) or another one. Script: `inj` = datagrams
    sent before ("pre") / bytes appended to ("app") the peer's n-th handshake flight; `msgs` (see raw_msgs); `srtp` = RTP
    packets protected with the keys of this very handshake, sent just before ("b") / after ("a") the peer's last handshake
    datagram; `late` = application records sent one per datagram after the victim's start() has returned."""
    M = _M()
    _install_shims()
    real_SSL, real_Session = M._c04_real
    import pylibsrtp
    qa, qb = asyncio.Queue(), asyncio.Queue()
    cv, cx = Conn(qa, qb, {"sent": 0}), Conn(qb, qa, {"sent": 0})
    certs = _certs()
    vi, ii = case.get("victim_cert", 0), case.get("intruder_cert", 1)
    si = ii if case["good"] else case.get("signalled_cert", 2)
    ice = Ice(cv, "controlling")
    t = M.RTCDtlsTransport(ice, [certs[vi]])
    t._set_role(case["victim_role"])
    rec = Rec("V")
    _instrument(t, rec, certs[vi], ice)
    dr = None
    if case.get("dr", True):
        dr = DataReceiver(rec)
        t._register_data_receiver(dr)
    try:
        ctx = certs[ii]._create_ssl_context(M.SRTP_PROFILES)
    except AttributeError:
        from harness import c04pool
        ctx = c04pool._context(_pool()["certs"][ii], b":".join(p.openssl_profile for p in M.SRTP_PROFILES))
    ssl = real_SSL.Connection(ctx)
    if case["victim_role"] == "server":
        ssl.set_connect_state()
    else:
        ssl.set_accept_state()
    msgs = raw_msgs(case)
    inj = [(f, k, bytes.fromhex(hx)) for f, k, hx in case.get("inj", [])]
    plan = case.get("srtp", [])
    sent, srtp_sent = [], []
    st = {"done": False, "flights": 0}

    def drain():
        out = b""
        try:
            while True:
                out += ssl.bio_read(4096)
        except real_SSL.Error:
            pass
        return out

    def srtp_session():
        sel = ssl.get_selected_srtp_profile()
        p = next((q for q in M.SRTP_PROFILES if q.openssl_profile == sel), None)
        if p is None:
            return None
        mat = ssl.export_keying_material(LABEL, 2 * (p.key_length + p.salt_length))
        tx, _ = rfc5764_keys(p.key_length, p.salt_length, bytes(mat), "client" if case["victim_role"] == "server" else "server")
        return real_Session(pylibsrtp.Policy(key=tx, ssrc_type=pylibsrtp.Policy.SSRC_ANY_OUTBOUND, srtp_profile=p.libsrtp_profile))

    def record_of(payload):
        try:
            ssl.send(payload)
        except real_SSL.Error:
            return b""
        return drain()

    async def peer():
        while True:
            try:
                ssl.do_handshake()
                st["done"] = True
            except real_SSL.WantReadError:
                pass
            except real_SSL.Error:
                return          # the victim's answer ended the handshake
            out = drain()
            if out or st["done"]:
                st["flights"] += 1
                for f, k, b in inj:
                    if f == st["flights"] and k == "pre":
                        await cx.send(b)
                if out:
                    out += b"".join(b for f, k, b in inj if f == st["flights"] and k == "app")
            if st["done"]:
                sess = srtp_session() if plan else None
                for when, ext in plan:
                    if sess is not None:
                        plain = make_rtp(ext, b"x%d" % ext, SSRCS["B"][0], pt=96)
                        srtp_sent.append((when, plain, sess.protect(plain)))
                for when, plain, wire in srtp_sent:
                    if when == "b":
                        await cx.send(wire)
                dgrams = [out] if out else []
                spoiled = False     # a datagram carried two application records: the second one waits inside OpenSSL
                for pl, mode in msgs:
                    r = record_of(pl)
                    if not r:
                        continue
                    if mode == "c" and dgrams:
                        phase = "flight" if (len(dgrams) == 1 and out and not sent) else "coalesced"
                        dgrams[-1] += r
                    else:
                        phase = "own"
                        dgrams.append(r)
                    spoiled = spoiled or phase == "coalesced"
                    sent.append({"pl": pl, "phase": phase, "must": phase == "own" and not spoiled})
                for d in dgrams:
                    await cx.send(d)
                for when, plain, wire in srtp_sent:
                    if when == "a":
                        await cx.send(wire)
                return
            if out:
                await cx.send(out)
            try:
                ssl.bio_write(await asyncio.wait_for(cx.recv(), 0.5))
            except (asyncio.TimeoutError, ConnectionError):
                return

    fps = build_fps(case.get("fp", [["sha-256", "ok", "upper"]]), si, vi)
    rec.ev.append(f"S~1~{enc_fps(fps)}")
    rec.phase = "hs"

    async def start():
        _CUR_REC.set(rec)
        n_obs = len(rec.obs)
        try:
            await t.start(M.RTCDtlsParameters(fingerprints=[M.RTCDtlsFingerprint(algorithm=a, value=v) for a, v in fps]))
        except Exception as exc:
            tag = "raised:" + type(exc).__name__
            if tag not in rec.obs[n_obs:]:
                rec.obs.append(tag)
        rec.phase = "run"

    async def quiet():
        for _ in range(2000):
            await asyncio.sleep(0)
            task = t._task
            if task is None or task.done() or (qa.empty() and not (rec.cur is not None and rec.cur["data"] is not None)):
                break
        for _ in range(5):
            await asyncio.sleep(0)

    vt, pt = asyncio.ensure_future(start()), asyncio.ensure_future(peer())
    deadline = asyncio.get_event_loop().time() + 10
    while not (vt.done() and pt.done()) and asyncio.get_event_loop().time() < deadline:
        await asyncio.sleep(0)
        if pt.done() and not vt.done():
            # the peer has nothing more to say: let the victim consume what is queued, then close the link
            for _ in range(50):
                await asyncio.sleep(0)
                if vt.done():
                    break
            if not vt.done():
                qa.put_nowait(None)
                for _ in range(50):
                    await asyncio.sleep(0)
                    if vt.done():
                        break
                break
    for task, name in ((vt, "start"), (pt, "peer")):
        if not task.done():
            task.cancel()
            try:
                await task
            except BaseException:
                pass
            if name == "start":
                rec.obs.append("start-cancelled")
    await quiet()
    state = t.state
    if st["done"]:
        for hx in case.get("late", []):
            pl = bytes.fromhex(hx)
            r = record_of(pl)
            if r:
                await cx.send(r)
                sent.append({"pl": pl, "phase": "late", "must": not any(x["phase"] == "coalesced" for x in sent)})
            await quiet()
    await quiet()
    rec.ev.append("X")
    await t.stop()
    for _ in range(5):
        await asyncio.sleep(0)
    if t._task is not None:
        t._task.cancel()
    return {"ev": rec.ev, "obs": rec.obs, "state": state, "final": t.state, "data": list(dr.data) if dr else None, "fps": fps,
            "sent": sent, "srtp_sent": [p for _, p, _ in srtp_sent], "peer_done": st["done"], "cert": {"V": vi, "X": ii, "S": si}}


class Intruder(Pair):
    """Sequences of connections in one process whose LAST one is a raw-peer connection (see `_run_raw`); earlier ones are raw
    peers with non-signalled certificates that send application data / SRTP at every stage, legitimate peers, or real pairs."""
    name = "intruder"
    theorems = ["delivery_only_if_validated", "failed_silent", "connected_only_if", "recvNext_delivery"]

    def corpus(self):
        out = [{"victim_role": "client", "coalesce": True, "good": False, "payload": "4556494c"}]
        # the intruder's certificate copies the serial number (…) of the signalled one, which this process has just accepted
        for a, b, _ in _pool()["twins"]:
            out.append({"victim_role": "client", "coalesce": True, "good": False, "payload": "4556494c", "victim_cert": 2 if 2 not in (a, b) else 0,
                        "intruder_cert": b, "signalled_cert": a,
                        "pre": [{"victim_role": "client", "coalesce": False, "good": True, "payload": "01", "victim_cert": 2 if 2 not in (a, b) else 0,
                                 "intruder_cert": a}]})
        # a peer with a non-signalled certificate whose first application record shares the datagram of its last handshake flight
        # (decrypted inside the victim's handshake loop); afterwards, in the same process, an honest peer connects and talks
        for role in ("client", "server"):
            eager = {"victim_role": "client", "good": False, "msgs": [["e1" + "45" * 20, "c"], ["e2" + "46" * 5, "s"]], "late": ["e3aa"],
                     "srtp": [["b", 10], ["a", 11]], "intruder_cert": 1, "signalled_cert": 2, "victim_cert": 0}
            out.append({"victim_role": role, "good": True, "msgs": [["a1", "s"], ["a2" + "00" * 1200, "s"]], "late": ["a3"], "srtp": [["a", 5]],
                        "victim_cert": 3, "intruder_cert": 0, "pre": [eager]})
            out.append({"victim_role": role, "good": True, "msgs": [["b1b1", "c"], ["b2", "s"]], "late": ["b3"], "victim_cert": 3, "intruder_cert": 0,
                        "pre": [eager, dict(eager, victim_role="server", msgs=[["e4", "c"]], late=[]),
                                dict(eager, inj=[[1, "pre", "80c80001deadbeef"], [2, "pre", epoch0_app_record(b"e5e5").hex()], [2, "app", epoch0_app_record(b"e6").hex()]])]})
        return out

    def cases(self, rng, tier):
        out = []
        n = 4 if tier == "quick" else 40
        twins = [(a, b) for a, b, _ in _pool()["twins"]]
        for role in ("client", "server"):
            for co in (True, False):
                for good in (False, True):
                    for _ in range(1 if tier == "quick" else n):
                        out.append({"victim_role": role, "coalesce": co, "good": good, "n": len(out),
                                    "payload": bytes(rng.randrange(256) for _ in range(rng.choice([1, 4, 100]))).hex()})
                for _ in range(2 if tier == "quick" else n):
                    a, b = rng.choice(twins)
                    if rng.random() < 0.5:
                        a, b = b, a
                    v = 2 if 2 not in (a, b) else 0
                    out.append({"victim_role": role, "coalesce": co, "good": False, "n": len(out), "victim_cert": v, "intruder_cert": b,
                                "signalled_cert": a, "payload": bytes(rng.randrange(256) for _ in range(rng.choice([1, 4, 100]))).hex(),
                                "pre": [{"victim_role": rng.choice(["client", "server"]), "coalesce": False, "good": True, "payload": "01",
                                         "victim_cert": v, "intruder_cert": a}]})
        # scripted peers, alone and in sequences: non-signalled certificates that talk at every stage, then honest ones
        for _ in range(60 if tier == "quick" else 1500):
            m = rng.random()
            if m < 0.25:
                case = self._gen_raw(rng, rng.random() < 0.5, 0)
            else:
                k = rng.choice([1, 1, 2, 3])
                pre = [self._gen_raw(rng, rng.random() < 0.15, j) for j in range(k)]
                case = self._gen_raw(rng, rng.random() < 0.85, k)
                if rng.random() < 0.5:
                    # the honest party is the very transport owner that was approached before (same local certificate)
                    case["victim_cert"] = pre[-1]["victim_cert"]
                    if case["intruder_cert"] == case["victim_cert"]:
                        case["intruder_cert"] = pre[-1]["intruder_cert"]
                case["pre"] = pre
            case["n"] = len(out)
            out.append(case)
        return out

    def label(self, case, impl_out):
        results = self._summary.get(case_key(case) + impl_out)
        res = results[-1] if results else None
        pre = case.get("pre") or []
        head = ""
        if pre:
            bad = sum(1 for c in pre if self._kind(c) == "raw" and not c["good"])
            head = f"after-{len(pre)}conn({bad}bad)-" if "msgs" in case else "after-legit-twin-"
        if "msgs" not in case:
            return (head + f"{case['victim_role']}-{'coalesced' if case['coalesce'] else 'separate'}-{'good' if case['good'] else 'bad'}cert-" +
                    (res["state"] if res else "exc") + ("-delivered" if res and res["data"] else ""))
        tags = []
        if res:
            ph = {x["phase"] for x in res["sent"]}
            tags += sorted(ph)
            if res["srtp_sent"]:
                tags.append("srtp")
        if case.get("inj"):
            tags.append("inj")
        return (head + f"{case['victim_role']}-{'good' if case['good'] else 'bad'}cert-" + (res["state"] if res else "exc") +
                (f"-delivered{len(res['data'])}" if res and res["data"] else "") + ("-" + "+".join(tags) if tags else ""))

    def _shrink(self, case):
        pre = case.get("pre") or []
        if pre:
            yield {k: v for k, v in case.items() if k != "pre"}
            for i in range(len(pre)):
                if len(pre) > 1:
                    yield dict(case, pre=pre[:i] + pre[i + 1:])
        chain = pre + [case]
        for i, c in enumerate(chain):
            if self._kind(c) != "raw":
                continue
            for cand in self._shrink_raw(c):
                if i == len(chain) - 1:
                    yield dict(cand, pre=pre) if pre else cand
                else:
                    yield dict(case, pre=pre[:i] + [cand] + pre[i + 1:])

    @staticmethod
    def _shrink_raw(c):
        c = {k: v for k, v in c.items() if k != "pre"}
        if "msgs" not in c:
            if c["payload"] != "00":
                yield dict(c, payload="00")
            return
        for key in ("inj", "srtp", "late", "msgs"):
            lst = c.get(key) or []
            if len(lst) > 1:
                yield dict(c, **{key: []})
            for i in range(len(lst)):
                yield dict(c, **{key: lst[:i] + lst[i + 1:]})
        for i, (hx, mode) in enumerate(c.get("msgs") or []):
            if len(hx) > 4:
                yield dict(c, msgs=c["msgs"][:i] + [[hx[:4], mode]] + c["msgs"][i + 1:])
        if c.get("fp"):
            yield {k: v for k, v in c.items() if k != "fp"}


# ----------------------------------------------------------------------------------------------
# component 5: the two libsrtp sessions that the real `_setup_srtp` creates, long RTP sequences, vs the window model
# ----------------------------------------------------------------------------------------------

def _srtp_err(exc) -> str:
    m = str(exc).lower()
    if "too old" in m:
        return "O"
    if "bad index" in m or "replay" in m:
        return "R"
    if "auth" in m:
        return "A"
    return "E:" + m.replace(" ", "_")[:40]


class SrtpWindow(Component):
    """Real `_setup_srtp` on the two ends of a real completed DTLS handshake (pool connection, one per profile, either end as
    sender) → the real libsrtp sessions; then a generated sequence of RTP packets (several SSRCs, re-ordering, backward jumps
    of every size around the window edges, retransmissions, in-transit damage, 16-bit wrap-around) goes sender.protect →
    receiver.unprotect. Per packet: T (sender refused), D (delivered intact), A/R/O (dropped by the receiver: authentication /
    replay / too old). Model: `Link.run` with the window sizes read from the real Policy objects."""
    name = "srtp"
    theorems = ["window_no_silent_loss", "send_not_rxOld", "send_rxReplay_seen", "send_rx_seen", "keys_mirror"]

    def corpus(self):
        burst = [[0, 3000, 0], [0, 3001, 0], [0, 3001 - 127, 0], [0, 3001 - 128, 0], [0, 3001 - 129, 0], [0, 3001 - 1023, 0],
                 [0, 3001 - 1024, 0], [0, 3001 - 500, 0], [0, 3001 - 500, 0], [0, 3002, 1], [0, 3002, 0], [1, 65000, 0], [1, 65536 + 700, 0],
                 [1, 65536 + 700 - 1023, 0], [1, 65535, 0]]
        return [{"hs": h, "sender": snd, "pkts": burst} for h in range(3) for snd in ("client", "server")]

    def cases(self, rng, tier):
        n = 150 if tier == "quick" else 3000
        out = []
        nh = len(_pool()["certs"])
        for i in range(n):
            pkts = []
            streams = {}
            for _ in range(rng.choice([20, 40, 80, 200] if tier == "quick" else [40, 200, 600, 2000])):
                k = rng.choice([0, 0, 0, 1, 2])
                st = streams.get(k)
                alt = 0
                if st is None:
                    ext = rng.choice([0, 1, 1023, 1024, 5000, 32767, 32768, 40000, 65000, 65535])
                    streams[k] = st = {"hi": ext, "sent": []}
                else:
                    m = rng.random()
                    hi = st["hi"]
                    if m < 0.45:
                        ext = hi + 1
                    elif m < 0.6:
                        ext = hi + rng.choice([2, 5, 127, 128, 129, 1023, 1024, 1025, 3000])
                    elif m < 0.7 and st["sent"]:
                        ext = rng.choice(st["sent"][-50:])
                    else:
                        d = rng.choice([1, 2, 64, 126, 127, 128, 129, 130, 512, 1022, 1023, 1024, 1025, 2000, rng.randrange(1, 1100)])
                        ext = hi - d if hi - d >= 0 else hi + 1100
                    alt = 1 if rng.random() < 0.1 else 0
                st["hi"] = max(st["hi"], ext)
                st["sent"].append(ext)
                pkts.append([k, ext, alt])
            out.append({"hs": i % nh, "sender": rng.choice(["client", "server"]), "pkts": pkts, "n": i})
        return out

    def _sessions(self, case):
        """(tx session of the sender, rx session of the receiver, (tx policy window, rx policy window) or None)."""
        from harness import c04pool
        M = _M()
        _install_shims()
        h = c04pool.handshakes(M)[case["hs"] % len(c04pool.handshakes(M))]
        profs = {p.openssl_profile.decode(): p for p in M.SRTP_PROFILES}
        ends = {}
        for role in ("client", "server"):
            made = []
            _SINK.append(made)
            try:
                t = M.RTCDtlsTransport(DummyIce(), [_pool()["certs"][h[role + "_cert"]]["rtc"]])
                t._ssl = h[role]
                t._set_role(role)
                t._srtp_profiles = [profs[h["profile"]]]
                t._setup_srtp()
            finally:
                _SINK.pop()
            ends[role] = sessions_by_direction(made)
        tx = ends[case["sender"]][0]
        rx = ends["server" if case["sender"] == "client" else "client"][1]
        if tx is None or rx is None:
            raise HarnessCannotDrive("no sending/receiving session captured")
        win = None
        if getattr(tx, "policy_window", None) and getattr(rx, "policy_window", None):
            win = (tx.policy_window, rx.policy_window)
        return tx, rx, win

    def _run(self, case):
        import pylibsrtp
        try:
            tx, rx, win = self._sessions(case)
            protect, unprotect = tx.protect, rx.unprotect
        except Exception as exc:
            if _raised_in_harness(exc):
                return "HARNESS-EXC cannot drive the implementation: " + type(exc).__name__ + ": " + str(exc)[:120], None
            return "crash:" + type(exc).__name__, None
        outs = []
        for k, ext, alt in case["pkts"]:
            plain = make_rtp(ext, b"p%d" % ext, SSRCS["A"][k % 3], pt=96)
            try:
                wire = protect(plain)
            except pylibsrtp.Error:
                outs.append("T")
                continue
            if alt:
                i = 12 + (ext * 7 + k) % (len(wire) - 12)
                wire = wire[:i] + bytes([wire[i] ^ (1 << (ext % 8))]) + wire[i + 1:]
            try:
                got = unprotect(wire)
                outs.append("D" if got == plain else "X")
            except pylibsrtp.Error as exc:
                outs.append(_srtp_err(exc))
        return ",".join(outs) or "-", win

    def impl(self, case):
        return self._run(case)[0]

    def model_line(self, case):
        if "win" not in case.get("_c", {}):
            try:
                _, _, win = self._sessions(case)
            except Exception:
                win = None
            case.setdefault("_c", {})["win"] = win
        win = case["_c"]["win"]
        if win is None:
            return None
        (wtx, rep), (wrx, _) = win
        pk = ",".join(f"{k}:{ext}:{alt}" for k, ext, alt in case["pkts"])
        return f"dtls window {wtx} {wrx} {'1' if rep else '0'} {pk or '-'}"

    def oracle(self, case, impl_out):
        if impl_out.startswith("HARNESS-EXC"):
            return None
        if impl_out.startswith("crash:"):
            return "_setup_srtp on a completed handshake raised " + impl_out[6:]
        outs = impl_out.split(",") if impl_out != "-" else []
        if len(outs) != len(case["pkts"]):
            return f"{len(case['pkts'])} packets, {len(outs)} outcomes"
        seen, newest = {}, {}
        for n, ((k, ext, alt), o) in enumerate(zip(case["pkts"], outs)):
            behind = newest[k] - ext if k in newest else None
            where = (f"packet {n + 1}: seq={ext & 0xFFFF} (extended {ext}) on SSRC #{k}" +
                     (f", {behind} behind the newest one sent" if behind is not None and behind > 0 else ""))
            if o == "T":
                continue                       # refused by the sender: visible, not a loss
            newest[k] = max(newest.get(k, -1), ext)
            if o == "D":
                if alt:
                    return f"{where}: altered in transit but delivered"
                seen.setdefault(k, set()).add(ext)
                continue
            if o == "X":
                return f"{where}: delivered with different content"
            if alt:
                continue
            if ext in seen.get(k, set()):
                continue                       # replay of a delivered index
            return (f"{where}: encrypted by the sending session ({case['sender']}), unaltered, not a repeat of a delivered packet — "
                    f"dropped by the receiving session ({'index too old' if o == 'O' else o})")
        return None

    def label(self, case, impl_out):
        if impl_out.startswith(("HARNESS-EXC", "crash:")):
            return impl_out.split(" ")[0]
        kinds = "".join(sorted(set(impl_out.replace(",", ""))))
        return f"{case['sender']}-hs{case['hs'] % 3}-{kinds}"

    def shrink(self, case):
        pk = case["pkts"]
        base = {k: v for k, v in case.items() if k != "_c"}
        if len(pk) > 4:
            yield dict(base, pkts=pk[: len(pk) // 2])
            yield dict(base, pkts=pk[len(pk) // 2:])
        for i in range(len(pk)):
            yield dict(base, pkts=pk[:i] + pk[i + 1:])
        for i, (k, ext, alt) in enumerate(pk):
            if alt:
                yield dict(base, pkts=pk[:i] + [[k, ext, 0]] + pk[i + 1:])


# ----------------------------------------------------------------------------------------------
# component 6: `_write_ssl` — from the outgoing memory BIO (a byte stream of whole records) to datagrams
# ----------------------------------------------------------------------------------------------

class _BioOnly:
    """Stands in for the SSL.Connection of a transport as far as the OUTGOING memory BIO is concerned: `bio_read(n)` serves a
    byte stream the case filled with whole records (an empty BIO raises WantReadError as pyOpenSSL does); every other call goes
    to a genuine completed connection."""
    def __init__(self, real):
        self.buf, self.reads, self._real = b"", [], real

    def __getattr__(self, k):
        real = self.__dict__.get("_real")
        if real is None or k.startswith("__"):
            raise AttributeError(k)
        return getattr(real, k)

    def bio_read(self, n):
        from OpenSSL import SSL
        self.reads.append(n)
        if not self.buf or n <= 0:
            raise SSL.WantReadError()
        out, self.buf = self.buf[:n], self.buf[n:]
        return out


class _DgramSink:
    role = "controlling"

    def __init__(self):
        self.sent = []

    async def _send(self, data):
        self.sent.append(bytes(data))

    async def _recv(self):
        raise ConnectionError

    async def stop(self):
        pass


def app_record(n, seq):
    """n bytes that look like one DTLS 1.2 application-data record of epoch 1 (header + opaque body)."""
    n = max(n, 1)
    head = (b"\x17\xfe\xfd\x00\x01" + seq.to_bytes(6, "big") + max(n - 13, 0).to_bytes(2, "big"))[:n]
    return head + pattern(n - len(head), seq)


class Frame(Component):
    """Real `_write_ssl` of a fresh transport on a BIO the case fills: steps = record lengths (OpenSSL appended ONE record,
    e.g. `_send_data`) or 0 (bare call, e.g. at the end of `_recv_next`). Output: the datagrams handed to the ICE transport
    per step and what is left in the BIO. Model: `sendReads` with the sizes the method passed to `bio_read` as inputs."""
    name = "frame"
    theorems = ["sendRecord_whole", "sendRecord_cut", "sendRecord_after_cut", "sendRecords_whole", "data_messages_whole_1500",
                "writeSsl_empty", "writeReads_single", "writeReads_whole"]

    def corpus(self):
        return [{"steps": [38]}, {"steps": [1281, 43]}, {"steps": [1500, 0, 38, 1499]}, {"steps": [1300, 1400, 1463 + 37, 0, 60]},
                {"steps": [0, 0]}, {"steps": [1501, 0, 50]}, {"steps": [2037, 43, 0, 0, 44]}, {"steps": [1, 2, 13, 14]}]

    def cases(self, rng, tier):
        out = []
        for i in range(80 if tier == "quick" else 3000):
            steps = []
            for _ in range(rng.choice([1, 2, 3, 4, 6])):
                m = rng.random()
                if m < 0.15:
                    steps.append(0)
                elif m < 0.6:
                    steps.append(rng.choice(DATA_EDGE) + rng.choice([37, 37, 29, 13]))
                else:
                    steps.append(rng.choice([1, 14, 38, 200, 1237, rng.randrange(1, 1501), rng.randrange(1180, 1501), 1500]))
            if rng.random() < 0.25:
                steps += [rng.choice([1501, 1537, 2000, 3001, 4000]), rng.choice([0, 43]), rng.choice([0, 60])]
            out.append({"steps": steps, "n": i})
        return out

    def _records(self, case):
        return [app_record(n, i) if n else None for i, n in enumerate(case["steps"])]

    def _run(self, case):
        """-> (canonical output, chunk observed or None)"""
        from harness import c04pool
        M = _M()
        try:
            sink = _DgramSink()
            t = M.RTCDtlsTransport(sink, [_pool()["certs"][0]["rtc"]])
            bio = _BioOnly(c04pool.peer_connection(M, 0)[0])
            t._ssl = bio
            write = t._write_ssl
        except Exception as exc:
            return "HARNESS-EXC cannot drive the implementation: " + type(exc).__name__ + ": " + str(exc)[:120], None
        outs, reads = [], []
        loop = asyncio.new_event_loop()
        try:
            for r in self._records(case):
                if r is not None:
                    bio.buf += r
                n = len(sink.sent)
                bio.reads = []
                reads.append(bio.reads)
                try:
                    loop.run_until_complete(write())
                except Exception as exc:
                    if _raised_in_harness(exc):
                        return "HARNESS-EXC cannot drive the implementation: " + type(exc).__name__ + ": " + str(exc)[:120], None
                    return "crash " + type(exc).__name__, None
                new = sink.sent[n:]
                outs.append("+".join(enc_hex(d) for d in new) if new else "none")
        finally:
            loop.close()
        return (",".join(outs) or "-") + " left:" + enc_hex(bio.buf), reads

    def impl(self, case):
        out, reads = self._run(case)
        case.setdefault("_c", {})["reads"] = reads
        return out

    def model_line(self, case):
        if "reads" not in case.get("_c", {}):
            self.impl(case)
        reads = case["_c"]["reads"]
        if reads is None:
            return "dtls cannot-drive"
        # the sizes the method passed to `bio_read` in each step are inputs of the model (one read per call in the pinned code)
        return "dtls frame - " + (",".join((enc_hex(r) if r is not None else "F") + "@" + ".".join(str(x) for x in rd)
                                           for r, rd in zip(self._records(case), reads)) or "-")

    def oracle(self, case, impl_out):
        if impl_out.startswith("HARNESS-EXC"):
            return None
        if impl_out.startswith("crash "):
            return "_write_ssl raised " + impl_out[6:]
        body, left = impl_out.rsplit(" left:", 1)
        steps = [] if body == "-" else [([] if x == "none" else [bytes.fromhex(h) if h != "-" else b"" for h in x.split("+")]) for x in body.split(",")]
        recs = self._records(case)
        if len(steps) != len(recs):
            return f"{len(recs)} steps, {len(steps)} outcomes"
        # the BIO is a byte stream: nothing is lost, duplicated or re-ordered
        put = b"".join(r for r in recs if r is not None)
        out = b"".join(d for st in steps for d in st) + (bytes.fromhex(left) if left != "-" else b"")
        if out != put:
            return f"{len(put)} bytes were put into the outgoing BIO, {len(out)} came out (datagrams + rest) or came out in another order"
        clean = True    # the BIO was empty before this step
        for i, (r, st) in enumerate(zip(recs, steps)):
            if not clean:
                break   # an over-long record was cut earlier (notes/C04.md D4): what follows is not required
            if r is None:
                if st:
                    return f"step {i + 1}: _write_ssl on an empty BIO handed {[len(d) for d in st]} bytes to the ICE transport"
                continue
            if len(r) <= MAX_DATAGRAM:
                if st != [r]:
                    return (f"step {i + 1}: a DTLS record of {len(r)} bytes (<= {MAX_DATAGRAM}) was appended to the empty outgoing BIO; "
                            f"_write_ssl handed datagram(s) of {[len(d) for d in st]} bytes to the ICE transport instead of the one whole "
                            f"record — DTLS does not re-assemble records: the message is lost and the rest corrupts the next datagram")
            else:
                clean = False
        return None

    def label(self, case, impl_out):
        if impl_out.startswith(("HARNESS-EXC", "crash ")):
            return impl_out.split(" ")[0]
        big = max(case["steps"] + [0])
        return ("over1500" if big > 1500 else "1281-1500" if big > 1280 else "<=1280") + ("+bare" if 0 in case["steps"] else "") + \
               ("+left" if not impl_out.endswith("left:-") else "")

    def shrink(self, case):
        st = case["steps"]
        base = {k: v for k, v in case.items() if k != "_c"}
        for i in range(len(st)):
            if len(st) > 1:
                yield dict(base, steps=st[:i] + st[i + 1:])
        for i, n in enumerate(st):
            for m in (n // 2, n - 100, n - 10, n - 1):
                if 0 < m < n:
                    yield dict(base, steps=st[:i] + [m] + st[i + 1:])


class _KeysFirst(KeysComp):
    def impl_many(self, cases):
        _ensure_zygote()
        return KeysComp.impl_many(self, cases)


def components(tier):
    # order = order in which failures are reported: the end-to-end components before the function-level configuration checks
    return [Identity(), Pair(), Intruder(), SrtpWindow(), Frame(), _KeysFirst()]


def classify_finding(finding, comp_name, case, what):
    if finding.get("id") == "C04-oversize-data-record-cut":
        return what.endswith("[data record over %d bytes]" % MAX_DATAGRAM)
    return False
