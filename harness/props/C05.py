"""C05 — no received datagram can crash, hang or wedge the receive path."""
from harness import sctp_check as S

LEAN_TARGETS = ["Aiortc.Props.C05"]
DRIVERS = ["Sctp"]
RULE = ("SCTP: recorded schedules over two REAL endpoints in which a quarter of the steps inject a hostile datagram "
        "(random bytes, mutated real datagrams with recomputed CRC, structure-aware nonsense chunks of every type with the "
        "correct verification tag) in whatever protocol state the endpoint is in; every step is replayed through the Lean "
        "automaton; afterwards the network heals and valid traffic must still be delivered")


def oracle_alive(case, run):
    """No exception escapes, and afterwards the transport still processes valid traffic normally."""
    r = S.oracle_no_crash(case, run) or S.oracle_work(case, run)
    if r:
        return r
    if any(op[0] == "inject" and op[3] for op in case["ops"]):
        # a forged but VALID protocol action was injected: SCTP gives it an effect on later traffic
        return None
    if run.healed is False and run.state["A"] == "connected" and run.state["B"] == "connected":
        import json
        return ("after harmless hostile datagrams the association is connected but never becomes quiescent again: "
                + json.dumps(run.internals) + " armed=" + json.dumps(run.armed))
    return S.oracle_recovers(case, run)


class World(S.WorldComponent):
    name = "sctp"
    prop = "C05"
    theorems = ["parsers_total", "sctp_rx_total"]
    mix = [("hostile", False, 2), ("hostile-benign", False, 3), ("hostile-benign", True, 1)]
    quick = (40, 220)
    thorough = (400, 400)
    oracles = [oracle_alive]

    def shrink(self, case):
        # hostile datagrams are relative to the state they were generated in (fresh vs stale TSNs):
        # only prefixes of the schedule keep their meaning
        ops = case["ops"]
        n = len(ops)
        k = n // 2
        while k >= 1:
            if n - k >= 2:
                yield dict(case, ops=ops[: n - k])
            k //= 2


def components(tier):
    return [World()]


def classify_finding(finding, comp_name, case, what):
    return False
