"""C05 — no received datagram can crash, hang or wedge the receive path."""
from harness import sctp_check as S
from harness import c05rtp as R

LEAN_TARGETS = ["Aiortc.Props.C05", "Aiortc.Props.C05Sctp", "Aiortc.Props.C05Sctp2", "Aiortc.Props.C05Rtp"]
AUDIT_PROPS = ["C05", "C05Sctp", "C05Sctp2", "C05Rtp"]
DRIVERS = ["Sctp"] + list(R.DRIVERS)
MANIFEST = {
    "technique": "Lean 4 theorems (weakest-precondition calculus over the SCTP endpoint automaton; totality of every wire parser; "
                 "dispatch models of the RTP/RTCP receive path) + byte-exact trace correspondence with real endpoints under hostile datagrams",
    "text": "SCTP: `rx_never_crashes_proved` - from every endpoint state satisfying the invariant `Inv` (proved to hold after start() and to be "
            "preserved by every datagram, timer expiry and task), NO byte string makes the receive path raise or hang, and the invariant holds "
            "again afterwards; `reachable_rx_never_crashes_proved` / `rx_never_crashes2_proved` (Props/C05Sctp2) lift this to the weaker invariant "
            "`Inv2` that allows channels still waiting for their stream id and partially reliable traffic (FORWARD-TSN building, _maybe_abandon): "
            "`Inv2` holds from `Ep.init` on, is preserved by EVERY input (datagrams, armed timers, tasks, createDataChannel before and after "
            "start(), send, close while established, bufferedAmountLowThreshold, stop, and arming ANY one-shot application event handler that re-enters "
            "send() from inside open/close/bufferedamountlow/message/datachannel events - `react_preserves_inv2`) and no datagram can crash or hang any "
            "state reachable that way, handlers armed, under one capacity hypothesis (send() calls + armed handlers <= 16381, the number of streams a "
            "FORWARD-TSN can list; the former stream id capacity `Cap` is "
            "gone since the fix that closes a channel which cannot get a stream id <= 65535 is modelled); every wire parser (SCTP packets/chunks/parameters/RE-CONFIG, RTP, header extensions, RTCP, REMB, H.264 and VP8 "
            "payload descriptors) returns a value or ValueError for every input (`parsers_total`); RTP/RTCP: the dispatch around the parsers "
            "(`_recv_next` demultiplexing, `_handle_rtp_data`, `_handle_rtcp_data`, receiver and sender RTCP/RTP handlers) is total on states "
            "satisfying the component invariants (receivers: jitter buffer / statistics / NACK generator / timestamp mapper; senders: the RTX sequence "
            "number is a 16-bit number, from every origin and after any number of retransmissions - `rtx_counter_every_origin`) and `still_alive` shows these are preserved. The models are tied to the real code by replaying "
            "recorded runs of REAL endpoints / transports / receivers / senders with hostile datagrams injected in every protocol state.",
    "note": "Partial: `rx_never_crashes_proved` assumes no queued message of a channel still waiting for its stream id, only reliable traffic "
            "in the send queues and NO armed re-entrant handler (a handler may send on a partially reliable channel opened by the peer); `rx_never_crashes2_proved` / `reachable_rx_never_crashes_proved` drop both (a peer occupying every stream id of the "
            "local parity is harmless now: the channel is closed); close() outside ESTABLISHED is only shown "
            "to raise nothing but the KeyError of an unregistered channel (see ASSUMPTIONS); work bounds are explicit only for SACK gap expansion, the NACK generator and retransmissions; real "
            "memory use, the decoder thread and PyAV are outside; the CPU-time and still-alive clauses are oracle-checked on the implementation.",
    "design_ref": "DESIGN.md §2 C05, §8.2",
}
ASSUMPTIONS = [
    "SCTP part (`rx_never_crashes_proved`): the endpoint state satisfies `Inv` (indices of `dataChannels`/`dcQueue` valid, started => ids and remote "
    "port known, timers armed iff their chunk is present, reassembly TSNs accepted, no queued message of a channel still waiting for its stream id, "
    "nothing partially reliable queued for sending, no re-entrant application handler armed), the datagram is a byte string and the state cookie is at most 1000 bytes",
    "SCTP part, second layer (`rx_never_crashes2_proved`, `reachable_rx_never_crashes_proved`, `react_preserves_inv2`, Props/C05Sctp2): "
    "`Inv2 B e` (as `Inv` without its last three clauses, plus: there is a set `U` of stream ids with |U| + armed handlers + B <= 16381 such "
    "that every chunk / queued message subject to partial reliability is on a stream of `U`, adjacent chunks of sent_queue ++ outbound_queue "
    "are on the same stream or a message boundary, FORWARD-TSN streams are distinct members of `U`; an OPEN channel is reliable or has its "
    "stream id; a registered stream id is the id of its channel object; an armed T1/T2 holds a serialisable chunk, queued retransmission "
    "tasks are serialisable); ARBITRARY armed handlers (`reactions`: any kind, any channel index); API preconditions of the run theorem: "
    "createDataChannel with label/protocol < 65536 bytes, 32-bit reliability parameter, explicit id in 0..65534; send/close/threshold on "
    "existing channel objects; send() and arming a handler each take one unit of the budget B <= 16381; close() while ESTABLISHED; timers "
    "fire only when armed; before start() only createDataChannel, its flush task and arming handlers",
    "hostile datagrams that are valid protocol actions under the correct verification tag (fresh DATA, SACK/FORWARD-TSN ahead of the truth, stream "
    "resets, ABORT, mutated real datagrams ...) are only required not to crash or hang the endpoint; non-forging datagrams must also leave the "
    "association able to carry valid traffic afterwards",
] + list(R.ASSUMPTIONS)
TRUSTED_EXTRA = [
    "HMAC-SHA1 of the SCTP state cookie is not modelled (a COOKIE-ECHO is valid iff its body is a cookie this endpoint issued)",
    "handlers are atomic in the model; the simulation counts coroutines that suspend (none does)",
] + list(R.TRUSTED_EXTRA)
RULE = ("SCTP: recorded schedules over two REAL endpoints in which a quarter of the steps inject a hostile datagram "
        "(random bytes, mutated real datagrams with recomputed CRC, structure-aware nonsense chunks of every type with the "
        "correct verification tag) in whatever protocol state the endpoint is in; every step is replayed through the Lean "
        "automaton; afterwards the network heals and valid traffic must still be delivered. " + R.RULE)


def oracle_alive(case, run):
    """No exception escapes, and afterwards the transport still processes valid traffic normally."""
    r = S.oracle_no_crash(case, run) or S.oracle_work(case, run)
    if r:
        return r
    if any(op[0] == "inject" and op[3] for op in case["ops"]):
        # a forged but VALID protocol action was injected: SCTP gives it an effect on later traffic
        return None
    if run.healed is False and run.state["A"] == "connected" and run.state["B"] == "connected":
        import json
        return ("after harmless hostile datagrams the association is connected but never becomes quiescent again: "
                + json.dumps(run.internals) + " armed=" + json.dumps(run.armed))
    return S.oracle_recovers(case, run)


class World(S.WorldComponent):
    name = "sctp"
    prop = "C05"
    theorems = ["rx_never_crashes_proved", "rx_no_hang", "sctp_parsers_total", "rx_never_crashes2_proved",
                "reachable_rx_never_crashes_proved", "react_preserves_inv2"]
    mix = [("hostile", False, 2), ("hostile-benign", False, 3), ("hostile-benign", True, 1), ("strike", False, 1)]
    quick = (40, 220)
    thorough = (250, 400)
    oracles = [oracle_alive]

    def corpus(self):
        # handlers that create / close channels from inside `open` / `close` events at the moments the transport walks
        # its channel tables while handling a datagram or a timer (oracle-only runs: nothing may escape)
        from harness.props import C13
        extra = [c for c in C13.directed_lifecycle_cases() if c["profile"] == "directed-reentrant"]
        return super().corpus() + extra

    def shrink(self, case):
        # hostile datagrams are relative to the state they were generated in (fresh vs stale TSNs):
        # only prefixes of the schedule keep their meaning
        ops = case["ops"]
        n = len(ops)
        k = n // 2
        while k >= 1:
            if n - k >= 2:
                yield dict(case, ops=ops[: n - k])
            k //= 2


def components(tier):
    return [World()] + list(R.components(tier))


def classify_finding(finding, comp_name, case, what):
    return False
