"""C06 — partially reliable channels drop only whole messages and never disturb others.

Components:
  world    recorded fault schedules over two REAL endpoints, replayed through the Lean endpoint automaton
           (harness/sctp_check.py) + the C06/C01/C02/recovery oracles on the real run;
  abandon  `_maybe_abandon` on arbitrary sent/outbound queues vs `Tx.maybeAbandon` (function level);
  advack   `_update_advanced_peer_ack_point` vs `Tx.updateAdvAck` (function level);
  fwd      `_receive_forward_tsn_chunk` on arbitrary receiver states vs `rxFwd` — the pure restatement
           (Model/Sctp/Forward.lean) that the non-interference theorems are about;
  rxdata   `_receive_data_chunk` on arbitrary receiver states vs `rxData` (the other half of `rxRun`, the
           receiver the integrity theorem `pr_integrity_arrivals` is about).
"""
from __future__ import annotations

import random

from harness.check import Component
from harness import sctp_check as S

LEAN_TARGETS = ["Aiortc.Props.C06"]
DRIVERS = ["Sctp", "SctpPr"]
MANIFEST = {
    "technique": "Lean 4 theorems (structural induction / invariants, all inputs) about the executable SCTP model + trace "
                 "correspondence of that model with two real endpoints under recorded fault schedules + function-level "
                 "differential runs of _maybe_abandon / _update_advanced_peer_ack_point / _receive_forward_tsn_chunk + "
                 "property oracles on the real behaviour",
    "text": "Proved for all queues, histories and arrival lists: _maybe_abandon marks exactly the fragments of one message "
            "(B fragment through E fragment, including the unsent remainder moved from the outbound queue) and keeps the "
            "flight accounting exact (abandon_whole_message*, abandon_flight*) and, unconditionally, never loses/reorders/alters a chunk of any channel "
            "(abandon_never_alters_queue); reliable fragments never trigger it "
            "(reliable_never_abandoned); the advanced ack point pops exactly the abandoned prefix, the FORWARD TSN carries the "
            "last popped ssn per ordered stream and stays pending until lastSacked catches up (adv_ack_only_over_abandoned, "
            "forward_tsn_streams, forward_tsn_pending, forward_tsn_sent_first); prune_chunks removes exactly the maximal runs "
            "lacking a fragment with TSN <= cum, keeps the others in order, frees exactly the removed bytes (prune_rule, prune_runs, "
            "prune_keeps_complete); a FORWARD TSN leaves unlisted streams that wait for nothing <= cum untouched and never moves a "
            "listed stream's expected ssn backwards (reliable_unaffected, forward_tsn_unlisted_stream, forward_tsn_seq_not_backwards); "
            "whatever a stream yields under ANY interleaving of add_chunk/prune_chunks/sequence-number updates/pop_messages is "
            "(stream, ppid, bytes) of ONE message the peer sent on that stream, never a splice (pr_integrity, pop_sound), and the same for the "
            "whole receiver (_mark_received + streams) under arbitrary arrival lists of DATA and honest-or-not FORWARD TSN chunks "
            "(pr_integrity_arrivals); after pruning "
            "no orphan of a skipped message heads the queue and a complete fresh message alone in the queue is delivered "
            "(pr_recovers_partial).",
    "note": "Duplicate-freeness, sending order on ordered channels, 'delivered again after the network recovers' and the "
            "cross-endpoint part of non-interference (a reliable stream never waits for a TSN <= the peer's advanced ack point) are "
            "NOT Lean theorems (pr_delivery_full, pr_recovers_full are kept as unproved Props): they are checked on every real run by "
            "oracle_c06 / oracle_c01 / oracle_c02 / oracle_recovers over mixed reliable + retransmit-limited + lifetime-limited "
            "channels with messages up to 20000 bytes (> cwnd), and the model the theorems are about is replayed step by step against "
            "both real endpoints.",
    "design_ref": "DESIGN.md §2 C06, §2.0",
}
ASSUMPTIONS = [
    "abandon_whole_message*: the sent queue followed by the outbound queue holds whole messages as _send produces them (IsMsg: B flag on "
    "the first and only the first fragment, E flag on the last and only the last); proved to hold for every non-empty _send "
    "(send_fragments_are_messages), its preservation by the other sender functions is covered by the trace correspondence only",
    "abandon_flight*: _flight_size equals the sum of the book sizes of the in-flight fragments of the sent queue and nothing in the "
    "outbound queue is in flight (FlightOk) before the call",
    "pr_integrity: fewer than 2^32 DATA chunks are sent on the association (TSNs are not reused), and every fragment added to a stream "
    "is the wire image of a fragment made by _send for that stream (no corruption — CRC32c, C08 — and the sender never alters "
    "tsn/sid/ssn/ppid/flags/payload after _send: abandon_keeps_wire for _maybe_abandon, trace correspondence for the rest)",
    "reliable_unaffected / forward_tsn_unlisted_stream: hypothesis NotWaiting (no run of the stream's reassembly queue lacks a fragment with "
    "TSN <= cum); that it holds for reliable streams needs the sender side (reliable fragments are never abandoned, so cum only covers "
    "acknowledged ones) and is established on real runs by the trace correspondence + oracle_c01/c02 on reliable channels sharing the "
    "association with abandoning channels",
    "pr_recovers_partial (3): the fresh message is alone in the reassembly queue; that the queue in front of it eventually empties is "
    "liveness of the pair of endpoints (oracle_recovers)",
    "lifetimes that are multiples of 125 ms are not generated (the model compares expiry exactly, Python compares floats)",
]
TRUSTED_EXTRA = [
    "Model/Sctp/Forward.lean (rxFwd/fwdStreams, rxData, rxRun) restates Endpoint.receiveForwardTsn / receiveData purely; it is tied to "
    "the real _receive_forward_tsn_chunk / _receive_data_chunk by the `fwd` / `rxdata` differential components, not by a Lean proof of "
    "equivalence with the monadic handlers",
    "StreamOp / runOps (Lemmas/SctpIntegrity.lean) is the list of operations the transport applies to an InboundStream "
    "(read off _receive_data_chunk, _receive_forward_tsn_chunk and the stream-reset handler); _mark_received in front of it only "
    "filters arrivals, which pr_integrity already allows",
    "the deterministic harness around the real endpoints (harness/sctp_sim.py: scripted clock, timers and task queue)",
]
RULE = ("world: recorded fault schedules over two REAL endpoints with reliable, retransmit-limited and lifetime-limited channels "
        "(ordered/unordered, messages up to 20000 bytes so that only part of a message is in flight when abandoned), healed and probed, "
        "replayed through the Lean automaton; non-trivial = a message was delivered.  abandon/advack/fwd: sender queues and receiver "
        "states built from random message histories (1-5 fragments, several streams, TSNs near the 2^32 wrap in a quarter of the cases), "
        "with random bookkeeping flags, split points inside messages, partially received messages and FORWARD TSN points on and off message "
        "boundaries, plus adversarial states (unsorted queues, inconsistent flags); distinct = distinct case")


class World(S.WorldComponent):
    name = "world"
    prop = "C06"
    theorems = ["abandon_whole_message", "abandon_whole_message_unsent", "adv_ack_only_over_abandoned", "forward_tsn_pending",
                "prune_rule", "reliable_unaffected", "pr_integrity", "pr_recovers_partial"]
    ssn_share = 4
    mix = [("ssnwrap", False, 1), ("mixed-pr", False, 4), ("mixed-pr", True, 1), ("expiry", False, 2), ("strike", False, 5)]
    quick = (36, 300)
    thorough = (150, 500)
    oracles = [S.oracle_no_crash, S.oracle_c06, S.oracle_c01, S.oracle_c02, S.oracle_recovers]


# ---------------------------------------------------------------------------------------------------------
# function-level components
# ---------------------------------------------------------------------------------------------------------

M32 = 2 ** 32
LAST, FIRST, UNORD = 1, 2, 4


def _gt32(a, b):
    return (a < b and b - a > 2 ** 31) or (a > b and a - b < 2 ** 31)


def _gte32(a, b):
    return a == b or _gt32(a, b)


def _gt16(a, b):
    return (a < b and b - a > 2 ** 15) or (a > b and a - b < 2 ** 15)


class _FakeEp:
    def __init__(self):
        self.log, self.outbox, self.timers, self.tasks = [], [], [], []


def _transport():
    """A real RTCSctpTransport under the deterministic runtime of harness/sctp_sim.py."""
    from harness import sctp_sim as sim
    m = sim.install()
    ep = _FakeEp()
    sim._CUR = ep
    sim._RANDOM[:] = [1, 0]
    t = m.RTCSctpTransport(sim.DtlsStub(ep, "server"), 5000)
    return sim, m, t


def _drive(coro):
    try:
        coro.send(None)
    except StopIteration:
        return
    coro.close()
    raise RuntimeError("handler suspended")


def _history(rng, wrap):
    """A sender history: list of messages, each a list of fragment dicts with consecutive TSNs."""
    tsn = 0 if wrap else rng.randrange(M32)
    nstreams = rng.choice([1, 2, 3])
    kinds = {}
    for sid in range(nstreams):
        kinds[sid] = dict(ordered=rng.random() < 0.65, maxrtx=rng.choice([None, None, 0, 1, 3]),
                          life=rng.choice([None, None, None, 5, 700]))
    ssn = {sid: rng.choice([0, 0, 3, 65534, 65535]) for sid in kinds}
    msgs = []
    for _ in range(rng.randrange(1, 7)):
        sid = rng.randrange(nstreams)
        k = kinds[sid]
        n = rng.choice([1, 1, 2, 3, 5])
        frs = []
        for i in range(n):
            flags = 0 if k["ordered"] else UNORD
            if i == 0:
                flags |= FIRST
            if i == n - 1:
                flags |= LAST
            data = bytes(rng.randrange(256) for _ in range(rng.choice([1, 1, 2, 3])))
            frs.append(dict(tsn=tsn, sid=sid, ssn=ssn[sid] if k["ordered"] else 0, ppid=rng.choice([51, 53]), flags=flags,
                            data=data.hex(), maxrtx=k["maxrtx"], life=k["life"]))
            tsn = (tsn + 1) % M32
        if k["ordered"]:
            ssn[sid] = (ssn[sid] + 1) % 65536
        msgs.append(frs)
    if wrap:
        # put the 2^32 wrap on a random chunk boundary of the history (often inside a message)
        total = sum(len(m) for m in msgs)
        shift = M32 - rng.randrange(0, total + 1)
        for m in msgs:
            for c in m:
                c["tsn"] = (c["tsn"] + shift) % M32
    return msgs, kinds


# ---- abandon ---------------------------------------------------------------------------------------------

def _sq_fields(c):
    return [c["tsn"], c["sid"], c["ssn"], c["flags"], int(c["ab"]), int(c["rt"]), int(c["inf"]), c["book"], c["sc"],
            c["maxrtx"], c["expiry"]]


def _sq_show(fields):
    f = list(fields)
    f[9] = "n" if f[9] is None else f[9]
    f[10] = "n" if f[10] is None else f[10]
    return ".".join(str(x) for x in f)


def _q_show(q):
    return ";".join(_sq_show(c) for c in q) if q else "-"


def _mk_queues(rng, now1000, adversarial):
    msgs, _ = _history(rng, rng.random() < 0.25)
    chunks = [c for m in msgs for c in m]
    split = rng.randrange(0, len(chunks) + 1)
    out = []
    for idx, c in enumerate(chunks):
        sent = idx < split
        expiry = None
        if c["life"] is not None:
            # expiry relative to the clock: in the past, now, or in the future
            expiry = now1000 + rng.choice([-5000, -1, 0, 1, 70000])
        d = dict(tsn=c["tsn"], sid=c["sid"], ssn=c["ssn"], flags=c["flags"], book=len(c["data"]) // 2,
                 maxrtx=c["maxrtx"], expiry=expiry, ab=False, rt=False, inf=False, sc=0)
        if sent:
            d["sc"] = rng.choice([1, 1, 2, 4])
            d["inf"] = rng.random() < 0.6
            d["rt"] = rng.random() < 0.2
            d["ab"] = rng.random() < 0.1
        if adversarial:
            d["flags"] = rng.choice([d["flags"], d["flags"] ^ FIRST, d["flags"] ^ LAST, rng.randrange(8)])
            d["inf"] = rng.random() < 0.5
        out.append(d)
    sentq = [_sq_fields(c) for c in out[:split]]
    outq = [_sq_fields(c) for c in out[split:]]
    flight = sum(c[7] for c in sentq if c[6])
    if adversarial and rng.random() < 0.5:
        flight = rng.randrange(0, flight + 3)
    return sentq, outq, flight


def _load_queues(m, t, sentq, outq, flight):
    def mk(f):
        c = m.DataChunk()
        c.tsn, c.stream_id, c.stream_seq, c.flags = f[0], f[1], f[2], f[3]
        c.protocol, c.user_data = 53, b"x" * f[7]
        c._abandoned, c._retransmit, c._in_flight = bool(f[4]), bool(f[5]), bool(f[6])
        c._book_size, c._sent_count = f[7], f[8]
        c._max_retransmits = f[9]
        c._expiry = None if f[10] is None else f[10] / 1024000.0
        c._acked, c._misses, c._sent_time = False, 0, None
        c._src = f
        return c
    t._sent_queue.clear()
    t._outbound_queue.clear()
    t._sent_queue.extend(mk(f) for f in sentq)
    t._outbound_queue.extend(mk(f) for f in outq)
    t._flight_size = flight


def _dump_q(q):
    return [[c.tsn, c.stream_id, c.stream_seq, c.flags, int(c._abandoned), int(c._retransmit), int(c._in_flight), c._book_size,
             c._sent_count, c._max_retransmits, c._src[10]] for c in q]


class Abandon(Component):
    name = "abandon"
    theorems = ["abandon_whole_message", "abandon_whole_message_unsent", "abandon_flight", "abandon_flight_unsent", "abandon_noop",
                "reliable_never_abandoned"]

    def corpus(self):
        # 3-fragment message, maxRetransmits 0, two fragments sent, the last still in the outbound queue
        return [dict(now=1024000000, pos=1, flight=2,
                     sentq=[[10, 1, 0, 2, 0, 0, 1, 1, 1, 0, None], [11, 1, 0, 0, 0, 0, 1, 1, 1, 0, None]],
                     outq=[[12, 1, 0, 1, 0, 0, 0, 1, 0, 0, None], [13, 1, 1, 3, 0, 0, 0, 1, 0, 0, None]])]

    def cases(self, rng, tier):
        n = 400 if tier == "quick" else 6000
        out = []
        for i in range(n):
            now = 1000 * rng.choice([1024000, 1024001, 5000000])
            sentq, outq, flight = _mk_queues(rng, now, adversarial=(i % 5 == 4))
            if not sentq:
                continue
            out.append(dict(now=now, pos=rng.randrange(len(sentq)), flight=flight, sentq=sentq, outq=outq))
        return out

    def model_line(self, case):
        return f"sctppr abandon {case['now']} {case['pos']} {case['flight']} {_q_show(case['sentq'])} {_q_show(case['outq'])}"

    def _run(self, case):
        sim, m, t = _transport()
        _load_queues(m, t, case["sentq"], case["outq"], case["flight"])
        sim.Clock.ticks = case["now"] // 1000
        r = t._maybe_abandon(t._sent_queue[case["pos"]])
        return bool(r), t._flight_size, _dump_q(t._sent_queue), _dump_q(t._outbound_queue)

    def impl(self, case):
        r, flight, sq, oq = self._run(case)
        return f"ok {int(r)} {flight} {_q_show(sq)} {_q_show(oq)}"

    def oracle(self, case, impl_out):
        """Whole message or nothing (evaluated on the real method's effect only)."""
        if not impl_out.startswith("ok "):
            return impl_out[:200]
        r, flight, sq, oq = self._run(case)
        before = case["sentq"] + case["outq"]
        after = sq + oq
        if [c[:4] for c in before] != [c[:4] for c in after]:
            return "_maybe_abandon reordered, lost or altered chunks (tsn/sid/ssn/flags)"
        pos = case["pos"]
        was = case["sentq"][pos][4]
        changed = [i for i, (b, a) in enumerate(zip(before, after)) if b != a]
        newly = [i for i, (b, a) in enumerate(zip(before, after)) if a[4] and not b[4]]
        if not r:
            return "returned False but changed state" if changed or flight != case["flight"] or len(sq) != len(case["sentq"]) else None
        if was:
            return "chunk already abandoned, yet state changed" if changed or flight != case["flight"] else None
        # the message around pos according to the B/E flags of the queues
        lo = pos
        while lo > 0 and not before[lo][3] & FIRST:
            lo -= 1
        hi = pos
        while hi < len(before) - 1 and not before[hi][3] & LAST:
            hi += 1
        wellformed = (all(not before[i][3] & FIRST for i in range(lo + 1, hi + 1)) and bool(before[lo][3] & FIRST)
                      and bool(before[hi][3] & LAST) and all(not before[i][3] & LAST for i in range(lo, hi)))
        if not wellformed or any(c[6] or c[4] for c in case["outq"]):
            return None   # adversarial flags / impossible outbound queue: only the differential run applies
        if any(not after[i][4] for i in range(lo, hi + 1)):
            return f"fragments {lo}..{hi} form one message but only part of it is abandoned"
        if any(i < lo or i > hi for i in changed):
            return f"abandoning the message at {lo}..{hi} changed another chunk ({changed})"
        if any(after[i][6] or after[i][5] for i in range(lo, min(hi + 1, len(sq)))):
            return "an abandoned fragment is still in flight / marked for retransmission"
        if len(sq) < hi + 1:
            return "unsent fragments of the abandoned message stay in the outbound queue"
        if len(sq) != max(len(case["sentq"]), hi + 1):
            return "chunks of another message were moved out of the outbound queue"
        consistent = case["flight"] == sum(c[7] for c in case["sentq"] if c[6]) and not any(c[6] for c in case["outq"])
        if consistent and flight != sum(c[7] for c in sq if c[6]):
            return f"flight size {flight} is not the sum of the in-flight book sizes afterwards"
        return None

    def label(self, case, impl_out):
        p = impl_out.split(" ")
        if len(p) < 3:
            return impl_out[:20]
        moved = len(case["outq"]) - (0 if p[4] == "-" else len(p[4].split(";"))) if len(p) > 4 else 0
        return f"ret={p[1]}{'-moved' if moved else ''}{'-was' if case['sentq'][case['pos']][4] else ''}"

    def shrink(self, case):
        for key in ("outq", "sentq"):
            q = case[key]
            for i in range(len(q)):
                if key == "sentq" and (len(q) == 1 or i == case["pos"]):
                    continue
                c = dict(case, **{key: q[:i] + q[i + 1:]})
                if key == "sentq" and i < case["pos"]:
                    c["pos"] = case["pos"] - 1
                yield c


# ---- advack ----------------------------------------------------------------------------------------------

class AdvAck(Component):
    name = "advack"
    theorems = ["adv_ack_only_over_abandoned", "forward_tsn_streams", "forward_tsn_pending"]

    def cases(self, rng, tier):
        n = 300 if tier == "quick" else 4000
        out = []
        for i in range(n):
            sentq, _, _ = _mk_queues(rng, 1024000000, adversarial=False)
            # abandon a prefix of whole chunks (sometimes everything, sometimes nothing)
            k = rng.randrange(0, len(sentq) + 1)
            for j, c in enumerate(sentq):
                c[4] = int(j < k or rng.random() < 0.15)
            base = (sentq[0][0] - 1) % M32 if sentq else rng.randrange(M32)
            adv = (base - rng.choice([0, 0, 1, 3])) % M32
            last = (adv + rng.choice([-2, -1, 0, 0, 1])) % M32
            fstreams = [[sid, rng.randrange(65536)] for sid in rng.sample(range(4), rng.randrange(0, 3))]
            needed = bool(fstreams) or rng.random() < 0.3
            out.append(dict(last=last, adv=adv, needed=needed, fstreams=fstreams, sentq=sentq))
        return out

    def model_line(self, case):
        fs = ",".join(f"{a}.{b}" for a, b in case["fstreams"]) or "-"
        return f"sctppr advack {case['last']} {case['adv']} {int(case['needed'])} {fs} {_q_show(case['sentq'])}"

    def _run(self, case):
        sim, m, t = _transport()
        _load_queues(m, t, case["sentq"], [], 0)
        t._last_sacked_tsn, t._advanced_peer_ack_tsn = case["last"], case["adv"]
        t._forward_tsn_needed = case["needed"]
        t._forward_tsn_streams = {a: b for a, b in case["fstreams"]}
        t._forward_tsn_chunk = None
        t._update_advanced_peer_ack_point()
        return t

    def impl(self, case):
        t = self._run(case)
        fs = ",".join(f"{a}.{b}" for a, b in t._forward_tsn_streams.items()) or "-"
        ch = t._forward_tsn_chunk
        fwd = "n" if ch is None else f"{ch.cumulative_tsn}:" + (",".join(f"{a}.{b}" for a, b in ch.streams) or "-")
        rest = ",".join(str(c.tsn) for c in t._sent_queue) or "-"
        return f"ok {t._advanced_peer_ack_tsn} {int(t._forward_tsn_needed)} {fs} {fwd} {rest}"

    def oracle(self, case, impl_out):
        t = self._run(case)
        before = case["sentq"]
        rest = [c.tsn for c in t._sent_queue]
        npop = len(before) - len(rest)
        if [c[0] for c in before[npop:]] != rest:
            return "the sent queue was not popped from the head"
        if any(not c[4] for c in before[:npop]):
            return "the advanced ack point moved over a chunk that is not abandoned"
        if npop < len(before) and before[npop][4]:
            return "an abandoned chunk stays at the head of the sent queue"
        ch = t._forward_tsn_chunk
        if npop:
            if t._advanced_peer_ack_tsn != before[npop - 1][0]:
                return "advanced ack point is not the TSN of the last popped chunk"
            if ch is None or ch.cumulative_tsn != before[npop - 1][0]:
                return "no FORWARD TSN (or a wrong cumulative TSN) after popping abandoned chunks"
            want = {}
            for c in before[:npop]:
                if not c[3] & UNORD:
                    want[c[1]] = c[2]
            got = dict(ch.streams)
            for sid, ssn in want.items():
                if got.get(sid) != ssn:
                    return f"FORWARD TSN lists ssn {got.get(sid)} for stream {sid}, last abandoned ordered ssn is {ssn}"
        caught = _gte32(case["last"], case["adv"])
        if not npop and case["needed"] and not caught and ch is None:
            return "a pending FORWARD TSN was not re-armed although the peer has not caught up"
        if not npop and caught and ch is not None:
            return "FORWARD TSN re-sent although the peer's cumulative ack has caught up"
        return None

    def label(self, case, impl_out):
        p = impl_out.split(" ")
        return f"needed={p[2]} fwd={'y' if len(p) > 4 and p[4] != 'n' else 'n'}" if len(p) > 4 else impl_out[:20]


# ---- fwd -------------------------------------------------------------------------------------------------

def _rc_show(c):
    return ".".join(str(x) for x in c[:5]) + "." + (c[5] or "-")


def _ins_show(ins):
    if not ins:
        return "-"
    return "+".join(f"{sid}/{seq}/" + (";".join(_rc_show(c) for c in cs) if cs else "-") for sid, seq, cs in ins)


def _runs(chunks):
    """maximal runs as prune_chunks sees them (independent re-implementation for the oracle)."""
    runs = []
    for c in chunks:
        if runs and not runs[-1][-1][4] & LAST and not c[4] & FIRST and c[0] == (runs[-1][-1][0] + 1) % M32:
            runs[-1].append(c)
        else:
            runs.append([c])
    return runs


def _waiting(run, cum):
    first, last = run[0], run[-1]
    return ((not first[4] & FIRST and _gte32(cum, (first[0] - 1) % M32))
            or (not last[4] & LAST and _gte32(cum, (last[0] + 1) % M32)))


class Fwd(Component):
    name = "fwd"
    theorems = ["prune_rule", "prune_keeps_complete", "reliable_unaffected", "forward_tsn_unlisted_stream",
                "forward_tsn_seq_not_backwards", "pop_sound", "pr_recovers_partial"]

    def corpus(self):
        # DESIGN.md §2 C06 probe: PR chunk t lost, reliable 2-fragment message (t+1, t+2), t+1 arrived: FORWARD TSN(t)
        # must not discard the reliable fragment t+1
        return [dict(last=99, mis=[101], dups=[], cum=100, streams=[[1, 0]],
                     ins=[[1, 0, []], [2, 0, [[101, 2, 0, 53, 2, "aa"]]]])]

    def cases(self, rng, tier):
        n = 400 if tier == "quick" else 6000
        out = []
        for i in range(n):
            msgs, kinds = _history(rng, rng.random() < 0.3)
            chunks = [c for m in msgs for c in m]
            first = chunks[0]["tsn"]
            last = (first - 1 - rng.choice([0, 0, 2])) % M32
            # what arrived: each chunk with probability p, whole messages sometimes
            p = rng.choice([0.3, 0.6, 0.9])
            got = [c for c in chunks if rng.random() < p]
            # cumulative point before the FORWARD TSN: consolidate the received prefix sometimes
            if rng.random() < 0.5:
                while got and got[0]["tsn"] == (last + 1) % M32:
                    last = got[0]["tsn"]
                    # delivered or still in reassembly: keep it in reassembly only if its message is incomplete
                    got = got[1:] if rng.random() < 0.5 else got
                    if got and got[0]["tsn"] == last:
                        break
            mis = [c["tsn"] for c in got if _gt32(c["tsn"], last)]
            ins = {}
            for sid in kinds:
                if rng.random() < 0.85:
                    ins[sid] = [rng.choice([0, 0, 1, 3, 65535]), []]
            for c in got:
                ins.setdefault(c["sid"], [0, []])[1].append([c["tsn"], c["sid"], c["ssn"], c["ppid"], c["flags"], c["data"]])
            if i % 7 == 6:      # adversarial: unsorted queue / odd flags
                for s in ins.values():
                    rng.shuffle(s[1])
                    for c in s[1]:
                        if rng.random() < 0.3:
                            c[4] = rng.randrange(8)
            # FORWARD TSN point: a message boundary, mid-message, before the cumulative point, or far ahead
            ends = [m[-1]["tsn"] for m in msgs]
            cum = rng.choice(ends + [rng.choice(chunks)["tsn"], (last - 1) % M32, last, (chunks[-1]["tsn"] + 5) % M32])
            if any(c["tsn"] < 64 for c in chunks) and chunks[0]["tsn"] > 64 and rng.random() < 0.4:
                cum = rng.choice([M32 - 1, M32 - 1, 0, M32 - 2])     # FORWARD TSN point right at the wrap
            listed = {}
            for m in msgs:
                c = m[-1]
                if _gte32(cum, c["tsn"]) and not c["flags"] & UNORD and rng.random() < 0.8:
                    listed[c["sid"]] = c["ssn"]
            if rng.random() < 0.15:
                listed[rng.randrange(4)] = rng.choice([0, 5, 65535])
            dups = [rng.choice(chunks)["tsn"] for _ in range(rng.choice([0, 0, 1, 2]))]
            out.append(dict(last=last, mis=mis, dups=dups, cum=cum, streams=[[a, b] for a, b in listed.items()],
                            ins=[[sid, s[0], s[1]] for sid, s in ins.items()]))
        return out

    def model_line(self, case):
        ls = lambda l: ",".join(str(x) for x in l) or "-"
        st = ",".join(f"{a}.{b}" for a, b in case["streams"]) or "-"
        return f"sctppr fwd {case['last']} {ls(case['mis'])} {ls(case['dups'])} {case['cum']} {st} {_ins_show(case['ins'])}"

    def _run(self, case):
        sim, m, t = _transport()
        t._last_received_tsn = case["last"]
        t._sack_misordered = set(case["mis"])
        t._sack_duplicates = list(case["dups"])
        t._inbound_streams = {}
        for sid, seq, cs in case["ins"]:
            s = m.InboundStream()
            s.sequence_number = seq
            for c in cs:
                d = m.DataChunk()
                d.tsn, d.stream_id, d.stream_seq, d.protocol, d.flags, d.user_data = c[0], c[1], c[2], c[3], c[4], bytes.fromhex(c[5])
                s.reassembly.append(d)
            t._inbound_streams[sid] = s
        msgs = []

        async def receive(stream_id, pp_id, data):
            msgs.append((stream_id, pp_id, data))
        t._receive = receive
        rwnd0 = t._advertised_rwnd
        ch = m.ForwardTsnChunk()
        ch.cumulative_tsn = case["cum"]
        ch.streams = [tuple(x) for x in case["streams"]]
        _drive(t._receive_forward_tsn_chunk(ch))
        ins = [[sid, s.sequence_number, [[c.tsn, c.stream_id, c.stream_seq, c.protocol, c.flags, c.user_data.hex()] for c in s.reassembly]]
               for sid, s in t._inbound_streams.items()]
        return t, ins, msgs, t._advertised_rwnd - rwnd0

    def impl(self, case):
        try:
            t, ins, msgs, delta = self._run(case)
        except AssertionError:
            return "crash AssertionError"
        ls = lambda l: ",".join(str(x) for x in l) or "-"
        mis = [x for x in case["mis"] if x in t._sack_misordered]   # a set: shown in the order of the input list
        if len(mis) != len(t._sack_misordered):
            return "ok set-grew"
        mm = ",".join(f"{a}.{b}.{c.hex() or '-'}" for a, b, c in msgs) or "-"
        return f"ok {t._last_received_tsn} {ls(mis)} {ls(t._sack_duplicates)} {delta} {_ins_show(ins)} {mm}"

    def oracle(self, case, impl_out):
        """Non-interference, prune rule, integrity and byte accounting on the real handler's effect."""
        if not impl_out.startswith("ok "):
            return impl_out[:200]
        t, ins, msgs, delta = self._run(case)
        if _gte32(case["last"], case["cum"]):
            same = [[a, b, c] for a, b, c in case["ins"]] == ins and not msgs and delta == 0
            return None if same else "a duplicate FORWARD TSN changed the streams"
        before = {sid: (seq, cs) for sid, seq, cs in case["ins"]}
        after = {sid: (seq, cs) for sid, seq, cs in ins}
        listed = {a for a, _ in case["streams"]}
        cum = case["cum"]
        removed = 0
        for sid, (seq, cs) in before.items():
            seq2, cs2 = after[sid]
            runs = _runs(cs)
            keep = [c for r in runs if not _waiting(r, cum) for c in r]
            removed += sum(len(c[5]) // 2 for r in runs if _waiting(r, cum) for c in r)
            if sid not in listed:
                if seq2 != seq:
                    return f"stream {sid} is not listed by the FORWARD TSN but its expected ssn changed {seq}->{seq2}"
                if cs2 != keep:
                    if not any(_waiting(r, cum) for r in runs):
                        return (f"stream {sid} is not listed and waits for no TSN <= {cum}, yet its reassembly queue changed "
                                f"({len(cs)} -> {len(cs2)} fragments)")
                    return f"stream {sid}: prune_chunks kept/removed the wrong fragments"
            else:
                if _gt16(seq, seq2) and len(cs) < 30000:
                    return f"stream {sid}: expected ssn moved backwards {seq}->{seq2}"
                # what was popped must come from the kept fragments
                if any(c not in keep for c in cs2):
                    return f"stream {sid}: a fragment of a skipped message survived or was invented"
        # integrity of what was delivered: each message is one B…E run of consecutive TSNs of its stream
        pool = {sid: [c for r in _runs(cs) if not _waiting(r, cum) for c in r] for sid, (seq, cs) in before.items()}
        for sid, ppid, data in msgs:
            ok = False
            cs = pool.get(sid, [])
            for a in range(len(cs)):
                if not cs[a][4] & FIRST:
                    continue
                b = a
                while (not cs[b][4] & LAST and b + 1 < len(cs) and cs[b + 1][0] == (cs[b][0] + 1) % M32):
                    b += 1
                if cs[b][4] & LAST and "".join(c[5] for c in cs[a:b + 1]) == data.hex() and cs[b][3] == ppid:
                    ok = True
                    break
            if not ok:
                return f"stream {sid}: delivered {len(data)} bytes that are not one complete B..E run of its reassembly queue"
        total_before = sum(len(c[5]) // 2 for _, (_, cs) in before.items() for c in cs)
        total_after = sum(len(c[5]) // 2 for _, (_, cs) in after.items() for c in cs)
        if delta != total_before - total_after:
            return f"a_rwnd grew by {delta} but {total_before - total_after} bytes left the reassembly queues"
        if delta != removed + sum(len(d) for _, _, d in msgs):
            return "bytes given back != bytes pruned + bytes delivered"
        # recovery: no ordered stream is headed by an orphan of a skipped message
        for sid, (seq2, cs2) in after.items():
            if cs2 and not cs2[0][4] & FIRST and _gte32(cum, (cs2[0][0] - 1) % M32):
                return f"stream {sid}: the reassembly queue is headed by a fragment whose predecessor (TSN <= {cum}) was skipped"
        return None

    def label(self, case, impl_out):
        p = impl_out.split(" ")
        if len(p) < 7:
            return impl_out[:24]
        if _gte32(case["last"], case["cum"]):
            return "duplicate"
        return f"freed={'y' if p[4] != '0' else 'n'} msgs={'y' if p[6] != '-' else 'n'} listed={min(len(case['streams']), 2)}"

    def nontrivial(self, case, impl_out):
        return not _gte32(case["last"], case["cum"])

    def shrink(self, case):
        for k, (sid, seq, cs) in enumerate(case["ins"]):
            for i in range(len(cs)):
                ins = [list(x) for x in case["ins"]]
                ins[k] = [sid, seq, cs[:i] + cs[i + 1:]]
                yield dict(case, ins=ins)
        for i in range(len(case["streams"])):
            yield dict(case, streams=case["streams"][:i] + case["streams"][i + 1:])
        for key in ("mis", "dups"):
            for i in range(len(case[key])):
                yield dict(case, **{key: case[key][:i] + case[key][i + 1:]})


class RxData(Fwd):
    """`_receive_data_chunk` on arbitrary receiver states vs `rxData` (the DATA half of `rxRun`)."""
    name = "rxdata"
    theorems = ["pr_integrity_arrivals", "pop_sound"]

    def corpus(self):
        return []

    def cases(self, rng, tier):
        out = []
        for case in Fwd.cases(self, rng, tier):
            # the arriving chunk: one that is missing from its stream's queue, a duplicate, or a stale one
            present = {c[0] for _, _, cs in case["ins"] for c in cs}
            msgs, _ = _history(rng, False)
            pool_ = [[c["tsn"], c["sid"], c["ssn"], c["ppid"], c["flags"], c["data"]] for m in msgs for c in m]
            seen = [c for _, _, cs in case["ins"] for c in cs]
            c = list(rng.choice(pool_))
            if seen and rng.random() < 0.7:
                # the successor / predecessor of something already queued: completes or extends a run
                base = rng.choice(seen)
                c = [(base[0] + rng.choice([1, 1, -1, 2])) % M32, base[1], base[2], base[3],
                     rng.choice([0, LAST, base[4] & UNORD | LAST, base[4] & UNORD | FIRST, base[4]]), c[5]]
            if seen and rng.random() < 0.1:
                c = list(rng.choice(seen))
            mis = [x for x in case["mis"] if x != c[0] or rng.random() < 0.5]
            # an arriving chunk that is not a duplicate must not already sit in the queue (the code asserts that)
            if c[0] in present and not (_gte32(case["last"], c[0]) or c[0] in mis):
                mis = mis + [c[0]]
            out.append(dict(last=case["last"], mis=mis, dups=case["dups"], chunk=c, ins=case["ins"]))
        return out

    def model_line(self, case):
        ls = lambda l: ",".join(str(x) for x in l) or "-"
        return f"sctppr data {case['last']} {ls(case['mis'])} {ls(case['dups'])} {_rc_show(case['chunk'])} {_ins_show(case['ins'])}"

    def _run(self, case):
        sim, m, t = _transport()
        t._last_received_tsn = case["last"]
        t._sack_misordered = set(case["mis"])
        t._sack_duplicates = list(case["dups"])
        t._inbound_streams = {}
        for sid, seq, cs in case["ins"]:
            s = m.InboundStream()
            s.sequence_number = seq
            for c in cs:
                s.reassembly.append(self._chunk(m, c))
            t._inbound_streams[sid] = s
        msgs = []

        async def receive(stream_id, pp_id, data):
            msgs.append((stream_id, pp_id, data))
        t._receive = receive
        _drive(t._receive_data_chunk(self._chunk(m, case["chunk"])))
        ins = [[sid, s.sequence_number, [[c.tsn, c.stream_id, c.stream_seq, c.protocol, c.flags, c.user_data.hex()] for c in s.reassembly]]
               for sid, s in t._inbound_streams.items()]
        return t, ins, msgs

    @staticmethod
    def _chunk(m, c):
        d = m.DataChunk()
        d.tsn, d.stream_id, d.stream_seq, d.protocol, d.flags, d.user_data = c[0], c[1], c[2], c[3], c[4], bytes.fromhex(c[5])
        return d

    def impl(self, case):
        try:
            t, ins, msgs = self._run(case)
        except AssertionError:
            return "crash AssertionError"
        ls = lambda l: ",".join(str(x) for x in l) or "-"
        # a set: survivors in the order of the input list, a newly recorded TSN last (as the model appends it)
        mis = [x for x in case["mis"] + [case["chunk"][0]] if x in t._sack_misordered]
        mis = [x for i, x in enumerate(mis) if x not in mis[:i]]
        mm = ",".join(f"{a}.{b}.{c.hex() or '-'}" for a, b, c in msgs) or "-"
        return f"ok {t._last_received_tsn} {ls(mis)} {ls(t._sack_duplicates)} {_ins_show(ins)} {mm}"

    def oracle(self, case, impl_out):
        """Integrity: whatever is delivered is one complete B..E run of consecutive TSNs of the stream's queue
        (including the arriving chunk); other streams are untouched."""
        if not impl_out.startswith("ok "):
            return None if impl_out == "crash AssertionError" and any(
                c[0] == case["chunk"][0] for _, _, cs in case["ins"] for c in cs) else impl_out[:200]
        t, ins, msgs = self._run(case)
        c = case["chunk"]
        before = {sid: (seq, cs) for sid, seq, cs in case["ins"]}
        after = {sid: (seq, cs) for sid, seq, cs in ins}
        for sid, (seq, cs) in before.items():
            if sid != c[1] and after.get(sid) != (seq, cs):
                return f"a DATA chunk for stream {c[1]} changed stream {sid}"
        avail = sorted(before.get(c[1], (0, []))[1] + [c], key=lambda x: (x[0] - case["last"]) % M32)
        for sid, ppid, data in msgs:
            if sid != c[1]:
                return f"a DATA chunk for stream {c[1]} delivered a message on stream {sid}"
            ok = False
            for a in range(len(avail)):
                if not avail[a][4] & FIRST:
                    continue
                b = a
                while not avail[b][4] & LAST and b + 1 < len(avail) and avail[b + 1][0] == (avail[b][0] + 1) % M32:
                    b += 1
                if avail[b][4] & LAST and "".join(x[5] for x in avail[a:b + 1]) == data.hex():
                    ok = True
                    break
            if not ok:
                return f"stream {sid}: delivered {len(data)} bytes that are not one complete B..E run of consecutive TSNs"
        return None

    def label(self, case, impl_out):
        p = impl_out.split(" ")
        if len(p) < 6:
            return impl_out[:24]
        dup = _gte32(case["last"], case["chunk"][0]) or case["chunk"][0] in case["mis"]
        return f"dup={int(dup)} msgs={'y' if p[5] != '-' else 'n'}"

    def nontrivial(self, case, impl_out):
        return True

    def shrink(self, case):
        for k, (sid, seq, cs) in enumerate(case["ins"]):
            for i in range(len(cs)):
                ins = [list(x) for x in case["ins"]]
                ins[k] = [sid, seq, cs[:i] + cs[i + 1:]]
                yield dict(case, ins=ins)


def components(tier):
    return [World(), Abandon(), AdvAck(), Fwd(), RxData()]


def classify_finding(finding, comp_name, case, what):
    return False
