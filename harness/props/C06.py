"""C06 — partially reliable channels drop only whole messages and never disturb others."""
from harness import sctp_check as S

LEAN_TARGETS = ["Aiortc.Props.C06"]
DRIVERS = ["Sctp"]
RULE = ("recorded fault schedules over two REAL endpoints with reliable, retransmit-limited and lifetime-limited channels "
        "(ordered/unordered, messages up to 20000 bytes so that only part of a message is in flight when abandoned), "
        "healed and probed; replayed through the Lean automaton; non-trivial = a message was delivered")


class World(S.WorldComponent):
    name = "world"
    prop = "C06"
    theorems = ["abandon_whole_message", "prune_keeps_complete", "reliable_unaffected"]
    mix = [("mixed-pr", False, 4), ("mixed-pr", True, 1)]
    quick = (32, 300)
    thorough = (300, 600)
    oracles = [S.oracle_no_crash, S.oracle_c06, S.oracle_c01, S.oracle_c02, S.oracle_recovers]


def components(tier):
    return [World()]


def classify_finding(finding, comp_name, case, what):
    return False
