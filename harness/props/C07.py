"""C07 — RTP / RTCP serialisation round trips with exact field semantics (src/aiortc/rtp.py).

Components (each: real code vs compiled Lean model on the same inputs + an implementation-only oracle):
  fields  clamp/pack/unpack_packets_lost, pack/unpack_remb_fci, NACK FCI loops, (un)pack_header_extensions
  rtcp    RtcpPacket.parse on structured compounds built from the repo's classes and on malformed bytes;
          re-serialisation of whatever was parsed
  rtp     RtpPacket.parse/serialize with HeaderExtensionsMap (structured + malformed)
  rtx     wrap_rtx / unwrap_rtx
  ops     (harness/c07ops.py) histories over a pool of LIVE objects: HeaderExtensionsMap configured again between uses,
          RtpPacket / RTCP objects re-used, modified by a hostile owner, re-serialised; vs Model/Rtp/Ops.lean

Hidden state (round 3): every parse in `rtcp` / `rtp` / `fields` is evaluated twice with a hostile owner modifying the first
result in between; more than half of the serialise cases run on RE-USED objects (`prev`: built with other values, serialised,
every field overwritten) and are serialised twice in a row. Helpers: harness/c07state.py.
"""
from __future__ import annotations

import contextlib
import struct
import types

from harness.check import Component
from harness import c07state as st
from harness.c07state import build_ri, build_rtcp, build_rtp  # noqa: F401  (re-exported for the components below)

LEAN_TARGETS = ["Aiortc.Props.C07", "Aiortc.Props.C07Ops"]
AUDIT_PROPS = ["C07", "C07Ops"]
DRIVERS = ["Rtp", "RtpOps"]
MANIFEST = {
    "technique": "Lean 4 theorems (induction over the serialiser/parser loops, omega, core List lemmas) about an executable model of "
                 "rtp.py + function-level differential run of the compiled model against the real code (structured and malformed streams)",
    "text": "Round trips parse(serialize(x)) = x are Lean theorems for ALL well-formed RTP packets (any CSRC list, padding, any WF id map, "
            "one-/two-byte extension form) and ALL compound RTCP packets (SR/RR/SDES/BYE/RTPFB/PSFB); NACK set equality for every list of "
            "16-bit numbers; 24-bit saturation of cumulative loss; REMB never rounds up and loses < 2^-17 relatively; RTX wrap/unwrap "
            "inverse. The model is tied to the code by running both on generated packets and on mutated byte strings and diffing canonical "
            "results (including which exception escapes); the oracle evaluates the round-trip property on the implementation alone. "
            "Objects are treated as STATE: histories (configure / use / configure again on one HeaderExtensionsMap, re-used and hostile-"
            "modified packet objects, interleaved maps) run on live objects and through the pure history semantics Model/Rtp/Ops.lean; "
            "Props/C07Ops.lean proves that after ANY history serialising observes the current values and id table only, parsing the "
            "bytes and the table only, and the round trip holds for re-used objects and re-configured maps.",
    "note": "Needs fixes/C07-hdrext-length.patch, C07-toffset-width.patch, C07-nack-wrap.patch, C07-remb-count.patch applied to the repo "
            "(the model is of the fixed behaviour; on the unpatched tree the check reports a VIOLATION with a concrete input).",
    "design_ref": "DESIGN.md §2 C07",
}
ASSUMPTIONS = [
    "well-formedness (RtpPacket.WF / RtcpPacket.WF / ExtIds.WF): every field within its wire range, ids 1..255 pairwise distinct, "
    "<= 15 CSRC, <= 31 report blocks / sources / chunks, SDES item type != 0 and length < 256, PSFB FCI length a multiple of 4, "
    "extension values shorter than 256 bytes, audio level < 128, abs-send-time < 2^24, toffset in the signed 24-bit range",
    "rtp_roundtrip returns the packet with extensions restricted to those that have an id in the map (others are not sent)",
    "rtcp_roundtrip gives list equality of NACK `lost` for strictly ascending lists (what sorted(set) in the receiver produces); "
    "for arbitrary lists of 16-bit numbers nack_same_set gives set equality",
    "rtx_invertible: padding_size of the recovered packet is 0 (wrap_rtx does not carry padding)",
    "remb_precision: bitrate < 2^81 (exponent fits 6 bits), as in DESIGN.md",
]
TRUSTED_EXTRA = [
    "str <-> UTF-8/ASCII bytes: `mid`, `rid`, `rrid` are represented in the model by their encodings; str.encode/bytes.decode are modelled as "
    "identity + validity check (validUtf8/validAscii are differential-tested against bytes.decode)",
    "HeaderExtensionsMap.configure is modelled on the id record (Model/Rtp/Ops.lean `configure`: known URI overwrites that id, last entry wins, "
    "unknown URIs ignored, nothing removed); the URI strings themselves are matched by the harness (7 known URIs + one unknown)",
    "ops: the field values a hostile owner leaves behind are computed by the harness (c07state.hostile_spec_*) and handed to the model as a `put`",
    "parsers that walk with an absolute `pos` are modelled on the remaining suffix data[pos:]",
    "serialisers are modelled on their well-formedness domain only (struct.error / AssertionError outside of it is not modelled, "
    "except pack_packets_lost and pack_remb_fci)",
    "RtpPacket.version is the constant 2",
]
RULE = ("structured stream: packets/compounds built with the repo's classes from boundary-biased field values (0, 1, max, wrap points), all subsets of "
        "header extensions x id maps over 1-14 and 15-255 x value lengths 0/1/16/17/255 that flip the one-/two-byte form, CSRC 0..15, padding 0/1/255, "
        "every RTCP type with 0..31 items, compound mixes; malformed stream: truncation at every offset, length/count fields +-1/0/max, bit flips, "
        "appended garbage, padding bit, wrong-length and undecodable extension values; state: every parse twice with a hostile owner in between, "
        ">50% of built cases on re-used objects (prev values of the same classes, fields overwritten in place / by assignment), serialised twice; "
        "ops: histories of 8-40 steps (configure / use / configure again adding, re-numbering, swapping ids, unknown URIs, repeated entries, "
        "colliding ids; value sweeps on one live object; random mixes over 2 maps + the default-argument map, 4 objects, 4 byte registers); "
        "distinct = distinct canonical case (sha1 of JSON)")

U16 = [0, 1, 2, 15, 16, 17, 255, 256, 32767, 32768, 65519, 65520, 65534, 65535]
U32 = [0, 1, 255, 256, 65535, 65536, 2**24 - 1, 2**24, 2**31 - 1, 2**31, 2**32 - 2, 2**32 - 1]
EXT_FIELDS = ["abs_send_time", "audio_level", "mid", "repaired_rtp_stream_id", "rtp_stream_id",
              "transmission_offset", "transport_sequence_number"]
URIS = {
    "mid": "urn:ietf:params:rtp-hdrext:sdes:mid",
    "repaired_rtp_stream_id": "urn:ietf:params:rtp-hdrext:sdes:repaired-rtp-stream-id",
    "rtp_stream_id": "urn:ietf:params:rtp-hdrext:sdes:rtp-stream-id",
    "abs_send_time": "http://www.webrtc.org/experiments/rtp-hdrext/abs-send-time",
    "transmission_offset": "urn:ietf:params:rtp-hdrext:toffset",
    "audio_level": "urn:ietf:params:rtp-hdrext:ssrc-audio-level",
    "transport_sequence_number": "http://www.ietf.org/id/draft-holmer-rmcat-transport-wide-cc-extensions-01",
}


def hx(b: bytes) -> str:
    return b.hex() if b else "-"


def unhx(s: str) -> bytes:
    return b"" if s == "-" else bytes.fromhex(s)


def nats(l) -> str:
    return ",".join(str(x) for x in l) if l else "-"


def tag_exc(e: BaseException) -> str:
    if isinstance(e, ValueError):
        return "ValueError"
    if isinstance(e, struct.error):
        return "crash struct.error"
    return "crash " + type(e).__name__


def R():
    from aiortc import rtp
    return rtp


def pick(rng, pool, hi):
    return rng.choice(pool) if rng.random() < 0.5 else rng.randrange(hi)


# ----------------------------------------------------------------------------------------------
# canonical strings (mirrored by lean/Aiortc/Drv/Rtp.lean)
# ----------------------------------------------------------------------------------------------

def show_ri(r) -> str:
    return "/".join(str(x) for x in (r.ssrc, r.fraction_lost, r.packets_lost, r.highest_sequence, r.jitter, r.lsr, r.dlsr))


def show_ris(l) -> str:
    return "|".join(show_ri(r) for r in l) if l else "-"


def show_rtcp(p) -> str:
    rtp = R()
    if isinstance(p, rtp.RtcpByePacket):
        return f"bye({nats(p.sources)})"
    if isinstance(p, rtp.RtcpPsfbPacket):
        return f"psfb({p.fmt},{p.ssrc},{p.media_ssrc},{hx(p.fci)})"
    if isinstance(p, rtp.RtcpRrPacket):
        return f"rr({p.ssrc};{show_ris(p.reports)})"
    if isinstance(p, rtp.RtcpRtpfbPacket):
        return f"rtpfb({p.fmt},{p.ssrc},{p.media_ssrc},{nats(p.lost)})"
    if isinstance(p, rtp.RtcpSdesPacket):
        cs = [":".join([str(c.ssrc)] + [f"{t}={hx(v)}" for t, v in c.items]) for c in p.chunks]
        return "sdes(" + ("|".join(cs) if cs else "-") + ")"
    if isinstance(p, rtp.RtcpSrPacket):
        i = p.sender_info
        return f"sr({p.ssrc},{i.ntp_timestamp}/{i.rtp_timestamp}/{i.packet_count}/{i.octet_count};{show_ris(p.reports)})"
    return "?"


def show_rtcps(ps) -> str:
    return " ".join(show_rtcp(p) for p in ps) if ps else "-"


def show_ext(e) -> str:
    def o(v, f):
        return "N" if v is None else f(v)
    return ";".join([
        o(e.abs_send_time, str),
        o(e.audio_level, lambda a: ("1" if a[0] else "0") + "/" + str(a[1])),
        o(e.mid, lambda s: hx(s.encode("utf8"))),
        o(e.repaired_rtp_stream_id, lambda s: hx(s.encode("ascii"))),
        o(e.rtp_stream_id, lambda s: hx(s.encode("ascii"))),
        o(e.transmission_offset, str),
        o(e.transport_sequence_number, str),
    ])


def show_rtp(p) -> str:
    return " ".join([str(p.marker), str(p.payload_type), str(p.sequence_number), str(p.timestamp), str(p.ssrc),
                     "csrc=" + nats(p.csrc), "ext=" + show_ext(p.extensions), "payload=" + hx(p.payload),
                     "pad=" + str(p.padding_size)])


def ids_str(ids) -> str:
    return ",".join("N" if i is None else str(i) for i in ids)


# ----------------------------------------------------------------------------------------------
# builders from JSON specs
# ----------------------------------------------------------------------------------------------

def make_map(ids):
    from aiortc.rtcrtpparameters import RTCRtpHeaderExtensionParameters, RTCRtpParameters
    m = R().HeaderExtensionsMap()
    exts = [RTCRtpHeaderExtensionParameters(id=i, uri=URIS[f]) for f, i in zip(EXT_FIELDS, ids) if i is not None]
    m.configure(RTCRtpParameters(headerExtensions=exts))
    return m


@contextlib.contextmanager
def urandom(data: bytes):
    """`rtp.os.urandom(n)` returns the first n bytes of `data` (zeros beyond)."""
    rtp = R()
    real = rtp.os
    rtp.os = types.SimpleNamespace(urandom=lambda n: (data + bytes(n))[:n])
    try:
        yield
    finally:
        rtp.os = real


def ser_rtp(spec, ids) -> bytes:
    with urandom(unhx(spec.get("padbytes", "-"))):
        return build_rtp(spec).serialize(make_map(ids))


def nack_ok(orig, got) -> bool:
    """List equality for strictly ascending lists, set equality otherwise."""
    if all(a < b for a, b in zip(orig, orig[1:])):
        return list(orig) == list(got)
    return set(orig) == set(got)


# ----------------------------------------------------------------------------------------------
# fields
# ----------------------------------------------------------------------------------------------

class Fields(Component):
    name = "fields"
    theorems = ["lost_saturates", "lost_roundtrip", "remb_precision", "remb_exact_small", "remb_ssrcs", "nack_same_set",
                "nack_parse_16bit", "nack_roundtrip_ascending"]

    def corpus(self):
        return [
            {"op": "nackser", "lost": [65535, 0]},            # DESIGN §4 row 8: raised "negative shift count"
            {"op": "nackparse", "hex": "ffffffff"},           # yielded 65536..65551
            {"op": "unpackremb", "hex": "52454d42ff000000"},  # row 6: count beyond data -> struct.error
            {"op": "nackser", "lost": [5, 5]},
            {"op": "nackser", "lost": [10, 12, 11]},
            {"op": "packremb", "bitrate": 2**81 - 1, "ssrcs": [1]},
            {"op": "packremb", "bitrate": 2**81, "ssrcs": []},
        ]

    def cases(self, rng, tier):
        n = 1500 if tier == "quick" else 60000
        out = []
        for v in [-(2**31) - 1, -(2**31), -(2**23) - 1, -(2**23), -(2**23) + 1, -1, 0, 1, 2**23 - 2, 2**23 - 1, 2**23,
                  2**24 - 1, 2**24, 2**31 - 1, 2**31]:
            out.append({"op": "lost", "n": v})
        for k in range(0, 83):
            for d in (-1, 0, 1):
                if (1 << k) + d >= 0:
                    out.append({"op": "packremb", "bitrate": (1 << k) + d, "ssrcs": [rng.choice(U32)]})
        for i in range(4):
            out.append({"op": "unpacklost", "hex": hx(bytes(rng.randrange(256) for _ in range(i)))})
        for _ in range(n):
            m = rng.randrange(8)
            if m == 0:
                out.append({"op": "lost", "n": rng.choice([rng.randrange(-(2**25), 2**25), rng.randrange(-(2**32), 2**32)])})
            elif m == 1:
                out.append({"op": "unpacklost", "hex": hx(bytes(rng.choice([0, 0x7F, 0x80, 0xFF, rng.randrange(256)]) for _ in range(3)))})
            elif m == 2:
                k = rng.randrange(0, 82)
                b = rng.randrange(1 << k, 1 << (k + 1)) if rng.random() < 0.8 else (1 << k) * rng.choice([1, 3, 0x3FFFF, 0x40000, 0x7FFFF])
                out.append({"op": "packremb", "bitrate": b,
                            "ssrcs": [pick(rng, U32, 2**32) for _ in range(rng.choice([0, 1, 2, 3, 255, rng.randrange(256)]))]})
            elif m == 3:
                rtp = R()
                k = rng.randrange(0, 70)
                good = b"REMB" + bytes([rng.randrange(4), rng.randrange(256), rng.randrange(256), rng.randrange(256)])
                good = good[:4] + bytes([good[4]]) + good[5:] + bytes(rng.randrange(256) for _ in range(4 * good[4]))
                mode = rng.randrange(5)
                if mode == 0:
                    d = good
                elif mode == 1:
                    d = good[:rng.randrange(len(good) + 1)]
                elif mode == 2:
                    d = good[:4] + bytes([rng.choice([0, 1, 2, 255, good[4] + 1])]) + good[5:]
                elif mode == 3:
                    d = good + bytes(rng.randrange(256) for _ in range(rng.randrange(6)))
                else:
                    i = rng.randrange(len(good))
                    d = good[:i] + bytes([good[i] ^ (1 << rng.randrange(8))]) + good[i + 1:]
                out.append({"op": "unpackremb", "hex": hx(d)})
            elif m == 4:
                # what the receiver produces: sorted set, often around the wrap
                base = rng.choice([0, 1, 65500, 65520, 65535, rng.randrange(65536)])
                s = sorted({(base + rng.randrange(0, rng.choice([3, 17, 18, 40, 300]))) % 65536
                            for _ in range(rng.choice([1, 2, 3, 8, 20]))})
                out.append({"op": "nackser", "lost": s})
            elif m == 5:
                # arbitrary lists: duplicates, descending, serial order across the wrap
                base = rng.choice([0, 65530, 65535, rng.randrange(65536)])
                l = [(base + rng.randrange(-20, 40)) % 65536 for _ in range(rng.choice([0, 1, 2, 3, 6, 12]))]
                if rng.random() < 0.3:
                    l = sorted(l, key=lambda x: (x - base + 100) % 65536)
                out.append({"op": "nackser", "lost": l})
            elif m == 6:
                k = rng.choice([0, 1, 2, 3, 5])
                d = b"".join(struct.pack("!HH", pick(rng, U16, 65536), rng.choice([0, 1, 0x8000, 0xFFFF, rng.randrange(65536)]))
                             for _ in range(k))
                out.append({"op": "nackparse", "hex": hx(d)})
            else:
                out.append(self._hdr_case(rng))
        return out

    def _hdr_case(self, rng):
        k = rng.choice([0, 1, 2, 3, 5])
        exts = []
        for _ in range(k):
            i = rng.choice([1, 2, 14, 15, 16, 255, rng.randrange(1, 256)])
            ln = rng.choice([0, 1, 2, 3, 15, 16, 17, 255, rng.randrange(0, 40)])
            exts.append([i, hx(bytes(rng.randrange(256) for _ in range(ln)))])
        if rng.random() < 0.5:
            return {"op": "hdrpack", "exts": exts}
        # malformed container
        rtp = R()
        try:
            prof, val = rtp.pack_header_extensions([(i, unhx(v)) for i, v in exts])
        except Exception:
            prof, val = 0xBEDE, b""
        mode = rng.randrange(4)
        if mode == 0 and val:
            val = val[:rng.randrange(len(val))]
        elif mode == 1 and val:
            i = rng.randrange(len(val))
            val = val[:i] + bytes([rng.choice([0, 0xFF, val[i] ^ (1 << rng.randrange(8))])]) + val[i + 1:]
        elif mode == 2:
            val = bytes(rng.choice([0, 0, 0x10, 0x1F, 0xF0, rng.randrange(256)]) for _ in range(rng.randrange(0, 12)))
        prof = rng.choice([prof, 0xBEDE, 0x1000, 0x1001, 0])
        return {"op": "hdrunpack", "profile": prof, "hex": hx(val)}

    def model_line(self, case):
        op = case["op"]
        if op == "lost":
            n = case["n"]
            return f"rtp multi clamp:{n};packlost:{n}"
        if op == "unpacklost":
            return "rtp unpacklost " + case["hex"]
        if op == "packremb":
            return f"rtp packremb {case['bitrate']} {nats(case['ssrcs'])}"
        if op == "unpackremb":
            return "rtp unpackremb " + case["hex"]
        if op == "nackser":
            return "rtp nackser " + nats(case["lost"])
        if op == "nackparse":
            return "rtp nackparse " + case["hex"]
        if op == "hdrunpack":
            return f"rtp hdrunpack {case['profile']} {case['hex']}"
        if op == "hdrpack":
            rtp = R()
            try:
                prof, val = rtp.pack_header_extensions([(i, unhx(v)) for i, v in case["exts"]])
            except Exception:
                return None
            return f"rtp hdrunpack {prof} {hx(val)}"
        return None

    def _run(self, f, show, k=1):
        """Evaluate `f` twice; the owner of the first result modifies it in place in between (lists that a
        parser returned). A second evaluation that differs is reported as `=> AGAIN …`."""
        try:
            r = f()
            s1 = show(r)
        except Exception as e:  # noqa
            return tag_exc(e)
        try:
            st.hostile_value(r, k)
        except Exception:  # noqa  (an immutable result cannot be modified: nothing to be hostile about)
            pass
        try:
            s2 = show(f())
        except Exception as e:  # noqa
            s2 = tag_exc(e)
        return "ok " + s1 if s2 == s1 else "ok " + s1 + " => AGAIN " + s2

    def impl(self, case):
        rtp = R()
        op = case["op"]
        if op == "lost":
            n = case["n"]
            return str(rtp.clamp_packets_lost(n)) + " ;; " + self._run(lambda: rtp.pack_packets_lost(n), hx)
        if op == "unpacklost":
            return self._run(lambda: rtp.unpack_packets_lost(unhx(case["hex"])), str)
        if op == "packremb":
            return self._run(lambda: rtp.pack_remb_fci(case["bitrate"], case["ssrcs"]), hx)
        if op == "unpackremb":
            return self._run(lambda: rtp.unpack_remb_fci(unhx(case["hex"])), lambda r: f"{r[0]} {nats(r[1])}", len(case["hex"]))
        if op == "nackser":
            return self._run(lambda: bytes(rtp.RtcpRtpfbPacket(fmt=1, ssrc=0, media_ssrc=0, lost=case["lost"]))[12:], hx)
        if op == "nackparse":
            return self._run(lambda: rtp.RtcpRtpfbPacket.parse(bytes(8) + unhx(case["hex"]), 1).lost, nats, len(case["hex"]))
        if op == "hdrunpack":
            return self._run(lambda: rtp.unpack_header_extensions(case["profile"], unhx(case["hex"])),
                             lambda l: ",".join(f"{i}={hx(v)}" for i, v in l) if l else "-", len(case["hex"]))
        if op == "hdrpack":
            def f():
                prof, val = rtp.pack_header_extensions([(i, unhx(v)) for i, v in case["exts"]])
                return rtp.unpack_header_extensions(prof, val)
            return self._run(f, lambda l: ",".join(f"{i}={hx(v)}" for i, v in l) if l else "-")
        raise KeyError(op)

    def oracle(self, case, impl_out):
        rtp = R()
        op = case["op"]
        if " => AGAIN " in impl_out:
            a, b = impl_out.split(" => AGAIN ", 1)
            return (f"{op}: the same input evaluated again, after the owner of the first result modified it, gives "
                    f"[{b[:200]}] instead of [{a[3:203]}]")
        if op == "lost":
            n = case["n"]
            c = rtp.clamp_packets_lost(n)
            if c != max(-(2**23), min(n, 2**23 - 1)):
                return f"clamp_packets_lost({n}) = {c}: does not saturate at the 24-bit signed range"
            back = rtp.unpack_packets_lost(rtp.pack_packets_lost(c))
            if back != c:
                return f"cumulative loss {c} (clamped from {n}) comes back as {back}"
            return None
        if op in ("unpacklost",):
            return None
        if op == "packremb":
            b, ss = case["bitrate"], case["ssrcs"]
            if b >= 2**81:
                return None
            try:
                back, ss2 = rtp.unpack_remb_fci(rtp.pack_remb_fci(b, ss))
            except Exception as e:  # noqa
                return f"REMB({b}, {len(ss)} ssrcs) does not round-trip: {tag_exc(e)}"
            if ss2 != ss:
                return "REMB ssrc list changed"
            if back > b:
                return f"REMB bitrate {b} rounds UP to {back}"
            if (b - back) << 17 >= max(b, 1) and b != back:
                return f"REMB bitrate {b} decoded as {back}: relative error >= 2^-17"
            if b < 2**18 and back != b:
                return f"REMB bitrate {b} < 2^18 not exact: {back}"
            return None
        if op == "unpackremb":
            if impl_out.startswith("crash"):
                return f"unpack_remb_fci raises {impl_out[6:]} (only ValueError is caught by the RTCP handler)"
            return None
        if op == "nackser":
            l = case["lost"]
            try:
                data = bytes(rtp.RtcpRtpfbPacket(fmt=1, ssrc=1, media_ssrc=2, lost=l))
                back = rtp.RtcpPacket.parse(data)[0].lost
            except Exception as e:  # noqa
                return f"NACK {l} cannot be serialised/parsed: {tag_exc(e)} {e}"
            if not nack_ok(l, back):
                return f"NACK {l} parses back as {back}"
            return None
        if op == "nackparse":
            if impl_out.startswith("ok"):
                vals = [int(x) for x in impl_out[3:].split(",")] if impl_out[3:] != "-" else []
                bad = [v for v in vals if not 0 <= v < 65536]
                if bad:
                    return f"NACK parse yields {bad[0]}, not a 16-bit sequence number"
            return None
        if op == "hdrpack":
            want = ",".join(f"{i}={v}" for i, v in case["exts"]) if case["exts"] else "-"
            if impl_out != "ok " + want:
                return f"header extensions {case['exts']} unpack as {impl_out}"
            prof, val = rtp.pack_header_extensions([(i, unhx(v)) for i, v in case["exts"]])
            if case["exts"]:
                one = all(i <= 14 and 1 <= len(unhx(v)) <= 16 for i, v in case["exts"])
                if prof != (0xBEDE if one else 0x1000):
                    return f"wrong extension form {prof:#x} for {case['exts']}"
                if len(val) % 4:
                    return "extension block not 32-bit aligned"
            return None
        if op == "hdrunpack":
            if impl_out.startswith("crash"):
                return f"unpack_header_extensions raises {impl_out[6:]}"
            return None
        return None

    def label(self, case, impl_out):
        op = case["op"]
        kind = impl_out.split(" ", 1)[0] if op != "lost" else ("sat" if not -(2**23) <= case["n"] < 2**23 else "in")
        if op == "packremb":
            kind += "-e" + ("0" if case["bitrate"] < 2**18 else "big" if case["bitrate"] >= 2**81 else "n")
        if op == "nackser":
            l = case["lost"]
            kind += "-asc" if all(a < b for a, b in zip(l, l[1:])) else "-any"
            if l and max(l) - min(l) > 60000:
                kind += "-wrap"
        if op == "hdrunpack":
            kind += {0xBEDE: "-one", 0x1000: "-two"}.get(case["profile"], "-other")
        if impl_out.startswith("crash"):
            kind = impl_out
        return f"{op}:{kind}"

    def shrink(self, case):
        if "lost" in case:
            l = case["lost"]
            for i in range(len(l)):
                yield dict(case, lost=l[:i] + l[i + 1:])
        if "hex" in case:
            d = unhx(case["hex"])
            for i in range(0, len(d), 4):
                yield dict(case, hex=hx(d[:i] + d[i + 4:]))
        if "ssrcs" in case and case["ssrcs"]:
            yield dict(case, ssrcs=case["ssrcs"][1:])
        if "exts" in case:
            l = case["exts"]
            for i in range(len(l)):
                yield dict(case, exts=l[:i] + l[i + 1:])


# ----------------------------------------------------------------------------------------------
# RTCP
# ----------------------------------------------------------------------------------------------

def gen_ri(rng):
    return [pick(rng, U32, 2**32), rng.choice([0, 1, 127, 128, 255, rng.randrange(256)]),
            rng.choice([-(2**23), -(2**23) + 1, -1, 0, 1, 2**23 - 2, 2**23 - 1, rng.randrange(-(2**23), 2**23)]),
            pick(rng, U32, 2**32), pick(rng, U32, 2**32), pick(rng, U32, 2**32), pick(rng, U32, 2**32)]


def gen_count(rng):
    return rng.choice([0, 1, 2, 3, 30, 31, rng.randrange(32)]) if rng.random() < 0.3 else rng.choice([0, 1, 2])


def gen_rtcp(rng, t=None):
    t = t or rng.choice(["bye", "psfb", "rr", "rtpfb", "sdes", "sr"])
    if t == "bye":
        return {"t": t, "sources": [pick(rng, U32, 2**32) for _ in range(gen_count(rng))]}
    if t == "psfb":
        fmt = rng.choice([1, 2, 3, 4, 15, 0, 31, rng.randrange(32)])
        if fmt == 15 and rng.random() < 0.7:
            b = rng.randrange(1 << rng.randrange(1, 81))
            try:
                fci = R().pack_remb_fci(b, [pick(rng, U32, 2**32) for _ in range(rng.randrange(3))])
            except Exception:
                fci = b"REMB" + bytes(4)
        else:
            fci = bytes(rng.randrange(256) for _ in range(4 * rng.choice([0, 0, 1, 2, 5])))
        return {"t": t, "fmt": fmt, "ssrc": pick(rng, U32, 2**32), "media": pick(rng, U32, 2**32), "fci": hx(fci)}
    if t == "rr":
        return {"t": t, "ssrc": pick(rng, U32, 2**32), "reports": [gen_ri(rng) for _ in range(gen_count(rng))]}
    if t == "rtpfb":
        base = rng.choice([0, 65520, 65535, rng.randrange(65536)])
        span = rng.choice([3, 17, 18, 40, 70000])
        l = sorted({(base + rng.randrange(span)) % 65536 for _ in range(rng.choice([0, 1, 2, 3, 8, 30]))})
        if rng.random() < 0.2:
            rng.shuffle(l)
        return {"t": t, "fmt": rng.choice([1, 1, 15, 0, 31]), "ssrc": pick(rng, U32, 2**32), "media": pick(rng, U32, 2**32), "lost": l}
    if t == "sdes":
        chunks = []
        for _ in range(gen_count(rng)):
            items = [[rng.choice([1, 2, 8, 255, rng.randrange(1, 256)]),
                      hx(bytes(rng.randrange(256) for _ in range(rng.choice([0, 1, 2, 3, 4, 5, 255, rng.randrange(40)]))))]
                     for _ in range(rng.choice([0, 1, 1, 2, 4]))]
            chunks.append({"ssrc": pick(rng, U32, 2**32), "items": items})
        return {"t": t, "chunks": chunks}
    return {"t": t, "ssrc": pick(rng, U32, 2**32),
            "info": [rng.choice([0, 1, 2**32 - 1, 2**32, 2**63, 2**64 - 1, rng.randrange(2**64)]), pick(rng, U32, 2**32),
                     pick(rng, U32, 2**32), pick(rng, U32, 2**32)],
            "reports": [gen_ri(rng) for _ in range(gen_count(rng))]}


def pad_rtcp(pkt: bytes, n_words: int, last: int) -> bytes:
    """Set the P bit of a single RTCP packet and append padding whose final byte is `last`."""
    ln = struct.unpack("!H", pkt[2:4])[0] + n_words
    return bytes([pkt[0] | 0x20, pkt[1]]) + struct.pack("!H", ln & 0xFFFF) + pkt[4:] + bytes(4 * n_words - 1) + bytes([min(max(last, 0), 255)])


def mutate(rng, d: bytes, fields=()):
    mode = rng.randrange(7)
    if mode == 0 and d:
        return d[:rng.randrange(len(d))]
    if mode == 1 and d:
        i = rng.randrange(len(d))
        return d[:i] + bytes([d[i] ^ (1 << rng.randrange(8))]) + d[i + 1:]
    if mode == 2:
        return d + bytes(rng.randrange(256) for _ in range(rng.randrange(1, 9)))
    if mode == 3 and d:
        i = rng.choice(fields) if fields else rng.randrange(len(d))
        i = min(i, len(d) - 1)
        return d[:i] + bytes([rng.choice([0, 1, 0xFF, (d[i] + 1) & 0xFF, (d[i] - 1) & 0xFF])]) + d[i + 1:]
    if mode == 4 and d:
        i = rng.randrange(len(d))
        return d[:i] + d[i + 1:]
    if mode == 5 and d:
        i = rng.randrange(min(len(d), 16))
        return d[:i] + bytes([rng.randrange(256)]) + d[i + 1:]
    return d


class Rtcp(Component):
    name = "rtcp"
    theorems = ["rtcp_roundtrip", "rtcp_single_roundtrip", "nack_same_set", "nack_parse_16bit"]

    def corpus(self):
        return [
            {"packets": [{"t": "rtpfb", "fmt": 1, "ssrc": 1, "media": 2, "lost": [65535, 0]}]},
            {"hex": "81cd00030000000100000002ffffffff"},   # NACK (pid 0xffff, blp 0xffff): yielded 65536..65551
            {"hex": "8fce0004000000010000000252454d42ff000000"},  # REMB with count 255 and no ssrcs (PSFB parses, fci for `fields`)
            {"packets": []},
        ]

    def cases(self, rng, tier):
        n = 2500 if tier == "quick" else 90000
        out = []
        # every type with every count 0..31 once
        for t in ("bye", "rr", "sr", "sdes"):
            for c in range(32):
                s = None
                while s is None or s["t"] != t:
                    s = gen_rtcp(rng)
                key = {"bye": "sources", "rr": "reports", "sr": "reports", "sdes": "chunks"}[t]
                proto = (s[key] or [gen_ri(rng) if t in ("rr", "sr") else pick(rng, U32, 2**32) if t == "bye" else {"ssrc": 1, "items": [[1, "61"]]}])
                s[key] = [proto[i % len(proto)] for i in range(c)]
                out.append({"packets": [s]})
        for _ in range(n):
            k = rng.choice([1, 1, 1, 2, 3, 5])
            specs = [gen_rtcp(rng) for _ in range(k)]
            if rng.random() < 0.55:
                # RE-USED objects: built with other values of the same classes, serialised, every field overwritten
                out.append({"packets": specs, "prev": [gen_rtcp(rng, s["t"]) for s in specs], "ip": rng.random() < 0.5})
            else:
                out.append({"packets": specs})
            if rng.random() < 0.6:
                try:
                    data = b"".join(bytes(build_rtcp(s)) for s in specs)
                except Exception:  # a broken serialiser must surface as a verdict, not as a harness crash
                    continue
                mode = rng.randrange(4)
                if mode == 0:
                    # padding on the last packet: valid and invalid counts
                    first = b"".join(bytes(build_rtcp(s)) for s in specs[:-1])
                    last = bytes(build_rtcp(specs[-1]))
                    w = rng.choice([1, 1, 2, 64])
                    data = first + pad_rtcp(last, w, rng.choice([4 * w, 4 * w, 0, 1, 4 * w + 1, len(last) - 4 + 4 * w, len(last) - 3 + 4 * w, 255]))
                elif mode == 1:
                    data = data[:rng.choice([0, 1, 2, 3, 4, 5, 7, 8, 11, 12, rng.randrange(len(data) + 1)])]
                else:
                    data = mutate(rng, data, fields=(0, 1, 2, 3))
                out.append({"hex": hx(data)})
        for _ in range(n // 8):
            # hand-made SDES: chunks whose item list ends without the (0, 0) terminator, with 0..3 stray bytes
            cnt = rng.choice([1, 1, 2, 3])
            body = b""
            for ci in range(cnt):
                body += struct.pack("!L", pick(rng, U32, 2**32))
                for _i in range(rng.choice([0, 1, 2])):
                    v = bytes(rng.randrange(256) for _ in range(rng.choice([0, 0, 1, 3])))
                    body += bytes([rng.choice([1, 2, 255]), len(v)]) + v
                if rng.random() < 0.5:
                    body += b"\x00\x00"
            body += bytes(rng.choice([0, 1, 5]) for _ in range(rng.choice([0, 0, 1, 2, 3])))
            body = body[:len(body) - len(body) % 4] if rng.random() < 0.5 else body + bytes(-len(body) % 4)
            out.append({"hex": hx(bytes([0x80 | rng.choice([cnt, cnt, cnt + 1]), 202]) + struct.pack("!H", len(body) // 4) + body)})
        for _ in range(n // 10):
            ln = rng.choice([0, 1, 2, 3, 6])
            out.append({"hex": hx(bytes([0x80 | rng.randrange(64), rng.choice([200, 201, 202, 203, 204, 205, 206, 207, 0]), 0, ln])
                                  + bytes(rng.choice([0, 1, 2, 0xFF, rng.randrange(256)]) for _ in range(4 * ln)))})
        return out

    def _objs(self, case):
        """The live objects of a built case: fresh ones, or (`prev`) objects that were built with other values
        and serialised before every field was overwritten with the values of the case."""
        specs = case["packets"]
        if "prev" not in case:
            return [build_rtcp(s) for s in specs]
        objs = [build_rtcp(s) for s in case["prev"]]
        for o in objs:
            try:
                bytes(o)
            except Exception:  # noqa
                pass
        return st.assign_compound(objs, specs, bool(case.get("ip")))

    def _data(self, case):
        if "hex" in case:
            return unhx(case["hex"])
        return b"".join(bytes(p) for p in self._objs(case))

    def model_line(self, case):
        try:
            return "rtp rtcp " + hx(self._data(case))
        except Exception:
            return None

    @staticmethod
    def _observe(ps):
        try:
            re = hx(b"".join(bytes(p) for p in ps))
        except AssertionError:
            re = "not-wf"
        return "ok " + show_rtcps(ps) + " => " + re

    def impl(self, case):
        rtp = R()
        ser2 = None
        try:
            if "hex" in case:
                data = unhx(case["hex"])
            else:
                objs = self._objs(case)
                data = b"".join(bytes(p) for p in objs)
                again = b"".join(bytes(p) for p in objs)      # serialising twice in a row
                if again != data:
                    ser2 = hx(again)
        except Exception as e:  # noqa
            return "build " + tag_exc(e)
        try:
            ps = rtp.RtcpPacket.parse(data)
        except Exception as e:  # noqa
            return tag_exc(e)
        out = self._observe(ps)
        # a hostile owner modifies everything the parser returned, then the same bytes arrive again
        try:
            st.hostile_compound(ps, len(data) % 11 + 1)
        except Exception:  # noqa  (immutable results cannot be modified)
            pass
        try:
            out2 = self._observe(rtp.RtcpPacket.parse(data))
        except Exception as e:  # noqa
            out2 = tag_exc(e)
        if out2 != out:
            out += " => REPARSE " + out2
        if ser2 is not None:
            out += " => SER2 " + ser2
        return out

    def oracle(self, case, impl_out):
        rtp = R()
        if " => REPARSE " in impl_out:
            a, b = impl_out.split(" => REPARSE ", 1)
            return (f"RtcpPacket.parse of the same bytes, after the owner of the first result modified it, gives "
                    f"[{b[:300]}] instead of [{a[:300]}]")
        if " => SER2 " in impl_out:
            return "serialising the same RTCP objects twice in a row gives different bytes: second " + impl_out.split(" => SER2 ", 1)[1][:200]
        if impl_out.startswith("crash") or impl_out.startswith("build"):
            return f"RtcpPacket.parse / bytes() raises {impl_out}"
        if impl_out == "ValueError":
            if "packets" in case:
                return "RtcpPacket.parse rejects a compound packet the library built"
            return None
        data = self._data(case)
        ps = rtp.RtcpPacket.parse(data)
        for p in ps:
            if isinstance(p, rtp.RtcpRtpfbPacket) and any(not 0 <= v < 65536 for v in p.lost):
                return f"NACK parse yields {[v for v in p.lost if not 0 <= v < 65536][0]}, not a 16-bit sequence number"
        if "packets" in case:
            orig = [build_rtcp(s) for s in case["packets"]]
            if len(orig) != len(ps):
                return f"{len(orig)} packets serialised, {len(ps)} parsed"
            for a, b in zip(orig, ps):
                if isinstance(a, rtp.RtcpRtpfbPacket) and isinstance(b, rtp.RtcpRtpfbPacket):
                    if (a.fmt, a.ssrc, a.media_ssrc) != (b.fmt, b.ssrc, b.media_ssrc) or not nack_ok(a.lost, b.lost):
                        return f"RTPFB {show_rtcp(a)} parses back as {show_rtcp(b)}" + self._reuse_note(case)
                elif a != b:
                    return f"{show_rtcp(a)} parses back as {show_rtcp(b)}" + self._reuse_note(case)
            if len(data) % 4:
                return "compound packet length not a multiple of 4"
        else:
            # whatever was accepted re-serialises to something that parses to the same value
            try:
                again = rtp.RtcpPacket.parse(b"".join(bytes(p) for p in ps))
            except AssertionError:
                return None  # PSFB FCI of odd length after padding removal: bytes() asserts; not buildable
            for a, b in zip(ps, again):
                if isinstance(a, rtp.RtcpRtpfbPacket):
                    if set(a.lost) != set(b.lost):
                        return f"accepted NACK {a.lost} re-serialises to {b.lost}"
                elif a != b:
                    return f"accepted {show_rtcp(a)} re-serialises to {show_rtcp(b)}"
        return None

    @staticmethod
    def _reuse_note(case):
        if "prev" not in case:
            return ""
        return (" (the objects were serialised with other field values before: "
                + show_rtcps([build_rtcp(s) for s in case["prev"]])[:200] + ")")

    def label(self, case, impl_out):
        mode = ("reused" if "prev" in case else "built") if "packets" in case else "bytes"
        if not impl_out.startswith("ok"):
            return f"{mode}:{impl_out[:24]}"
        body = impl_out[3:].split(" => ")[0]
        kinds = sorted({p.split("(")[0] for p in body.split(" ")}) if body != "-" else ["empty"]
        k = kinds[0] if len(kinds) == 1 else "mix"
        return f"{mode}:ok-{k}"

    def nontrivial(self, case, impl_out):
        return True

    def shrink(self, case):
        if "packets" in case:
            ps = case["packets"]
            extra = {k: case[k] for k in ("ip",) if k in case}
            prev = case.get("prev")

            def mk(new_ps, new_prev=None):
                c = dict(extra, packets=new_ps)
                if prev is not None:
                    c["prev"] = prev if new_prev is None else new_prev
                return c
            if prev is not None:
                yield {"packets": ps}
            for i in range(len(ps)):
                yield mk(ps[:i] + ps[i + 1:], None if prev is None else prev[:i] + prev[i + 1:])
            for i, s in enumerate(ps):
                for key in ("sources", "reports", "chunks", "lost"):
                    if key in s and s[key]:
                        for j in range(len(s[key])):
                            yield mk(ps[:i] + [dict(s, **{key: s[key][:j] + s[key][j + 1:]})] + ps[i + 1:])
                if s.get("fci", "-") != "-":
                    yield mk(ps[:i] + [dict(s, fci="-")] + ps[i + 1:])
        else:
            d = unhx(case["hex"])
            for i in range(0, len(d), 4):
                yield {"hex": hx(d[:i] + d[i + 4:])}


# ----------------------------------------------------------------------------------------------
# RTP
# ----------------------------------------------------------------------------------------------

ID_POOL = [1, 2, 3, 13, 14, 15, 16, 17, 128, 254, 255]
MID_CHARS = ["a", "0", "z", "é", "ß", "€", "中", "\U0001F600", "߿", "ࠀ", "￿", "\U00010000", "\U0010ffff", "\x00", "\x7f", "\x80"]


def gen_ids(rng):
    k = rng.choice([0, 1, 2, 3, 7, rng.randrange(8)])
    fields = rng.sample(range(7), k)
    style = rng.randrange(4)
    pool = ([i for i in ID_POOL if i <= 14] if style == 0 else [i for i in ID_POOL if i > 14] if style == 1 else ID_POOL)
    ids = [None] * 7
    used = set()
    for f in fields:
        i = rng.choice(pool) if rng.random() < 0.7 else rng.randrange(1, 256)
        while i in used:
            i = rng.randrange(1, 15) if style == 0 else rng.randrange(1, 256)
        used.add(i)
        ids[f] = i
    return ids


def gen_str(rng, ascii_only):
    ln = rng.choice([0, 1, 2, 3, 8, 15, 16, 17, 18, 60, 255])
    if ascii_only:
        return "".join(rng.choice("abcXYZ019-_\x00\x7f") for _ in range(ln))
    s = ""
    while True:
        c = rng.choice(MID_CHARS)
        if len((s + c).encode("utf8")) > ln:
            break
        s += c
    # fill to the exact byte length with ASCII so that lengths 16/17 are hit exactly
    s += "a" * (ln - len(s.encode("utf8")))
    return s


def gen_ext(rng, ids):
    ext = {}
    for f, i in zip(EXT_FIELDS, ids):
        p = 0.75 if i is not None else 0.15
        if rng.random() > p:
            continue
        if f == "abs_send_time":
            ext[f] = rng.choice([0, 1, 2**24 - 1, 2**23, rng.randrange(2**24)])
        elif f == "audio_level":
            ext[f] = [rng.random() < 0.5, rng.choice([0, 1, 126, 127, rng.randrange(128)])]
        elif f == "mid":
            ext[f] = gen_str(rng, False)
        elif f in ("repaired_rtp_stream_id", "rtp_stream_id"):
            ext[f] = gen_str(rng, True)
        elif f == "transmission_offset":
            ext[f] = rng.choice([0, 1, -1, 2**23 - 1, -(2**23), 255, 256, -256, 0x156CE, rng.randrange(-(2**23), 2**23)])
        else:
            ext[f] = pick(rng, U16, 65536)
    return ext


def gen_rtp(rng, ids):
    pad = rng.choice([0, 0, 0, 1, 2, 4, 255, rng.randrange(256)])
    return {"m": rng.randrange(2), "pt": rng.choice([0, 1, 72, 96, 126, 127, rng.randrange(128)]), "seq": pick(rng, U16, 65536),
            "ts": pick(rng, U32, 2**32), "ssrc": pick(rng, U32, 2**32),
            "csrc": [pick(rng, U32, 2**32) for _ in range(rng.choice([0, 0, 0, 1, 2, 15, rng.randrange(16)]))],
            "ext": gen_ext(rng, ids),
            "payload": hx(bytes(rng.randrange(256) for _ in range(rng.choice([0, 1, 2, 3, 4, 5, rng.randrange(60)])))),
            "pad": pad, "padbytes": hx(bytes(rng.randrange(256) for _ in range(max(pad - 1, 0))))}


def raw_ext_packet(rng, ids):
    """A valid fixed header followed by a hand-made extension block: wrong-length / undecodable values
    for the typed extensions, ids 0 and 15 in one-byte form, both profiles."""
    rtp = R()
    exts = []
    for f, i in zip(EXT_FIELDS, ids):
        if i is None or rng.random() < 0.3:
            continue
        right = {"abs_send_time": 3, "audio_level": 1, "transmission_offset": 3, "transport_sequence_number": 2}.get(f)
        if right is not None:
            ln = rng.choice([right, right, 0, 1, 2, 3, 4, right + 1, 16])
            v = bytes(rng.choice([0, 0x7F, 0x80, 0xFF, rng.randrange(256)]) for _ in range(ln))
        elif f == "mid":
            v = rng.choice([b"ok", b"\xc3\xa9", b"\xff", b"\xc0\x80", b"\xed\xa0\x80", b"\xf4\x90\x80\x80", b"\xe2\x82", b"\xe0\x9f\xbf",
                            b"\xf0\x8f\xbf\xbf", b"\xc2", "€\U0001F600".encode(), bytes(rng.randrange(256) for _ in range(rng.randrange(5)))])
        else:
            v = rng.choice([b"rid", b"\x7f", b"\x80", b"a\xffb", b""])
        exts.append((i, v))
    if rng.random() < 0.2:
        exts.append((rng.choice([1, 14, 15, 200]), bytes(rng.randrange(256) for _ in range(rng.randrange(1, 5)))))
    rng.shuffle(exts)
    try:
        prof, val = rtp.pack_header_extensions(exts)
    except Exception:
        prof, val = 0xBEDE, b""
    if rng.random() < 0.15:
        prof = rng.choice([0xBEDE, 0x1000, 0x1001])
    cc = rng.choice([0, 0, 1])
    hdr = bytes([0x90 | cc, rng.randrange(256)]) + bytes(rng.randrange(256) for _ in range(10 + 4 * cc))
    return hdr + struct.pack("!HH", prof, len(val) // 4) + val + bytes(rng.randrange(256) for _ in range(rng.randrange(4)))


class Rtp(Component):
    name = "rtp"
    theorems = ["rtp_roundtrip", "ext_roundtrip", "hdrext_roundtrip"]

    def corpus(self):
        return [
            # DESIGN §4 row 7: toffset written with 2 bytes, read with 3
            {"ids": [None, None, None, None, None, 2, None],
             "packet": {"m": 0, "pt": 96, "seq": 1, "ts": 2, "ssrc": 3, "csrc": [], "ext": {"transmission_offset": 0x156CE},
                        "payload": "00", "pad": 0, "padbytes": "-"}},
            # row 6: wrong-length typed extension values
            {"ids": [1, None, None, None, None, None, None], "hex": "906000010000000200000003bede000111aabb00"},
            {"ids": [None, 1, None, None, None, None, None], "hex": "900000010000000200000003bede000111aabb00"},
            {"ids": [None, None, None, None, None, 1, None], "hex": "900000010000000200000003bede000111aabb00"},
            {"ids": [None, None, None, None, None, None, 1], "hex": "900000010000000200000003bede000112aabbcc"},
            {"ids": [None, None, 1, None, None, None, None], "hex": "900000010000000200000003bede000110ff0000"},
        ]

    def cases(self, rng, tier):
        n = 3000 if tier == "quick" else 100000
        out = []
        # single-field boundaries
        for f, vals in (("seq", U16), ("ts", U32), ("ssrc", U32), ("pt", [0, 1, 127]), ("m", [0, 1]), ("pad", [0, 1, 2, 3, 4, 254, 255])):
            for v in vals:
                s = gen_rtp(rng, [None] * 7)
                s[f] = v
                if f == "pad":
                    s["padbytes"] = hx(bytes(max(v - 1, 0)))
                out.append({"ids": [None] * 7, "packet": s})
        for cc in range(16):
            s = gen_rtp(rng, [None] * 7)
            s["csrc"] = [rng.choice(U32) for _ in range(cc)]
            out.append({"ids": [None] * 7, "packet": s})
        # every single extension x id 1,14,15,255 x length flips for strings
        for fi, f in enumerate(EXT_FIELDS):
            for i in (1, 14, 15, 255):
                ids = [None] * 7
                ids[fi] = i
                lens = [0, 1, 16, 17, 255] if f in ("mid", "repaired_rtp_stream_id", "rtp_stream_id") else [None]
                for ln in lens:
                    s = gen_rtp(rng, ids)
                    e = gen_ext(rng, ids)
                    while f not in e:
                        e = gen_ext(rng, ids)
                    if ln is not None:
                        e[f] = "m" * ln
                    s["ext"] = e
                    out.append({"ids": ids, "packet": s})
        for _ in range(n):
            ids = gen_ids(rng)
            spec = gen_rtp(rng, ids)
            if rng.random() < 0.5:
                # a RE-USED packet object (built with other values, serialised with the same live map, every field overwritten)
                out.append({"ids": ids, "packet": spec, "prev": gen_rtp(rng, ids), "ip": rng.random() < 0.5})
            else:
                out.append({"ids": ids, "packet": spec})
            r = rng.random()
            if r < 0.35:
                try:
                    data = ser_rtp(spec, ids)
                except Exception:
                    continue
                hdr_end = 12 + 4 * len(spec["csrc"])
                mode = rng.randrange(3)
                if mode == 0:
                    data = data[:rng.choice([0, 1, 11, 12, 13, hdr_end, hdr_end + 1, hdr_end + 3, hdr_end + 4, hdr_end + 5,
                                             rng.randrange(len(data) + 1)])]
                elif mode == 1:
                    data = mutate(rng, data, fields=(0, 1, hdr_end, hdr_end + 1, hdr_end + 2, hdr_end + 3, hdr_end + 4, len(data) - 1))
                else:
                    # padding bit with every kind of final byte
                    last = rng.choice([0, 1, 2, len(data) - hdr_end, len(data) - hdr_end + 1, len(data) - 12, 255, data[-1]])
                    data = bytes([data[0] | 0x20]) + data[1:-1] + bytes([min(max(last, 0), 255)])
                ids2 = ids if rng.random() < 0.8 else [rng.choice([None, 0, 1, 1, 2, 15]) for _ in range(7)]
                out.append({"ids": ids2, "hex": hx(data)})
            elif r < 0.6:
                ids2 = [rng.choice([None, 0, 1, 2, 3, 14, 15, 16, 200]) if rng.random() < 0.6 else None for _ in range(7)]
                if rng.random() < 0.7:
                    # distinct non-None ids so that every typed branch is reachable
                    perm = rng.sample([1, 2, 3, 4, 5, 14, 15, 16, 200], 7)
                    ids2 = [perm[j] if rng.random() < 0.7 else None for j in range(7)]
                out.append({"ids": ids2, "hex": hx(raw_ext_packet(rng, ids2))})
        return out

    def _ser(self, case, m):
        """Serialise the packet of a built case with the live map `m`, twice in a row. With `prev` the object is
        RE-USED: built with other values, serialised with `m`, then every field overwritten."""
        spec = case["packet"]
        if "prev" in case:
            p = build_rtp(case["prev"])
            try:
                with urandom(unhx(case["prev"].get("padbytes", "-"))):
                    p.serialize(m)
            except Exception:  # noqa
                pass
            st.assign_rtp(p, spec, bool(case.get("ip")))
        else:
            p = build_rtp(spec)
        with urandom(unhx(spec.get("padbytes", "-"))):
            return p.serialize(m), p.serialize(m)

    def _data(self, case):
        if "hex" in case:
            return unhx(case["hex"])
        return self._ser(case, make_map(case["ids"]))[0]

    def model_line(self, case):
        try:
            return f"rtp rtp {ids_str(case['ids'])} {hx(self._data(case))}"
        except Exception:
            return None

    @staticmethod
    def _observe(data, m):
        """parse with the live map, re-serialise what was parsed with the same map"""
        p = R().RtpPacket.parse(data, m)
        shown = show_rtp(p)
        padbytes = data[len(data) - p.padding_size:len(data) - 1] if p.padding_size else b""
        try:
            with urandom(padbytes):
                re = "ok " + hx(p.serialize(m))
        except Exception as e:  # noqa
            re = tag_exc(e)
        return p, "ok " + shown + " => " + re

    def impl(self, case):
        m = make_map(case["ids"])          # ONE live map for everything that follows
        ser2 = None
        try:
            if "hex" in case:
                data = unhx(case["hex"])
            else:
                data, again = self._ser(case, m)
                if again != data:
                    ser2 = hx(again)
        except Exception as e:  # noqa
            return "build " + tag_exc(e)
        try:
            p, out = self._observe(data, m)
        except Exception as e:  # noqa
            return tag_exc(e)
        # a hostile owner modifies everything the parser returned, then the same bytes arrive again
        try:
            st.hostile_rtp(p, len(data) % 11 + 1)
        except Exception:  # noqa  (immutable results cannot be modified)
            pass
        try:
            out2 = self._observe(data, m)[1]
        except Exception as e:  # noqa
            out2 = tag_exc(e)
        if out2 != out:
            out += " => REPARSE " + out2
        if ser2 is not None:
            out += " => SER2 " + ser2
        return out

    def oracle(self, case, impl_out):
        rtp = R()
        if " => REPARSE " in impl_out:
            a, b = impl_out.split(" => REPARSE ", 1)
            return (f"RtpPacket.parse of the same bytes with the same map, after the owner of the first result modified it, "
                    f"gives [{b[:300]}] instead of [{a[:300]}]")
        if " => SER2 " in impl_out:
            return "serialising the same RtpPacket twice in a row gives different bytes: second " + impl_out.split(" => SER2 ", 1)[1][:200]
        if impl_out.startswith("crash") or impl_out.startswith("build"):
            return f"RtpPacket.parse/serialize raises {impl_out}"
        if impl_out == "ValueError":
            if "packet" in case:
                return "RtpPacket.parse rejects a packet the library built"
            return None
        body, re = impl_out[3:].split(" => ")
        if not re.startswith("ok"):
            return f"a parsed packet cannot be serialised again: {re}"
        if "packet" in case:
            spec, ids = case["packet"], case["ids"]
            want = build_rtp(spec)
            for f, i in zip(EXT_FIELDS, ids):
                if not i:
                    setattr(want.extensions, f, None)
            if show_rtp(want) != body:
                note = ""
                if "prev" in case:
                    note = f" (the object was serialised with other field values before: [{show_rtp(build_rtp(case['prev']))[:200]}])"
                return f"packet [{show_rtp(want)}] parses back as [{body}]" + note
            data = self._data(case)
            if re != "ok " + hx(data):
                return "parse followed by serialize does not reproduce the bytes"
            if want.extensions != rtp.RtpPacket.parse(data, make_map(ids)).extensions:
                return "extension values differ after the round trip"
        else:
            # accepted foreign bytes: serialize(parse(d)) must parse to the same value
            data2 = unhx(re[3:])
            try:
                p2 = rtp.RtpPacket.parse(data2, make_map(case["ids"]))
            except Exception as e:  # noqa
                return f"re-serialised accepted packet does not parse: {tag_exc(e)}"
            # only for legal id maps (1..255, distinct): id 0 is "not configured" on send but matches on receive
            ids = [i for i in case["ids"] if i is not None]
            legal = all(0 < i < 256 for i in ids) and len(set(ids)) == len(ids)
            if show_rtp(p2) != body and legal:
                return f"accepted packet [{body}] re-serialises to [{show_rtp(p2)}]"
        return None

    def label(self, case, impl_out):
        mode = ("reused" if "prev" in case else "built") if "packet" in case else "bytes"
        if not impl_out.startswith("ok"):
            return f"{mode}:{impl_out[:24]}"
        try:
            data = self._data(case)
            cc = data[0] & 15
            form = "noext"
            if data[0] & 0x10:
                prof = struct.unpack_from("!H", data, 12 + 4 * cc)[0]
                form = {0xBEDE: "one", 0x1000: "two"}.get(prof, "other")
            return f"{mode}:ok-{form}-{'pad' if data[0] & 0x20 else 'nopad'}-{'csrc' if cc else 'nocsrc'}"
        except Exception:
            return f"{mode}:ok-unlabelled"

    def shrink(self, case):
        if "packet" in case:
            s = case["packet"]
            if "prev" in case:
                yield {k: v for k, v in case.items() if k not in ("prev", "ip")}
            if s["csrc"]:
                yield dict(case, packet=dict(s, csrc=s["csrc"][1:]))
            if s["payload"] != "-":
                yield dict(case, packet=dict(s, payload="-"))
            if s["pad"]:
                yield dict(case, packet=dict(s, pad=0, padbytes="-"))
            for k in list(s["ext"]):
                e = dict(s["ext"])
                del e[k]
                yield dict(case, packet=dict(s, ext=e))
            for k, v in s["ext"].items():
                if isinstance(v, str) and len(v) > 1:
                    yield dict(case, packet=dict(s, ext=dict(s["ext"], **{k: v[:len(v) // 2]})))
            for j, i in enumerate(case["ids"]):
                if i is not None and EXT_FIELDS[j] not in s["ext"]:
                    yield dict(case, ids=case["ids"][:j] + [None] + case["ids"][j + 1:])
            for f in ("m", "pt", "seq", "ts", "ssrc"):
                if s[f]:
                    yield dict(case, packet=dict(s, **{f: 0}))
        else:
            d = unhx(case["hex"])
            if len(d) > 12:
                yield dict(case, hex=hx(d[:-1]))
            for j, i in enumerate(case["ids"]):
                if i is not None:
                    yield dict(case, ids=case["ids"][:j] + [None] + case["ids"][j + 1:])


# ----------------------------------------------------------------------------------------------
# RTX
# ----------------------------------------------------------------------------------------------

class Rtx(Component):
    name = "rtx"
    theorems = ["rtx_invertible", "rtx_wire_invertible"]

    def cases(self, rng, tier):
        n = 600 if tier == "quick" else 20000
        out = []
        for _ in range(n):
            ids = gen_ids(rng)
            spec = gen_rtp(rng, ids)
            if rng.random() < 0.7:
                spec["pad"], spec["padbytes"] = 0, "-"
            out.append({"ids": ids, "packet": spec, "rpt": rng.choice([0, 97, 127, rng.randrange(128)]), "rseq": pick(rng, U16, 65536),
                        "rssrc": pick(rng, U32, 2**32)})
        for ln in (0, 1, 2, 3):
            s = gen_rtp(rng, [None] * 7)
            s["payload"] = hx(bytes(range(ln)))
            out.append({"ids": [None] * 7, "packet": s, "short": True, "rpt": 96, "rseq": 0, "rssrc": 1})
        return out

    def _wire(self, case):
        rtp = R()
        m = make_map(case["ids"])
        data = ser_rtp(case["packet"], case["ids"])
        p = rtp.RtpPacket.parse(data, m)
        return m, data, p

    def model_line(self, case):
        try:
            rtp = R()
            m, data, p = self._wire(case)
            i = ids_str(case["ids"])
            if case.get("short"):
                return f"rtp rtxunwrap {i} {hx(data)} 96 7"
            w = rtp.wrap_rtx(p, case["rpt"], case["rseq"], case["rssrc"]).serialize(m)
            return f"rtp multi rtxwrap:{i}:{hx(data)}:{case['rpt']}:{case['rseq']}:{case['rssrc']};rtxunwrap:{i}:{hx(w)}:{p.payload_type}:{p.ssrc}"
        except Exception:
            return None

    def impl(self, case):
        rtp = R()
        try:
            m, data, p = self._wire(case)
            if case.get("short"):
                return "ok " + hx(rtp.unwrap_rtx(p, 96, 7).serialize(m))
            w = rtp.wrap_rtx(p, case["rpt"], case["rseq"], case["rssrc"])
            wd = w.serialize(m)
            u = rtp.unwrap_rtx(rtp.RtpPacket.parse(wd, m), p.payload_type, p.ssrc)
            return "ok " + hx(wd) + " ;; ok " + hx(u.serialize(m))
        except Exception as e:  # noqa
            return tag_exc(e)

    def oracle(self, case, impl_out):
        rtp = R()
        if case.get("short"):
            return None  # the receiver checks len(payload) < 2 before unwrap_rtx
        if not impl_out.startswith("ok"):
            return f"wrap_rtx/unwrap_rtx raises {impl_out}"
        m, data, p = self._wire(case)
        w = rtp.wrap_rtx(p, case["rpt"], case["rseq"], case["rssrc"])
        if (w.payload_type, w.sequence_number, w.ssrc, w.timestamp, w.marker) != (case["rpt"], case["rseq"], case["rssrc"], p.timestamp, p.marker):
            return "RTX packet header is not (rtx pt, rtx seq, rtx ssrc, original timestamp, original marker)"
        if w.payload != struct.pack("!H", p.sequence_number) + p.payload:
            return "RTX payload is not OSN + original payload"
        u = rtp.unwrap_rtx(rtp.RtpPacket.parse(w.serialize(m), m), p.payload_type, p.ssrc)
        p.padding_size = 0
        if show_rtp(u) != show_rtp(p):
            return f"unwrap_rtx(wrap_rtx(p)) = [{show_rtp(u)}] differs from p = [{show_rtp(p)}]"
        return None

    def label(self, case, impl_out):
        return "short-" + impl_out[:18] if case.get("short") else ("pad" if case["packet"]["pad"] else "nopad")

    def shrink(self, case):
        s = case["packet"]
        if s["csrc"]:
            yield dict(case, packet=dict(s, csrc=[]))
        if s["ext"]:
            yield dict(case, packet=dict(s, ext={}))
        if s["payload"] != "-":
            yield dict(case, packet=dict(s, payload="-"))


def components(tier):
    from harness.c07ops import Ops
    return [Fields(), Rtcp(), Rtp(), Rtx(), Ops()]


def classify_finding(finding, comp_name, case, what):
    return False
