"""C08 — SCTP packets round-trip exactly; corrupted packets are rejected by the checksum.

Components (each: real code vs compiled Lean model on the same inputs + an implementation-side oracle):
  crc        google_crc32c (the `crc32c` name used by rtcsctptransport) vs Model/Crc32c, vs an independent table CRC
  roundtrip  serialize_packet -> parse_packet -> serialize_packet on chunks built from the repo's classes
  params     encode_params / decode_params
  reconfig   the three RE-CONFIG parameter classes
  parse      parse_packet on malformed packets (valid checksum unless stated): never crashes / hangs, idempotent
  burst      one burst of <= 32 altered bits in an accepted packet must be rejected (straddling the
             checksum field: known finding C08-crc-straddle)
"""
from __future__ import annotations

import signal
import struct

from harness.check import Component
from harness import core

LEAN_TARGETS = ["Aiortc.Props.C08"]
DRIVERS = ["SctpWire"]
MANIFEST = {
    "technique": "Lean 4 theorems over an executable model of the SCTP wire codec and a bitwise CRC-32C "
                 "(linearity over XOR + register-difference invariant), differential run of the compiled model "
                 "against the real classes, implementation-side round-trip / burst oracle",
    "text": "Round trip parsePacket(serializePacket sp dp tag c) = (sp, dp, tag, [c]) is proved for every chunk class, "
            "all field values in wire range, parameter / gap / duplicate / stream lists and user data of any length "
            "(all padding residues), and re-serialising gives identical bytes; likewise for the RE-CONFIG parameters. "
            "CRC-32C burst theorem: any non-zero error confined to <= 32 consecutive bit positions (CRC order) of an "
            "accepted packet of ANY length that lies entirely outside or entirely inside the checksum field makes "
            "parse_packet raise ValueError. Bursts straddling the checksum field can pass (inherent in RFC 4960): "
            "C08_full_false is proved from a 16-byte witness and replayed on the real parser every run.",
    "note": "The model is of the code after fixes/C08-*.patch (zero parameter length, short chunk bodies and short "
            "RE-CONFIG parameters are ValueError instead of a hang / struct.error); the pinned behaviour is kept as "
            "the `fixed = false` variants of the same Lean functions.",
    "design_ref": "DESIGN.md §2 C08",
}
ASSUMPTIONS = [
    "burst positions are numbered in CRC / transmission bit order (bit 8*i+k = bit k, LSB = 0, of byte i), the order "
    "RFC 3309 prescribes; a run of <= 32 bits in MSB-first numbering that touches 5 bytes may span up to 40 CRC-order "
    "positions and is outside the CRC guarantee (every error confined to 4 consecutive bytes is covered)",
    "crc_burst_partial: the burst lies entirely outside or entirely inside bytes 8..11 (checksum field); the "
    "straddling case is the known finding C08-crc-straddle (C08_full_false)",
    "round trip: field values in wire range and total chunk length < 65536 (otherwise struct.pack raises, which the "
    "model reproduces as crash struct.error); negative Python ints are not generated (also struct.error)",
    "serialize_packet takes one chunk, so round trip is stated for single-chunk packets; bundles are covered by the "
    "parse correspondence only",
]
TRUSTED_EXTRA = [
    "google_crc32c.value is tied to Model/Crc32c.crc32c by differential testing only (C extension, not modelled)",
    "Python loops over `pos` are modelled on the remaining bytes data[pos:] (see Model/Sctp/Wire.lean header)",
    "RECONFIG_PARAM_TYPES keys are the literals 13/16/17 in the source; the model uses the regenerated "
    "SCTP_STR_RESET_* constants (checked by the reconfig correspondence)",
]
RULE = ("chunks are built with the repo's own classes from boundary-biased fields (0,1,max-1,max, occasionally max+1), "
        "user data 0..1200 bytes and parameter values of every length residue mod 4, lists up to the 16-bit length limit; "
        "malformed packets are derived from valid ones (every class x every body length 0..24, truncated / inflated "
        "length fields, zero / short parameter lengths, unknown types, garbage) with the CRC recomputed; bursts: every "
        "length 1..32, positions biased to the checksum-field boundaries, random interior pattern; "
        "distinct = distinct canonical case")

PLAIN = ["CookieEchoChunk", "CookieAckChunk", "ShutdownAckChunk", "ShutdownCompleteChunk"]
PARAMS = ["HeartbeatChunk", "HeartbeatAckChunk", "AbortChunk", "ErrorChunk", "ReconfigChunk"]
INIT = ["InitChunk", "InitAckChunk"]
ALL = PLAIN + PARAMS + INIT + ["DataChunk", "SackChunk", "ShutdownChunk", "ForwardTsnChunk"]

# chunk type ids of RFC 4960 §3.2, RFC 3758 (FORWARD-TSN), RFC 6525 (RE-CONFIG)
RFC_TYPE = {"DataChunk": 0, "InitChunk": 1, "InitAckChunk": 2, "SackChunk": 3, "HeartbeatChunk": 4, "HeartbeatAckChunk": 5,
            "AbortChunk": 6, "ShutdownChunk": 7, "ShutdownAckChunk": 8, "ErrorChunk": 9, "CookieEchoChunk": 10,
            "CookieAckChunk": 11, "ShutdownCompleteChunk": 14, "ReconfigChunk": 130, "ForwardTsnChunk": 192}

B8 = [0, 1, 2, 3, 4, 7, 127, 128, 254, 255]
B16 = [0, 1, 2, 255, 256, 32767, 32768, 65534, 65535]
B32 = [0, 1, 255, 65535, 65536, 2**31 - 1, 2**31, 2**32 - 2, 2**32 - 1]


def _m():
    from aiortc import rtcsctptransport as m
    return m


hx, unhx = core.hx, core.unhx

# ---- independent CRC-32C (table driven, polynomial written MSB-first and reflected here) -------------

_TABLE = None


def crc_ref(data: bytes) -> int:
    global _TABLE
    if _TABLE is None:
        poly = int("{:032b}".format(0x1EDC6F41)[::-1], 2)  # reflect the Castagnoli polynomial
        t = []
        for i in range(256):
            c = i
            for _ in range(8):
                c = (c >> 1) ^ poly if c & 1 else c >> 1
            t.append(c)
        _TABLE = t
    c = 0xFFFFFFFF
    for b in data:
        c = _TABLE[(c ^ b) & 0xFF] ^ (c >> 8)
    return c ^ 0xFFFFFFFF


def fix_crc(pkt: bytes) -> bytes:
    if len(pkt) < 12:
        return pkt
    z = pkt[:8] + b"\0\0\0\0" + pkt[12:]
    return pkt[:8] + struct.pack("<L", crc_ref(z)) + pkt[12:]


# ---- guarded execution ---------------------------------------------------------------------------------

class _Hang(BaseException):
    pass


def _alarm(signum, frame):
    raise _Hang()


def guard(fn, show, seconds=3.0):
    """Run fn(); canonical Outcome.tag string."""
    old = signal.signal(signal.SIGALRM, _alarm)
    signal.setitimer(signal.ITIMER_REAL, seconds)
    try:
        r = fn()
        signal.setitimer(signal.ITIMER_REAL, 0)
        return "ok " + show(r)
    except _Hang:
        return "hang"
    except ValueError:
        signal.setitimer(signal.ITIMER_REAL, 0)
        return "ValueError"
    except struct.error:
        signal.setitimer(signal.ITIMER_REAL, 0)
        return "crash struct.error"
    except Exception as exc:
        signal.setitimer(signal.ITIMER_REAL, 0)
        return "crash " + type(exc).__name__
    finally:
        signal.setitimer(signal.ITIMER_REAL, 0)
        signal.signal(signal.SIGALRM, old)


# ---- chunk specs <-> repo objects <-> canonical strings ------------------------------------------------

def show_params(ps):
    return ",".join(f"{t}/{hx(bytes(v))}" for t, v in ps) if ps else "-"


def show_pairs(l):
    return ",".join(f"{a}/{b}" for a, b in l) if l else "-"


def show_nats(l):
    return ",".join(str(x) for x in l) if l else "-"


def build_chunk(spec):
    m = _m()
    name = spec["cls"]
    cls = getattr(m, name)
    f = spec["flags"]
    if name in PLAIN:
        return cls(flags=f, body=unhx(spec["body"]))
    c = cls(flags=f)
    if name in PARAMS:
        c.params = [(t, unhx(v)) for t, v in spec["params"]]
    elif name == "DataChunk":
        c.tsn, c.stream_id, c.stream_seq, c.protocol = spec["tsn"], spec["sid"], spec["sseq"], spec["proto"]
        c.user_data = unhx(spec["ud"])
    elif name in INIT:
        c.initiate_tag, c.advertised_rwnd = spec["tag"], spec["rwnd"]
        c.outbound_streams, c.inbound_streams, c.initial_tsn = spec["outs"], spec["ins"], spec["itsn"]
        c.params = [(t, unhx(v)) for t, v in spec["params"]]
    elif name == "SackChunk":
        c.cumulative_tsn, c.advertised_rwnd = spec["ctsn"], spec["rwnd"]
        c.gaps = [tuple(g) for g in spec["gaps"]]
        c.duplicates = list(spec["dups"])
    elif name == "ShutdownChunk":
        c.cumulative_tsn = spec["ctsn"]
    elif name == "ForwardTsnChunk":
        c.cumulative_tsn = spec["ctsn"]
        c.streams = [tuple(s) for s in spec["streams"]]
    return c


def chunk_str(c) -> str:
    name = type(c).__name__
    f = c.flags
    if name in PLAIN:
        return f"{name}:{f}:{hx(bytes(c.body))}"
    if name in PARAMS:
        return f"{name}:{f}:{show_params(c.params)}"
    if name == "DataChunk":
        return f"{name}:{f}:{c.tsn}:{c.stream_id}:{c.stream_seq}:{c.protocol}:{hx(bytes(c.user_data))}"
    if name in INIT:
        return (f"{name}:{f}:{c.initiate_tag}:{c.advertised_rwnd}:{c.outbound_streams}:{c.inbound_streams}:"
                f"{c.initial_tsn}:{show_params(c.params)}")
    if name == "SackChunk":
        return f"{name}:{f}:{c.cumulative_tsn}:{c.advertised_rwnd}:{show_pairs(c.gaps)}:{show_nats(c.duplicates)}"
    if name == "ShutdownChunk":
        return f"{name}:{f}:{c.cumulative_tsn}"
    if name == "ForwardTsnChunk":
        return f"{name}:{f}:{c.cumulative_tsn}:{show_pairs(c.streams)}"
    return f"?{name}"


def spec_str(spec) -> str:
    """Canonical string straight from the spec (no repo code involved)."""
    name, f = spec["cls"], spec["flags"]
    sp = lambda ps: ",".join(f"{t}/{v}" for t, v in ps) if ps else "-"
    if name in PLAIN:
        return f"{name}:{f}:{spec['body']}"
    if name in PARAMS:
        return f"{name}:{f}:{sp(spec['params'])}"
    if name == "DataChunk":
        return f"{name}:{f}:{spec['tsn']}:{spec['sid']}:{spec['sseq']}:{spec['proto']}:{spec['ud']}"
    if name in INIT:
        return (f"{name}:{f}:{spec['tag']}:{spec['rwnd']}:{spec['outs']}:{spec['ins']}:{spec['itsn']}:"
                f"{sp(spec['params'])}")
    if name == "SackChunk":
        return f"{name}:{f}:{spec['ctsn']}:{spec['rwnd']}:{show_pairs(spec['gaps'])}:{show_nats(spec['dups'])}"
    if name == "ShutdownChunk":
        return f"{name}:{f}:{spec['ctsn']}"
    return f"{name}:{f}:{spec['ctsn']}:{show_pairs(spec['streams'])}"


def spec_in_range(spec) -> bool:
    """Independent statement of 'all field values in wire range' (incl. the 16-bit chunk length)."""
    name = spec["cls"]
    if not 0 <= spec["flags"] < 256:
        return False

    def plen(ps):
        n = 0
        for i, (t, v) in enumerate(ps):
            l = len(unhx(v)) + 4
            if not (0 <= t < 65536 and l < 65536):
                return None
            n += l + ((-l) % 4 if i < len(ps) - 1 else 0)
        return n

    u32 = lambda x: 0 <= x < 2**32
    u16 = lambda x: 0 <= x < 65536
    if name in PLAIN:
        return len(unhx(spec["body"])) + 4 < 65536
    if name in PARAMS:
        n = plen(spec["params"])
        return n is not None and n + 4 < 65536
    if name == "DataChunk":
        return (u32(spec["tsn"]) and u16(spec["sid"]) and u16(spec["sseq"]) and u32(spec["proto"])
                and 16 + len(unhx(spec["ud"])) < 65536)
    if name in INIT:
        n = plen(spec["params"])
        return (n is not None and n + 20 < 65536 and u32(spec["tag"]) and u32(spec["rwnd"]) and u16(spec["outs"])
                and u16(spec["ins"]) and u32(spec["itsn"]))
    if name == "SackChunk":
        return (u32(spec["ctsn"]) and u32(spec["rwnd"]) and 16 + 4 * (len(spec["gaps"]) + len(spec["dups"])) < 65536
                and all(u16(a) and u16(b) for a, b in spec["gaps"]) and all(u32(t) for t in spec["dups"]))
    if name == "ShutdownChunk":
        return u32(spec["ctsn"])
    return (u32(spec["ctsn"]) and all(u16(a) and u16(b) for a, b in spec["streams"])
            and 8 + 4 * len(spec["streams"]) < 65536)


def show_parsed(r) -> str:
    sp, dp, tag, chunks = r
    return f"{sp} {dp} {tag} " + ("|".join(chunk_str(c) for c in chunks) if chunks else "-")


# ---- generators ----------------------------------------------------------------------------------------

def pick(rng, B, M, over=0.0):
    x = rng.random()
    if x < over:
        return M + rng.choice([0, 1, 7])
    if x < 0.5:
        return rng.choice(B)
    return rng.randrange(M)


def rbytes(rng, n):
    mode = rng.randrange(4)
    if mode == 0:
        return bytes(n)
    if mode == 1:
        return bytes([255]) * n
    return bytes(rng.randrange(256) for _ in range(n))


def gen_len(rng, big=False):
    x = rng.random()
    if x < 0.45:
        return rng.randrange(0, 9)
    if x < 0.8:
        return rng.randrange(0, 64)
    if x < 0.97 or not big:
        return rng.choice([1196, 1197, 1198, 1199, 1200, rng.randrange(1, 1201)])
    return rng.choice([65515, 65516, 65519, 65520, 65527, 65528, 65530, 65531, 65532, 65533])


def gen_params(rng, big=False, over=0.0):
    n = rng.choice([0, 1, 1, 2, 2, 3, 5, rng.randrange(6, 40)])
    ps = []
    for _ in range(n):
        l = rng.randrange(0, 9) if rng.random() < 0.7 else rng.randrange(0, 70)
        ps.append([pick(rng, B16 + [7, 13, 16, 17, 0x8008, 0xC000], 65536, over), hx(rbytes(rng, l))])
    if big and rng.random() < 0.03:
        ps.append([1, hx(bytes(rng.choice([65000, 65507, 65508, 65527, 65528, 65531, 65532])))])
    return ps


def gen_pairs(rng, big=False, over=0.0):
    n = rng.choice([0, 1, 2, 3, rng.randrange(0, 30), rng.randrange(30, 400)])
    if big and rng.random() < 0.03:
        n = rng.choice([8000, 16378, 16379, 16380])
    return [[pick(rng, B16, 65536, over / 4), pick(rng, B16, 65536, over / 4)] for _ in range(n)]


def gen_spec(rng, name=None, big=False, over=0.0):
    name = name or rng.choice(ALL)
    # out-of-range values only in a minority of specs (otherwise long lists are almost never in range)
    over = (0.15 if rng.random() < 2.5 * over else 0.0)
    spec = {"cls": name, "flags": pick(rng, B8, 256, over)}
    if name in PLAIN:
        spec["body"] = hx(rbytes(rng, gen_len(rng, big)))
    elif name in PARAMS:
        spec["params"] = gen_params(rng, big, over)
    elif name == "DataChunk":
        spec.update(tsn=pick(rng, B32, 2**32, over), sid=pick(rng, B16, 65536, over), sseq=pick(rng, B16, 65536, over),
                    proto=pick(rng, B32 + [50, 51, 53, 56, 57], 2**32, over), ud=hx(rbytes(rng, gen_len(rng, big))))
    elif name in INIT:
        spec.update(tag=pick(rng, B32, 2**32, over), rwnd=pick(rng, B32, 2**32, over), outs=pick(rng, B16, 65536, over),
                    ins=pick(rng, B16, 65536, over), itsn=pick(rng, B32, 2**32, over), params=gen_params(rng, big, over))
    elif name == "SackChunk":
        gaps = gen_pairs(rng, big, over)
        nd = rng.choice([0, 1, 2, rng.randrange(0, 30), rng.randrange(30, 400)])
        if big and rng.random() < 0.03:
            nd = max(0, rng.choice([16379, 16380]) - len(gaps))
        spec.update(ctsn=pick(rng, B32, 2**32, over), rwnd=pick(rng, B32, 2**32, over), gaps=gaps,
                    dups=[pick(rng, B32, 2**32, over / 4) for _ in range(nd)])
    elif name == "ShutdownChunk":
        spec["ctsn"] = pick(rng, B32, 2**32, over)
    else:
        spec.update(ctsn=pick(rng, B32, 2**32, over), streams=gen_pairs(rng, big, over))
    return spec


def gen_header(rng, over=0.0):
    return pick(rng, B16 + [5000], 65536, over), pick(rng, B16 + [5000], 65536, over), pick(rng, B32, 2**32, over)


def shrink_spec(spec):
    """Smaller variants of a chunk spec."""
    out = []

    def w(**kw):
        s = dict(spec)
        s.update(kw)
        out.append(s)

    for k in ("body", "ud"):
        if k in spec and spec[k] != "-":
            b = unhx(spec[k])
            for nb in (b[: len(b) // 2], b[:-1], bytes(len(b))):
                if nb != b:
                    w(**{k: hx(nb)})
    for k in ("params", "gaps", "dups", "streams"):
        if k in spec and spec[k]:
            l = spec[k]
            w(**{k: l[: len(l) // 2]})
            w(**{k: l[1:]})
            w(**{k: l[:-1]})
    if spec.get("params"):
        for i, (t, v) in enumerate(spec["params"]):
            b = unhx(v)
            if b:
                ps = [list(p) for p in spec["params"]]
                ps[i][1] = hx(b[:-1])
                w(params=ps)
    for k in ("flags", "tsn", "sid", "sseq", "proto", "tag", "rwnd", "outs", "ins", "itsn", "ctsn"):
        if spec.get(k):
            w(**{k: 0})
    return out


# ---- components ----------------------------------------------------------------------------------------

class Crc(Component):
    name = "crc"
    theorems = ["crc_burst_partial", "C08_full_false", "crc32c_check_value"]

    def corpus(self):
        return [{"d": hx(b"123456789")}, {"d": "-"}, {"d": "00"}, {"d": "ff" * 4}, {"d": "00" * 32}]

    def cases(self, rng, tier):
        n = 300 if tier == "quick" else 6000
        out = []
        for L in range(0, 70):
            out.append({"d": hx(rbytes(rng, L))})
        for _ in range(n):
            out.append({"d": hx(rbytes(rng, rng.choice([rng.randrange(0, 40), rng.randrange(0, 1300)])))})
        return out

    def model_line(self, case):
        return "sctpwire crc " + case["d"]

    def impl(self, case):
        return str(_m().crc32c(unhx(case["d"])))

    def oracle(self, case, impl_out):
        want = crc_ref(unhx(case["d"]))
        if impl_out != str(want):
            return f"crc32c({case['d'][:40]}…) = {impl_out}, CRC-32C (RFC 3309) is {want}"
        return None

    def label(self, case, impl_out):
        return "len%4=" + str(len(unhx(case["d"])) % 4)

    def shrink(self, case):
        b = unhx(case["d"])
        return [{"d": hx(x)} for x in (b[: len(b) // 2], b[1:], b[:-1]) if x != b]


class Roundtrip(Component):
    name = "roundtrip"
    theorems = ["packet_roundtrip", "packet_reserialize", "serialize_wf"]

    def corpus(self):
        return [
            {"sp": 5000, "dp": 5000, "tag": 0, "chunk": {"cls": "CookieAckChunk", "flags": 0, "body": "-"}},
            {"sp": 5000, "dp": 5000, "tag": 1, "chunk": {"cls": "DataChunk", "flags": 3, "tsn": 1, "sid": 2, "sseq": 3,
                                                          "proto": 51, "ud": "61"}},
            {"sp": 1, "dp": 2, "tag": 3, "chunk": {"cls": "InitChunk", "flags": 0, "tag": 1, "rwnd": 2, "outs": 3, "ins": 4,
                                                    "itsn": 5, "params": [[49152, "-"], [32776, "82c0"]]}},
        ]

    def cases(self, rng, tier):
        out = []
        reps = 3 if tier == "quick" else 12
        # every class x every length residue, systematically
        for name in ALL:
            for _ in range(28 * reps):
                sp, dp, tag = gen_header(rng, 0.02)
                out.append({"sp": sp, "dp": dp, "tag": tag, "chunk": gen_spec(rng, name, big=False, over=0.04)})
        for L in list(range(0, 13)) + [1197, 1198, 1199, 1200]:
            sp, dp, tag = gen_header(rng)
            s = gen_spec(rng, "DataChunk")
            s["ud"] = hx(rbytes(rng, L))
            out.append({"sp": sp, "dp": dp, "tag": tag, "chunk": s})
            for name in ("HeartbeatChunk", "InitAckChunk"):
                s = gen_spec(rng, name)
                s["params"] = s["params"][:2] + [[7, hx(rbytes(rng, L % 64))]]
                out.append({"sp": sp, "dp": dp, "tag": tag, "chunk": s})
        # a few at the 16-bit length limit
        for _ in range(12 if tier == "quick" else 300):
            sp, dp, tag = gen_header(rng)
            out.append({"sp": sp, "dp": dp, "tag": tag, "chunk": gen_spec(rng, None, big=True)})
        return out

    def model_line(self, case):
        return f"sctpwire roundtrip {case['sp']} {case['dp']} {case['tag']} {spec_str(case['chunk'])}"

    def _run(self, case):
        m = _m()
        chunk = build_chunk(case["chunk"])
        ser = guard(lambda: m.serialize_packet(case["sp"], case["dp"], case["tag"], chunk), hx)
        if not ser.startswith("ok "):
            return ser, None, None
        data = unhx(ser[3:])
        box = {}

        def parse():
            box["r"] = m.parse_packet(data)
            return box["r"]

        par = guard(parse, show_parsed)
        re = "none"
        if par.startswith("ok "):
            sp, dp, tag, chunks = box["r"]
            re = "+".join(guard(lambda c=c: m.serialize_packet(sp, dp, tag, c), hx) for c in chunks)
        return ser, par, re

    def impl(self, case):
        ser, par, re = self._run(case)
        if par is None:
            return ser
        return f"{ser} => {par} => {re}"

    def oracle(self, case, impl_out):
        spec = case["chunk"]
        hdr_ok = 0 <= case["sp"] < 65536 and 0 <= case["dp"] < 65536 and 0 <= case["tag"] < 2**32
        if not (hdr_ok and spec_in_range(spec)):
            if impl_out != "crash struct.error":
                return f"field out of wire range but serialize_packet gave {impl_out[:60]}"
            return None
        parts = impl_out.split(" => ")
        if len(parts) != 3 or not parts[0].startswith("ok "):
            return f"serialize_packet failed on in-range chunk: {impl_out[:80]}"
        data = unhx(parts[0][3:])
        want = f"ok {case['sp']} {case['dp']} {case['tag']} {spec_str(spec)}"
        if parts[1] != want:
            return f"parse_packet(serialize_packet(c)) = {parts[1][:200]} ≠ {want[:200]}"
        if parts[2] != parts[0]:
            return "re-serialising the parsed packet does not give identical bytes"
        # structural facts of the wire image that do not depend on the parser
        if len(data) % 4 != 0:
            return f"serialised packet length {len(data)} is not a multiple of 4"
        if struct.unpack_from("<L", data, 8)[0] != crc_ref(data[:8] + b"\0\0\0\0" + data[12:]):
            return "checksum field is not the CRC-32C of the packet with zeroed checksum"
        clen = struct.unpack_from("!H", data, 14)[0]
        if not (len(data) - 12 - 3 <= clen <= len(data) - 12) or any(data[12 + clen:]):
            return f"chunk length field {clen} / padding inconsistent with packet length {len(data)}"
        if data[12] != RFC_TYPE[spec["cls"]] or data[13] != spec["flags"]:
            return f"chunk type / flags byte wrong ({data[12]}, {data[13]}); RFC 4960/3758/6525 type of {spec['cls']} is {RFC_TYPE[spec['cls']]}"
        return None

    def label(self, case, impl_out):
        spec = case["chunk"]
        if not impl_out.startswith("ok "):
            return spec["cls"] + ":" + impl_out[:24]
        n = (len(unhx(impl_out.split(" ")[1])) - 12)
        size = "big" if n > 20000 else "mid" if n > 400 else "small"
        extra = ""
        if "ud" in spec:
            extra = ":ud%4=" + str(len(unhx(spec["ud"])) % 4)
        if "params" in spec:
            np_ = len(spec["params"])
            extra = ":np=" + (str(np_) if np_ < 4 else "4-8" if np_ <= 8 else "9+") + ":last%4=" + (
                str(len(unhx(spec["params"][-1][1])) % 4) if spec["params"] else "-")
        return spec["cls"] + ":ok:" + size + extra

    def nontrivial(self, case, impl_out):
        return True

    def shrink(self, case):
        out = [dict(case, chunk=s) for s in shrink_spec(case["chunk"])]
        for k in ("sp", "dp", "tag"):
            if case[k]:
                out.append(dict(case, **{k: 0}))
        return out


class Params(Component):
    name = "params"
    theorems = ["decode_encode_params", "decodeParams_total", "decodeParamsOrig_hang"]

    def corpus(self):
        return [{"dec": "00010000"}, {"dec": "0001000400020000"}, {"dec": "00010001"}, {"dec": "00010003aabbccdd"},
                {"dec": "0001ffff00"}, {"dec": "-"}, {"dec": "000100"}, {"enc": []}, {"enc": [[1, "-"]]}]

    def cases(self, rng, tier):
        out = []
        n = 600 if tier == "quick" else 8000
        for _ in range(n):
            out.append({"enc": gen_params(rng, big=(tier != "quick"), over=0.03)})
        m = _m()
        for _ in range(n):
            ps = [(t, unhx(v)) for t, v in gen_params(rng) if t < 65536]
            b = bytearray(m.encode_params(ps) if rng.random() < 0.8 else rbytes(rng, rng.randrange(0, 24)))
            mode = rng.randrange(6)
            if b and mode == 0:
                del b[rng.randrange(len(b)):]
            elif len(b) >= 4 and mode == 1:
                # length field of some 4-aligned slot := small / large
                pos = 4 * rng.randrange(len(b) // 4)
                b[pos + 2:pos + 4] = struct.pack("!H", rng.choice([0, 1, 2, 3, 4, 5, 8, len(b), len(b) + 1, 65535]))
            elif b and mode == 2:
                b[rng.randrange(len(b))] ^= 1 << rng.randrange(8)
            elif mode == 3:
                b += rbytes(rng, rng.randrange(1, 6))
            out.append({"dec": hx(bytes(b))})
        return out

    def model_line(self, case):
        if "dec" in case:
            return "sctpwire decparams " + case["dec"]
        return "sctpwire encparams " + (",".join(f"{t}/{v}" for t, v in case["enc"]) if case["enc"] else "-")

    def impl(self, case):
        m = _m()
        if "dec" in case:
            return guard(lambda: m.decode_params(unhx(case["dec"])), show_params)
        return guard(lambda: m.encode_params([(t, unhx(v)) for t, v in case["enc"]]), hx)

    def oracle(self, case, impl_out):
        m = _m()
        if "dec" in case:
            if not (impl_out.startswith("ok ") or impl_out == "ValueError"):
                return f"decode_params({case['dec'][:60]}) → {impl_out} (must return or raise ValueError)"
            return None
        ps = [(t, unhx(v)) for t, v in case["enc"]]
        inr = all(0 <= t < 65536 and len(v) + 4 < 65536 for t, v in ps)
        if not inr:
            return None if impl_out == "crash struct.error" else f"out-of-range parameter gave {impl_out[:40]}"
        if not impl_out.startswith("ok "):
            return f"encode_params failed: {impl_out}"
        back = guard(lambda: m.decode_params(unhx(impl_out[3:])), show_params)
        if back != "ok " + show_params(ps):
            return f"decode_params(encode_params(ps)) = {back[:120]} ≠ {show_params(ps)[:120]}"
        return None

    def label(self, case, impl_out):
        return ("dec:" if "dec" in case else "enc:") + impl_out.split(" ")[0] + (
            ":" + impl_out.split(" ")[1] if impl_out.startswith("crash") else "")

    def shrink(self, case):
        if "dec" in case:
            b = unhx(case["dec"])
            return [{"dec": hx(x)} for x in (b[: len(b) // 2], b[4:], b[:-1], b[:-4]) if x != b]
        l = case["enc"]
        return [{"enc": x} for x in (l[: len(l) // 2], l[1:], l[:-1]) if x != l]


RC = {"out": ("StreamResetOutgoingParam", 13), "add": ("StreamAddOutgoingParam", 17), "resp": ("StreamResetResponseParam", 16)}


def rc_show(p) -> str:
    n = type(p).__name__
    if n == "StreamResetOutgoingParam":
        return f"out:{p.request_sequence}:{p.response_sequence}:{p.last_tsn}:{show_nats(p.streams)}"
    if n == "StreamAddOutgoingParam":
        return f"add:{p.request_sequence}:{p.new_streams}"
    return f"resp:{p.response_sequence}:{p.result}"


class Reconfig(Component):
    name = "reconfig"
    theorems = ["reconfig_roundtrip", "reconfig_parse_total"]

    def corpus(self):
        return [{"t": 13, "d": "-"}, {"t": 13, "d": "00" * 11}, {"t": 13, "d": "00" * 13}, {"t": 16, "d": "00" * 7},
                {"t": 17, "d": "00" * 7}, {"t": 17, "d": "00" * 9}, {"t": 14, "d": "00" * 12}]

    def cases(self, rng, tier):
        out = []
        n = 150 if tier == "quick" else 5000
        for _ in range(n):
            k = rng.choice(["out", "add", "resp"])
            if k == "out":
                s = f"out:{pick(rng, B32, 2**32, .03)}:{pick(rng, B32, 2**32, .03)}:{pick(rng, B32, 2**32, .03)}:" + show_nats(
                    [pick(rng, B16, 65536, .01) for _ in range(rng.choice([0, 1, 2, 3, rng.randrange(0, 140)]))])
            elif k == "add":
                s = f"add:{pick(rng, B32, 2**32, .03)}:{pick(rng, B16, 65536, .03)}"
            else:
                s = f"resp:{pick(rng, B32, 2**32, .03)}:{pick(rng, B32, 2**32, .03)}"
            out.append({"ser": s})
        for t in (13, 16, 17):
            for L in range(0, 22):
                out.append({"t": t, "d": hx(rbytes(rng, L))})
        for _ in range(n):
            out.append({"t": rng.choice([13, 16, 17, 13, 16, 17, 0, 12, 14, 15, 18]), "d": hx(rbytes(rng, rng.randrange(0, 40)))})
        return out

    def model_line(self, case):
        if "ser" in case:
            return "sctpwire rcser " + case["ser"]
        return f"sctpwire rcparse {case['t']} {case['d']}"

    def _obj(self, s):
        m = _m()
        f = s.split(":")
        if f[0] == "out":
            return m.StreamResetOutgoingParam(request_sequence=int(f[1]), response_sequence=int(f[2]), last_tsn=int(f[3]),
                                              streams=[] if f[4] == "-" else [int(x) for x in f[4].split(",")])
        if f[0] == "add":
            return m.StreamAddOutgoingParam(request_sequence=int(f[1]), new_streams=int(f[2]))
        return m.StreamResetResponseParam(response_sequence=int(f[1]), result=int(f[2]))

    def impl(self, case):
        m = _m()
        if "ser" in case:
            p = self._obj(case["ser"])
            key = [k for k, cls in m.RECONFIG_PARAM_TYPES.items() if isinstance(p, cls)]
            return f"{key[0] if key else '?'} " + guard(lambda: bytes(p), hx)
        cls = m.RECONFIG_PARAM_TYPES.get(case["t"])
        if cls is None:
            return "none"
        return guard(lambda: cls.parse(unhx(case["d"])), rc_show)

    def oracle(self, case, impl_out):
        m = _m()
        if "ser" in case:
            f = case["ser"].split(":")
            nums = [int(x) for x in f[1:4] if x != "-" and "," not in x]
            lim = {"out": [2**32] * 3, "add": [2**32, 65536], "resp": [2**32] * 2}[f[0]]
            inr = all(0 <= v < l for v, l in zip(nums, lim))
            if f[0] == "out" and f[4] != "-":
                inr = inr and all(0 <= int(x) < 65536 for x in f[4].split(","))
            t, _, rest = impl_out.partition(" ")
            if t != str(RC[f[0]][1]):
                return f"RECONFIG_PARAM_TYPES maps {RC[f[0]][0]} to {t}, RFC 6525 says {RC[f[0]][1]}"
            if not inr:
                return None if rest == "crash struct.error" else f"out-of-range field gave {rest[:40]}"
            if not rest.startswith("ok "):
                return f"bytes(param) failed: {rest}"
            back = guard(lambda: m.RECONFIG_PARAM_TYPES[int(t)].parse(unhx(rest[3:])), rc_show)
            if back != "ok " + case["ser"]:
                return f"parse(bytes(p)) = {back[:100]} ≠ {case['ser'][:100]}"
            return None
        if not (impl_out == "none" or impl_out.startswith("ok ") or impl_out == "ValueError"):
            return f"RECONFIG parameter {case['t']} parse({case['d']}) → {impl_out} (must return or raise ValueError)"
        return None

    def label(self, case, impl_out):
        if "ser" in case:
            return "ser:" + case["ser"].split(":")[0] + ":" + impl_out.split(" ")[1]
        return f"parse:{case['t'] if case['t'] in (13, 16, 17) else 'other'}:" + impl_out.split(" ")[0]

    def shrink(self, case):
        if "d" in case:
            b = unhx(case["d"])
            return [dict(case, d=hx(x)) for x in (b[: len(b) // 2], b[:-1]) if x != b]
        return []


def chunk_bytes_raw(ty, flags, body, length=None):
    l = len(body) + 4 if length is None else length
    return struct.pack("!BBH", ty, flags, l & 0xFFFF) + body + bytes((-len(body)) % 4)


class Parse(Component):
    name = "parse"
    theorems = ["parsePacket_total", "parsePacketOrig_struct_error", "parsePacketOrig_hang"]

    def corpus(self):
        hdr = struct.pack("!HHL", 5000, 5000, 7) + b"\0\0\0\0"
        raw = [
            hdr + chunk_bytes_raw(1, 0, bytes(16) + bytes.fromhex("00010000")),   # zero-length parameter: hang (pinned)
            hdr + chunk_bytes_raw(4, 0, bytes.fromhex("00010000")),
            hdr + chunk_bytes_raw(0, 3, b"\x01"),                                   # DATA with 1-byte body: struct.error
            hdr + chunk_bytes_raw(3, 0, bytes(11)),
            hdr + chunk_bytes_raw(3, 0, bytes(8) + b"\x00\x01\x00\x00"),           # SACK announcing a gap it lacks
            hdr + chunk_bytes_raw(7, 0, b"\x01\x02"),
            hdr + chunk_bytes_raw(192, 0, bytes(6)),
            hdr + chunk_bytes_raw(2, 0, bytes(15)),
            hdr + chunk_bytes_raw(11, 0, b""),
            hdr + chunk_bytes_raw(99, 0, b"abc") + chunk_bytes_raw(11, 1, b""),
        ]
        out = [{"d": hx(fix_crc(r))} for r in raw]
        out += [{"d": "-"}, {"d": "00" * 15}, {"d": "00" * 16}]
        return out

    def cases(self, rng, tier):
        m = _m()
        out = []
        types = sorted(m.CHUNK_TYPES.keys())
        hdrs = lambda: struct.pack("!HHL", *gen_header(rng)) + b"\0\0\0\0"
        reps = 1 if tier == "quick" else 10
        # every class x every body length 0..24 (random / zero bodies)
        for _ in range(reps):
            for ty in types + [12, 13, 15, 64, 255]:
                for L in range(0, 25):
                    out.append({"d": hx(fix_crc(hdrs() + chunk_bytes_raw(ty, rng.randrange(256), rbytes(rng, L))))})
        # SACK bodies with consistent / inconsistent counts
        for _ in range(40 * reps):
            g, d = rng.randrange(0, 4), rng.randrange(0, 4)
            have = max(0, g + d + rng.choice([-2, -1, 0, 0, 0, 1]))
            body = struct.pack("!LLHH", rng.randrange(2**32), rng.randrange(2**32), g, d) + rbytes(rng, 4 * have)
            body += rbytes(rng, rng.choice([0, 0, 1, 2, 3]))
            out.append({"d": hx(fix_crc(hdrs() + chunk_bytes_raw(3, 0, body)))})
        # bundles of valid chunks, then mutated
        n = 1200 if tier == "quick" else 12000
        for _ in range(n):
            chunks = []
            for _ in range(rng.choice([1, 1, 2, 3])):
                spec = gen_spec(rng)
                if spec_in_range(spec):
                    chunks.append(bytes(build_chunk(spec)))
            offs = [12]
            for c in chunks:
                offs.append(offs[-1] + len(c))
            b = bytearray(hdrs() + b"".join(chunks))
            mode = rng.randrange(10)
            if mode == 0 and len(b) > 12:
                del b[rng.randrange(12, len(b)):]
            elif mode == 1 and chunks:
                o = rng.choice(offs[:-1])
                cur = struct.unpack_from("!H", b, o + 2)[0]
                b[o + 2:o + 4] = struct.pack("!H", rng.choice([0, 1, 3, 4, 5, 8, 12, 16, 20, max(cur - 1, 0), cur + 1, cur + 4,
                                                              len(b) - o, len(b) - o + 1, 65535]) & 0xFFFF)
            elif mode == 2 and len(b) > 16:
                # a 16-bit field somewhere in the chunk area := small value (hits parameter lengths)
                pos = 12 + 2 * rng.randrange((len(b) - 12) // 2)
                b[pos:pos + 2] = struct.pack("!H", rng.choice([0, 1, 2, 3, 4, 5, 7, 65535]))
            elif mode == 3 and len(b) > 12:
                for _ in range(rng.randrange(1, 4)):
                    b[rng.randrange(12, len(b))] ^= 1 << rng.randrange(8)
            elif mode == 4 and chunks:
                b[rng.choice(offs[:-1])] = rng.choice([12, 13, 15, 64, 193, 255] + types)
            elif mode == 5:
                b += rbytes(rng, rng.randrange(1, 8))
            elif mode == 6 and chunks:
                # cut the first chunk's body short but keep the length field consistent
                o = offs[0]
                cur = struct.unpack_from("!H", b, o + 2)[0]
                k = rng.randrange(4, max(5, min(cur, 24)))
                b = bytearray(bytes(b[:o]) + chunk_bytes_raw(b[o], b[o + 1], bytes(b[o + 4:o + k])) + bytes(b[offs[1]:]))
            good = rng.random() < 0.9
            out.append({"d": hx(fix_crc(bytes(b)) if good else bytes(b))})
        for L in range(0, 20):
            out.append({"d": hx(rbytes(rng, L))})
        return out

    def model_line(self, case):
        return "sctpwire parse " + case["d"]

    def _parse(self, data):
        m = _m()
        box = {}

        def f():
            box["r"] = m.parse_packet(data)
            return box["r"]

        return guard(f, show_parsed), box.get("r")

    def impl(self, case):
        return self._parse(unhx(case["d"]))[0]

    def oracle(self, case, impl_out):
        data = unhx(case["d"])
        if not (impl_out.startswith("ok ") or impl_out == "ValueError"):
            return f"parse_packet → {impl_out} on a {len(data)}-byte packet (must return or raise ValueError)"
        crc_good = len(data) >= 16 and struct.unpack_from("<L", data, 8)[0] == crc_ref(data[:8] + b"\0\0\0\0" + data[12:])
        if impl_out.startswith("ok ") and not crc_good:
            return "packet with wrong CRC-32C (or shorter than 16 bytes) was accepted"
        if impl_out.startswith("ok "):
            # every accepted chunk is a fixed point of serialise-then-parse
            m = _m()
            _, r = self._parse(data)
            sp, dp, tag, chunks = r
            for c in chunks:
                s = guard(lambda: m.serialize_packet(sp, dp, tag, c), hx)
                if not s.startswith("ok "):
                    return f"parsed chunk {chunk_str(c)[:80]} cannot be serialised: {s}"
                back, _ = self._parse(unhx(s[3:]))
                if back != f"ok {sp} {dp} {tag} {chunk_str(c)}":
                    return f"parsed chunk {chunk_str(c)[:80]} does not survive serialise→parse: {back[:120]}"
        return None

    def label(self, case, impl_out):
        data = unhx(case["d"])
        if impl_out.startswith("ok "):
            ch = impl_out.split(" ")[4]
            n = 0 if ch == "-" else ch.count("|") + 1
            first = "-" if ch == "-" else ch.split(":")[0]
            return f"ok:n={min(n, 3)}:{first}"
        ty = data[12] if len(data) > 12 else -1
        return impl_out + ":type=" + str(ty if ty in (0, 1, 2, 3, 4, 5, 6, 7, 8, 9, 10, 11, 14, 130, 192) else "other")

    def shrink(self, case):
        b = unhx(case["d"])
        out = []
        if len(b) > 16:
            out.append(fix_crc(b[:12] + b[12:][: (len(b) - 12) // 2]))
            out.append(fix_crc(b[:-4]))
            out.append(fix_crc(b[:-1]))
        for i in range(12, min(len(b), 60)):
            if b[i]:
                out.append(fix_crc(b[:i] + b"\0" + b[i + 1:]))
        out.append(fix_crc(bytes(8) + b[8:]))
        return [{"d": hx(x)} for x in out if x != b]


# ---- bursts --------------------------------------------------------------------------------------------

def apply_burst(data: bytes, p: int, mask: int) -> bytes:
    """Flip bit p+j (CRC order: bit 8*i+k is bit k, LSB = 0, of byte i) for every set bit j of mask."""
    b = bytearray(data)
    j = 0
    while mask >> j:
        if (mask >> j) & 1:
            q = p + j
            if q // 8 < len(b):
                b[q // 8] ^= 1 << (q % 8)
        j += 1
    return bytes(b)


def straddles(p: int, mask: int) -> bool:
    qs = [p + j for j in range(mask.bit_length()) if (mask >> j) & 1]
    return any(64 <= q < 96 for q in qs) and any(not (64 <= q < 96) for q in qs)


def straddle_witness(data: bytes, p: int):
    """A non-zero mask confined to [p, p+32) that the checksum cannot see, if one exists (GF(2) kernel).
    acceptance is linear in the flipped bits: flipped checksum bits must equal L(flipped outside bits)."""
    n = len(data)
    base = crc_ref(bytes(n))
    cols = []
    for j in range(32):
        q = p + j
        if q >= 8 * n:
            cols.append(None)
            continue
        if 64 <= q < 96:
            cols.append(1 << (q - 64))          # toggles checksum-field bit
        else:
            e = bytearray(n)
            e[q // 8] ^= 1 << (q % 8)
            cols.append(crc_ref(bytes(e)) ^ base)  # toggles the computed CRC by L(e)
    # find non-zero combination with XOR = 0
    basis = {}  # pivot bit -> (vector, combo mask)
    for j, v in enumerate(cols):
        if v is None:
            continue
        combo = 1 << j
        while v:
            h = v.bit_length() - 1
            if h in basis:
                bv, bc = basis[h]
                v ^= bv
                combo ^= bc
            else:
                basis[h] = (v, combo)
                break
        else:
            return combo
    return None


class Burst(Component):
    name = "burst"
    theorems = ["crc_burst_partial", "C08_full_false", "crc_burst_four_bytes"]

    WITNESS = {"sp": 5000, "dp": 5000, "tag": 0, "chunk": {"cls": "CookieAckChunk", "flags": 0, "body": "-"}}

    def corpus(self):
        # the witness of Props/C08.lean `C08_full_false` (witnessD / witnessE), replayed on the real parser
        out = [dict(self.WITNESS, p=34, mask=0xD7B4922F)]
        pkt = self._packet(self.WITNESS)
        for p in (33, 40, 48, 56, 63, 65, 72, 80, 95):
            mask = straddle_witness(pkt, p)
            if mask:
                out.append(dict(self.WITNESS, p=p, mask=mask))
        return out

    def _packet(self, case) -> bytes:
        m = _m()
        return m.serialize_packet(case["sp"], case["dp"], case["tag"], build_chunk(case["chunk"]))

    def cases(self, rng, tier):
        out = []
        n_pk = 8 if tier == "quick" else 60
        for i in range(n_pk):
            while True:
                spec = gen_spec(rng)
                if spec_in_range(spec):
                    break
            if i == 0:
                spec = {"cls": "DataChunk", "flags": 3, "tsn": 1, "sid": 1, "sseq": 0, "proto": 51, "ud": hx(rbytes(rng, 1200))}
            sp, dp, tag = gen_header(rng)
            base = {"sp": sp, "dp": dp, "tag": tag, "chunk": spec}
            nbits = 8 * len(self._packet(base))
            per = 250 if tier == "quick" else 700
            for _ in range(per):
                L = rng.randrange(1, 33)
                x = rng.random()
                if x < 0.35:
                    p = rng.randrange(0, nbits - L + 1)
                elif x < 0.55:
                    p = rng.choice([0, 64 - L, 96, nbits - L, 32 - L if L <= 32 else 0, 64, 96 - L])   # touching the field
                    p = max(0, min(p, nbits - L))
                elif x < 0.75:
                    p = rng.randrange(max(0, 64 - L + 1), 96)   # overlapping the field (straddle or inside)
                else:
                    p = 8 * rng.randrange(0, nbits // 8 - 3)
                    L = 32                                      # four whole bytes
                mask = 1 if L == 1 else (1 | (1 << (L - 1)) | (rng.getrandbits(L - 2) << 1 if L > 2 else 0))
                if rng.random() < 0.2:
                    mask = rng.randrange(1, 1 << L)
                out.append(dict(base, p=p, mask=mask))
            if tier != "quick" and i in (1, 2, 3, 4):
                # exhaustive: every position x every length on a small DATA packet (user data 1..4 bytes)
                small = {"sp": sp, "dp": dp, "tag": tag, "chunk": {"cls": "DataChunk", "flags": 3, "tsn": i, "sid": 1, "sseq": 0,
                                                                  "proto": 51, "ud": hx(rbytes(rng, i))}}
                nb = 8 * len(self._packet(small))
                for L in range(1, 33):
                    for p in range(0, nb - L + 1):
                        mask = 1 if L == 1 else (1 | (1 << (L - 1)) | (rng.getrandbits(L - 2) << 1 if L > 2 else 0))
                        out.append(dict(small, p=p, mask=mask))
            # engineered straddling bursts for this packet (known finding)
            for p in rng.sample(range(33, 96), 4 if tier == "quick" else 20):
                mk = straddle_witness(self._packet(base), p)
                if mk:
                    out.append(dict(base, p=p, mask=mk))
        return out

    def model_line(self, case):
        return "sctpwire parse " + hx(apply_burst(self._packet(case), case["p"], case["mask"]))

    def impl(self, case):
        m = _m()
        bad = apply_burst(self._packet(case), case["p"], case["mask"])
        return guard(lambda: m.parse_packet(bad), show_parsed)

    def oracle(self, case, impl_out):
        if case["mask"] == 0 or case["mask"].bit_length() > 32:
            return None
        if impl_out != "ValueError":
            return (f"packet with a burst of {case['mask'].bit_length()} bits at bit {case['p']} "
                    f"(mask {case['mask']:#x}) was not rejected: {impl_out[:80]}")
        return None

    def label(self, case, impl_out):
        p, mask = case["p"], case["mask"]
        where = "straddle" if straddles(p, mask) else "inside" if 64 <= p < 96 else "before" if p < 64 else "after"
        return where + ":" + impl_out.split(" ")[0]

    def shrink(self, case):
        out = [dict(case, chunk=s) for s in shrink_spec(case["chunk"])]
        m = case["mask"]
        for j in range(m.bit_length()):
            if (m >> j) & 1 and m != (1 << j):
                out.append(dict(case, mask=m & ~(1 << j)))
        return out


def components(tier):
    return [Crc(), Roundtrip(), Params(), Reconfig(), Parse(), Burst()]


def classify_finding(finding, comp_name, case, what):
    """C08-crc-straddle: the burst alters bits inside the checksum field (64..95) AND bits outside it."""
    clf = finding.get("classifier", {})
    if clf.get("kind") == "burst-straddles-checksum" and comp_name == "burst":
        return "mask" in case and straddles(case["p"], case["mask"])
    return False
