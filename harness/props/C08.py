"""C08 — SCTP packets round-trip exactly; corrupted packets are rejected by the checksum.

Components (each: real code vs compiled Lean model on the same inputs + an implementation-side oracle):
  crc        google_crc32c (the `crc32c` name used by rtcsctptransport) vs Model/Crc32c, vs an independent table CRC
  roundtrip  serialize_packet -> parse_packet -> serialize_packet on chunks built from the repo's classes
  params     encode_params / decode_params
  reconfig   the three RE-CONFIG parameter classes
  parse      parse_packet on malformed packets (valid checksum unless stated): never crashes / hangs, idempotent
  ops        sequences of create / overwrite / owner-modifies / serialise / parse steps on a pool of LIVE objects,
             step by step against the pure model (Model/Sctp/WireOps.lean): any divergence is hidden state
  burst      one burst of <= 32 altered bits in an accepted packet must be rejected (straddling the
             checksum field: known finding C08-crc-straddle)

Round 2: the codec is a set of pure functions in the model but a set of mutable objects in Python.  Every parse case
(roundtrip, params, reconfig, parse) is evaluated twice with a hostile owner in between who modifies every mutable
part of the first result (`hostile_obj`); most serialise cases re-use an object that carried and serialised the
values of another case before (`prev`); `ops` mixes both in random sequences.  All of this runs in forked children
(`Isolated`) so that a shrunk / replayed case never depends on what an earlier case left behind.

Round 4: serialisers may depend on the SHAPE of a collection (is-last decided by value / index() / identity, de-duplication,
sorting) rather than on its entries.  `shape_list` rewrites a fraction of every generated parameter / gap / duplicate /
stream list and chunk bundle (earlier = last, first = last, adjacent, all equal, block twice, palindrome, sorted ...),
`equal_entry_sweep` covers equal entries at every pair of positions x every length residue, `share` decides whether equal
entries are one Python object or separately built ones.

Round 3: a lenient checksum verification fails on STRUCTURED points of the error space (the checksum in the other byte
order, another algorithm's value, zero ...) that random bursts never hit.  `burst` and `parse` now also apply the
transformations `XF` / `CK_ALT` to the checksum field, to the windows overlapping it and to every other header /
chunk field (with and without recomputing the checksum); the model is asked about the same bytes.
"""
from __future__ import annotations

import signal
import struct

from harness.check import Component
from harness import core

LEAN_TARGETS = ["Aiortc.Props.C08", "Aiortc.Props.C08Ops"]
AUDIT_PROPS = ["C08", "C08Ops"]
DRIVERS = ["SctpWire"]
MANIFEST = {
    "technique": "Lean 4 theorems over an executable model of the SCTP wire codec and a bitwise CRC-32C "
                 "(linearity over XOR + register-difference invariant), differential run of the compiled model "
                 "against the real classes, implementation-side round-trip / burst oracle",
    "text": "Round trip parsePacket(serializePacket sp dp tag c) = (sp, dp, tag, [c]) is proved for every chunk class, "
            "all field values in wire range, parameter / gap / duplicate / stream lists and user data of any length "
            "(all padding residues), and re-serialising gives identical bytes; likewise for the RE-CONFIG parameters. "
            "CRC-32C burst theorem: any non-zero error confined to <= 32 consecutive bit positions (CRC order) of an "
            "accepted packet of ANY length that lies entirely outside or entirely inside the checksum field makes "
            "parse_packet raise ValueError. Bursts straddling the checksum field can pass (inherent in RFC 4960): "
            "C08_full_false is proved from a 16-byte witness and replayed on the real parser every run. "
            "checksum_field_exact / built_checksum_exact: the checksum bytes of an accepted / built packet are the only "
            "4-byte value accepted in their place (not the other byte order, not another algorithm's value). "
            "Props/C08Ops: over a pool of live objects with an arbitrary history (objects re-used, overwritten, results "
            "modified by their owner), serialising observes the current field values only, parsing observes the bytes "
            "only, and the round trip holds for re-used objects (ops_reuse_roundtrip); compared step by step with the "
            "real objects.",
    "note": "The model is of the code after fixes/C08-*.patch (zero parameter length, short chunk bodies and short "
            "RE-CONFIG parameters are ValueError instead of a hang / struct.error); the pinned behaviour is kept as "
            "the `fixed = false` variants of the same Lean functions.",
    "design_ref": "DESIGN.md §2 C08",
}
ASSUMPTIONS = [
    "burst positions are numbered in CRC / transmission bit order (bit 8*i+k = bit k, LSB = 0, of byte i), the order "
    "RFC 3309 prescribes; a run of <= 32 bits in MSB-first numbering that touches 5 bytes may span up to 40 CRC-order "
    "positions and is outside the CRC guarantee (every error confined to 4 consecutive bytes is covered)",
    "crc_burst_partial: the burst lies entirely outside or entirely inside bytes 8..11 (checksum field); the "
    "straddling case is the known finding C08-crc-straddle (C08_full_false)",
    "round trip: field values in wire range and total chunk length < 65536 (otherwise struct.pack raises, which the "
    "model reproduces as crash struct.error); negative Python ints are not generated (also struct.error)",
    "serialize_packet takes one chunk, so round trip is stated for single-chunk packets; bundles are covered by the "
    "parse correspondence only",
]
TRUSTED_EXTRA = [
    "google_crc32c.value is tied to Model/Crc32c.crc32c by differential testing only (C extension, not modelled)",
    "Python loops over `pos` are modelled on the remaining bytes data[pos:] (see Model/Sctp/Wire.lean header)",
    "RECONFIG_PARAM_TYPES keys are the literals 13/16/17 in the source; the model uses the regenerated "
    "SCTP_STR_RESET_* constants (checked by the reconfig correspondence)",
]
RULE = ("chunks are built with the repo's own classes from boundary-biased fields (0,1,max-1,max, occasionally max+1), "
        "user data 0..1200 bytes and parameter values of every length residue mod 4, lists up to the 16-bit length limit; "
        "malformed packets are derived from valid ones (every class x every body length 0..24, truncated / inflated "
        "length fields, zero / short parameter lengths, unknown types, garbage) with the CRC recomputed; bursts: every "
        "length 1..32, positions biased to the checksum-field boundaries, random interior pattern, plus structured "
        "alterations of the checksum field and of every header / chunk field of packets of every class (byte / bit order, "
        "half swap, rotations, complement, zero, ones, +-1, 17 alternative check values in both byte orders), also with "
        "the checksum recomputed (must parse to the transformed value); "
        "shapes: 30 % of the parameter / gap / duplicate / stream lists and 15 % of the parsed bundles have repeated entries "
        "(earlier = last, first = last, adjacent, all equal, block twice, palindrome, same key, sorted / reversed, single), "
        "parameter lists with equal entries at every pair of positions x every length residue mod 4, equal entries as one "
        "object or as separately built objects; "
        "purity: every parse is done twice with the first result modified in between (ints, bytes, lists in place), two "
        "thirds of the serialise cases re-use an object that was serialised with other values, op sequences of 4..30 "
        "steps over 4 slots mix both (value sweeps on one object, interleaved objects of one class, sibling packets with "
        "byte-identical parameter bodies); "
        "distinct = distinct canonical case")

PLAIN = ["CookieEchoChunk", "CookieAckChunk", "ShutdownAckChunk", "ShutdownCompleteChunk"]
PARAMS = ["HeartbeatChunk", "HeartbeatAckChunk", "AbortChunk", "ErrorChunk", "ReconfigChunk"]
INIT = ["InitChunk", "InitAckChunk"]
ALL = PLAIN + PARAMS + INIT + ["DataChunk", "SackChunk", "ShutdownChunk", "ForwardTsnChunk"]

# chunk type ids of RFC 4960 §3.2, RFC 3758 (FORWARD-TSN), RFC 6525 (RE-CONFIG)
RFC_TYPE = {"DataChunk": 0, "InitChunk": 1, "InitAckChunk": 2, "SackChunk": 3, "HeartbeatChunk": 4, "HeartbeatAckChunk": 5,
            "AbortChunk": 6, "ShutdownChunk": 7, "ShutdownAckChunk": 8, "ErrorChunk": 9, "CookieEchoChunk": 10,
            "CookieAckChunk": 11, "ShutdownCompleteChunk": 14, "ReconfigChunk": 130, "ForwardTsnChunk": 192}

B8 = [0, 1, 2, 3, 4, 7, 127, 128, 254, 255]
B16 = [0, 1, 2, 255, 256, 32767, 32768, 65534, 65535]
B32 = [0, 1, 255, 65535, 65536, 2**31 - 1, 2**31, 2**32 - 2, 2**32 - 1]


def _m():
    from aiortc import rtcsctptransport as m
    return m


hx, unhx = core.hx, core.unhx

# ---- independent CRC-32C (table driven, polynomial written MSB-first and reflected here) -------------

_TABLE = None


def crc_ref(data: bytes) -> int:
    global _TABLE
    if _TABLE is None:
        poly = int("{:032b}".format(0x1EDC6F41)[::-1], 2)  # reflect the Castagnoli polynomial
        t = []
        for i in range(256):
            c = i
            for _ in range(8):
                c = (c >> 1) ^ poly if c & 1 else c >> 1
            t.append(c)
        _TABLE = t
    c = 0xFFFFFFFF
    for b in data:
        c = _TABLE[(c ^ b) & 0xFF] ^ (c >> 8)
    return c ^ 0xFFFFFFFF


def fix_crc(pkt: bytes) -> bytes:
    if len(pkt) < 12:
        return pkt
    z = pkt[:8] + b"\0\0\0\0" + pkt[12:]
    return pkt[:8] + struct.pack("<L", crc_ref(z)) + pkt[12:]


# ---- guarded execution ---------------------------------------------------------------------------------

class _Hang(BaseException):
    pass


def _alarm(signum, frame):
    raise _Hang()


def guard(fn, show, seconds=3.0):
    """Run fn(); canonical Outcome.tag string."""
    old = signal.signal(signal.SIGALRM, _alarm)
    signal.setitimer(signal.ITIMER_REAL, seconds)
    try:
        r = fn()
        signal.setitimer(signal.ITIMER_REAL, 0)
        return "ok " + show(r)
    except _Hang:
        return "hang"
    except ValueError:
        signal.setitimer(signal.ITIMER_REAL, 0)
        return "ValueError"
    except struct.error:
        signal.setitimer(signal.ITIMER_REAL, 0)
        return "crash struct.error"
    except Exception as exc:
        signal.setitimer(signal.ITIMER_REAL, 0)
        return "crash " + type(exc).__name__
    finally:
        signal.setitimer(signal.ITIMER_REAL, 0)
        signal.signal(signal.SIGALRM, old)


# ---- chunk specs <-> repo objects <-> canonical strings ------------------------------------------------

def show_params(ps):
    return ",".join(f"{t}/{hx(bytes(v))}" for t, v in ps) if ps else "-"


def show_pairs(l):
    return ",".join(f"{a}/{b}" for a, b in l) if l else "-"


def show_nats(l):
    return ",".join(str(x) for x in l) if l else "-"


# spec key -> (public attribute, modulus) of the integer fields; list fields; bytes fields (per class)
_INIT_INTS = [("tag", "initiate_tag", 2**32), ("rwnd", "advertised_rwnd", 2**32), ("outs", "outbound_streams", 65536),
              ("ins", "inbound_streams", 65536), ("itsn", "initial_tsn", 2**32)]
INT_FIELDS = {"DataChunk": [("tsn", "tsn", 2**32), ("sid", "stream_id", 65536), ("sseq", "stream_seq", 65536),
                            ("proto", "protocol", 2**32)],
              "InitChunk": _INIT_INTS, "InitAckChunk": _INIT_INTS,
              "SackChunk": [("ctsn", "cumulative_tsn", 2**32), ("rwnd", "advertised_rwnd", 2**32)],
              "ShutdownChunk": [("ctsn", "cumulative_tsn", 2**32)], "ForwardTsnChunk": [("ctsn", "cumulative_tsn", 2**32)]}
LIST_FIELDS = {"SackChunk": [("gaps", "gaps", "pair"), ("dups", "duplicates", "u32")],
               "ForwardTsnChunk": [("streams", "streams", "pair")]}
BYTES_FIELDS = {"DataChunk": [("ud", "user_data")]}
for _n in ["CookieEchoChunk", "CookieAckChunk", "ShutdownAckChunk", "ShutdownCompleteChunk"]:
    BYTES_FIELDS[_n] = [("body", "body")]
for _n in ["HeartbeatChunk", "HeartbeatAckChunk", "AbortChunk", "ErrorChunk", "ReconfigChunk", "InitChunk", "InitAckChunk"]:
    LIST_FIELDS[_n] = [("params", "params", "param")]


def _elem(kind, x):
    """spec element -> the Python value the library stores."""
    if kind == "param":
        return (x[0], unhx(x[1]))
    if kind == "pair":
        return (x[0], x[1])
    return x


def build_list(kind, entries, share=False):
    """The Python list the library stores for a spec list.  share=True: equal entries are ONE object occurring several
    times (`l = [p, q, p]`); share=False: every entry is built on its own (equal, not identical)."""
    if not share:
        return [_elem(kind, x) for x in entries]
    seen = {}
    return [seen.setdefault(repr(x), _elem(kind, x)) for x in entries]


def assign_fields(c, spec, share=False):
    """Overwrite every public wire field of the LIVE object `c` with the values of `spec` (same class)."""
    name = spec["cls"]
    c.flags = spec["flags"]
    for key, attr, _ in INT_FIELDS.get(name, []):
        setattr(c, attr, spec[key])
    for key, attr in BYTES_FIELDS.get(name, []):
        setattr(c, attr, unhx(spec[key]))
    for key, attr, kind in LIST_FIELDS.get(name, []):
        setattr(c, attr, build_list(kind, spec[key], share))
    return c


def build_chunk(spec, share=False):
    m = _m()
    name = spec["cls"]
    cls = getattr(m, name)
    if name in PLAIN:
        return cls(flags=spec["flags"], body=unhx(spec["body"]))
    return assign_fields(cls(flags=spec["flags"]), spec, share)


# ---- the hostile owner (mirrors Model/Sctp/WireOps.lean `hostile*`) -------------------------------------
# every mutable part of an object is changed as a function of k: ints += k (mod field width), bytes get one
# more byte, lists are cleared (k%3 = 0) / appended to (1) / get their first element overwritten (2) -
# IN PLACE when (k//3) is even (the idiom `chunk.params.append(...)` of the library), by assigning a new
# list otherwise.

def hostile_elem(kind, k):
    if kind == "param":
        return [k % 65536, hx(bytes([k % 256]) * (k % 5))]
    if kind == "pair":
        return [k % 65536, (k + 1) % 65536]
    if kind == "u16":
        return k % 65536
    return k % 2**32


def hostile_list_spec(k, x, l):
    if k % 3 == 0:
        return []
    if k % 3 == 1:
        return list(l) + [x]
    return [x] + list(l[1:])


def hostile_list_obj(obj, attr, k, x):
    cur = getattr(obj, attr)
    if (k // 3) % 2 == 0:
        try:
            if k % 3 == 0:
                cur.clear()
            elif k % 3 == 1 or len(cur) == 0:
                cur.append(x)
            else:
                cur[0] = x
            return
        except (AttributeError, TypeError):
            pass  # an immutable sequence: the owner can only replace it
    setattr(obj, attr, hostile_list_spec(k, x, list(cur)))


def hostile_spec(spec, k):
    """The value an object with the fields of `spec` has after the hostile owner (pure, on specs)."""
    name = spec["cls"]
    out = dict(spec, flags=(spec["flags"] + k) % 256)
    for key, _, mod in INT_FIELDS.get(name, []):
        out[key] = (spec[key] + k) % mod
    for key, _ in BYTES_FIELDS.get(name, []):
        out[key] = hx(unhx(spec[key]) + bytes([k % 256]))
    for key, _, kind in LIST_FIELDS.get(name, []):
        out[key] = hostile_list_spec(k, hostile_elem(kind, k), [list(x) if isinstance(x, (list, tuple)) else x for x in spec[key]])
    return out


def hostile_obj(c, k):
    """The same change on a live object of the library, through its public attributes only."""
    name = type(c).__name__
    c.flags = (c.flags + k) % 256
    for _, attr, mod in INT_FIELDS.get(name, []):
        setattr(c, attr, (getattr(c, attr) + k) % mod)
    for _, attr in BYTES_FIELDS.get(name, []):
        setattr(c, attr, bytes(getattr(c, attr)) + bytes([k % 256]))
    for _, attr, kind in LIST_FIELDS.get(name, []):
        hostile_list_obj(c, attr, k, _elem(kind, hostile_elem(kind, k)))


# ---- independent reference encoder (RFC 4960 §3 / RFC 3758 / RFC 6525 wire layout, straight from a spec) --

def ref_params(ps) -> bytes:
    out = b""
    for i, (t, v) in enumerate(ps):
        b = unhx(v)
        out += struct.pack("!HH", t, len(b) + 4) + b
        if i < len(ps) - 1:
            out += bytes((-len(b)) % 4)
    return out


def ref_chunk(spec) -> bytes:
    name = spec["cls"]
    if name in PLAIN:
        body = unhx(spec["body"])
    elif name in PARAMS:
        body = ref_params(spec["params"])
    elif name == "DataChunk":
        body = struct.pack("!LHHL", spec["tsn"], spec["sid"], spec["sseq"], spec["proto"]) + unhx(spec["ud"])
    elif name in INIT:
        body = struct.pack("!LLHHL", spec["tag"], spec["rwnd"], spec["outs"], spec["ins"], spec["itsn"]) + ref_params(spec["params"])
    elif name == "SackChunk":
        body = struct.pack("!LLHH", spec["ctsn"], spec["rwnd"], len(spec["gaps"]), len(spec["dups"]))
        body += b"".join(struct.pack("!HH", a, b) for a, b in spec["gaps"]) + b"".join(struct.pack("!L", t) for t in spec["dups"])
    elif name == "ShutdownChunk":
        body = struct.pack("!L", spec["ctsn"])
    else:
        body = struct.pack("!L", spec["ctsn"]) + b"".join(struct.pack("!HH", a, b) for a, b in spec["streams"])
    return struct.pack("!BBH", RFC_TYPE[name], spec["flags"], len(body) + 4) + body + bytes((-len(body)) % 4)


def ref_packet(sp, dp, tag, specs) -> bytes:
    return fix_crc(struct.pack("!HHL", sp, dp, tag) + b"\0\0\0\0" + b"".join(ref_chunk(x) for x in specs))


def header_in_range(sp, dp, tag) -> bool:
    return 0 <= sp < 65536 and 0 <= dp < 65536 and 0 <= tag < 2**32


def chunk_str(c) -> str:
    name = type(c).__name__
    f = c.flags
    if name in PLAIN:
        return f"{name}:{f}:{hx(bytes(c.body))}"
    if name in PARAMS:
        return f"{name}:{f}:{show_params(c.params)}"
    if name == "DataChunk":
        return f"{name}:{f}:{c.tsn}:{c.stream_id}:{c.stream_seq}:{c.protocol}:{hx(bytes(c.user_data))}"
    if name in INIT:
        return (f"{name}:{f}:{c.initiate_tag}:{c.advertised_rwnd}:{c.outbound_streams}:{c.inbound_streams}:"
                f"{c.initial_tsn}:{show_params(c.params)}")
    if name == "SackChunk":
        return f"{name}:{f}:{c.cumulative_tsn}:{c.advertised_rwnd}:{show_pairs(c.gaps)}:{show_nats(c.duplicates)}"
    if name == "ShutdownChunk":
        return f"{name}:{f}:{c.cumulative_tsn}"
    if name == "ForwardTsnChunk":
        return f"{name}:{f}:{c.cumulative_tsn}:{show_pairs(c.streams)}"
    return f"?{name}"


def spec_str(spec) -> str:
    """Canonical string straight from the spec (no repo code involved)."""
    name, f = spec["cls"], spec["flags"]
    sp = lambda ps: ",".join(f"{t}/{v}" for t, v in ps) if ps else "-"
    if name in PLAIN:
        return f"{name}:{f}:{spec['body']}"
    if name in PARAMS:
        return f"{name}:{f}:{sp(spec['params'])}"
    if name == "DataChunk":
        return f"{name}:{f}:{spec['tsn']}:{spec['sid']}:{spec['sseq']}:{spec['proto']}:{spec['ud']}"
    if name in INIT:
        return (f"{name}:{f}:{spec['tag']}:{spec['rwnd']}:{spec['outs']}:{spec['ins']}:{spec['itsn']}:"
                f"{sp(spec['params'])}")
    if name == "SackChunk":
        return f"{name}:{f}:{spec['ctsn']}:{spec['rwnd']}:{show_pairs(spec['gaps'])}:{show_nats(spec['dups'])}"
    if name == "ShutdownChunk":
        return f"{name}:{f}:{spec['ctsn']}"
    return f"{name}:{f}:{spec['ctsn']}:{show_pairs(spec['streams'])}"


def spec_in_range(spec) -> bool:
    """Independent statement of 'all field values in wire range' (incl. the 16-bit chunk length)."""
    name = spec["cls"]
    if not 0 <= spec["flags"] < 256:
        return False

    def plen(ps):
        n = 0
        for i, (t, v) in enumerate(ps):
            l = len(unhx(v)) + 4
            if not (0 <= t < 65536 and l < 65536):
                return None
            n += l + ((-l) % 4 if i < len(ps) - 1 else 0)
        return n

    u32 = lambda x: 0 <= x < 2**32
    u16 = lambda x: 0 <= x < 65536
    if name in PLAIN:
        return len(unhx(spec["body"])) + 4 < 65536
    if name in PARAMS:
        n = plen(spec["params"])
        return n is not None and n + 4 < 65536
    if name == "DataChunk":
        return (u32(spec["tsn"]) and u16(spec["sid"]) and u16(spec["sseq"]) and u32(spec["proto"])
                and 16 + len(unhx(spec["ud"])) < 65536)
    if name in INIT:
        n = plen(spec["params"])
        return (n is not None and n + 20 < 65536 and u32(spec["tag"]) and u32(spec["rwnd"]) and u16(spec["outs"])
                and u16(spec["ins"]) and u32(spec["itsn"]))
    if name == "SackChunk":
        return (u32(spec["ctsn"]) and u32(spec["rwnd"]) and 16 + 4 * (len(spec["gaps"]) + len(spec["dups"])) < 65536
                and all(u16(a) and u16(b) for a, b in spec["gaps"]) and all(u32(t) for t in spec["dups"]))
    if name == "ShutdownChunk":
        return u32(spec["ctsn"])
    return (u32(spec["ctsn"]) and all(u16(a) and u16(b) for a, b in spec["streams"])
            and 8 + 4 * len(spec["streams"]) < 65536)


def show_parsed(r) -> str:
    sp, dp, tag, chunks = r
    return f"{sp} {dp} {tag} " + ("|".join(chunk_str(c) for c in chunks) if chunks else "-")


# ---- generators ----------------------------------------------------------------------------------------

def pick(rng, B, M, over=0.0):
    x = rng.random()
    if x < over:
        return M + rng.choice([0, 1, 7])
    if x < 0.5:
        return rng.choice(B)
    return rng.randrange(M)


def rbytes(rng, n):
    mode = rng.randrange(4)
    if mode == 0:
        return bytes(n)
    if mode == 1:
        return bytes([255]) * n
    return bytes(rng.randrange(256) for _ in range(n))


def gen_len(rng, big=False):
    x = rng.random()
    if x < 0.45:
        return rng.randrange(0, 9)
    if x < 0.8:
        return rng.randrange(0, 64)
    if x < 0.97 or not big:
        return rng.choice([1196, 1197, 1198, 1199, 1200, rng.randrange(1, 1201)])
    return rng.choice([65515, 65516, 65519, 65520, 65527, 65528, 65530, 65531, 65532, 65533])


# ---- collection shapes (round 4) -------------------------------------------------------------------------
# Code that walks a collection may depend on its SHAPE rather than on its elements: "is this the last entry" decided by
# value (`x != l[-1]`), by `l.index(x)`, by `x in seen`, by identity; sorting / de-duplicating on the way; special cases
# for one or no entry.  Independently drawn entries are never equal, so a fraction of every generated list is rewritten.

SHAPES = ["earlier=last", "first=last", "last-twice", "adjacent", "two-equal", "all-equal", "block-twice", "palindrome",
          "sorted", "reversed", "same-key", "single", "pair"]


def shape_list(rng, lst, fresh, shape=None, limit=None):
    """A list of the same kind of entries as `lst` with the given (or a random) shape; `fresh()` draws a new entry."""
    shape = shape or rng.choice(SHAPES)
    l = [e for e in lst]
    while len(l) < 3:
        l.append(fresh())
    cp = lambda e: list(e) if isinstance(e, list) else e      # equal, not the same JSON object
    if shape == "earlier=last":
        i = rng.randrange(len(l) - 1)
        l[i] = cp(l[-1])
    elif shape == "first=last":
        l[-1] = cp(l[0])
    elif shape == "last-twice":
        l.append(cp(l[-1]))
    elif shape == "adjacent":
        i = rng.randrange(len(l))
        l.insert(i, cp(l[i]))
    elif shape == "two-equal":
        i, j = rng.sample(range(len(l)), 2)
        l[j] = cp(l[i])
    elif shape == "all-equal":
        l = [cp(l[0]) for _ in range(rng.choice([2, 2, 3, 4, 5, len(l)]))]
    elif shape == "block-twice":
        l = l[:rng.choice([1, 2, 3, len(l)])]
        l = l + [cp(e) for e in l]
    elif shape == "palindrome":
        l = l + [cp(e) for e in l[-2::-1]]
    elif shape in ("sorted", "reversed"):
        key = lambda e: ((e[0], len(e[1]) if isinstance(e[1], str) else e[1]) if isinstance(e, list)
                         else repr(sorted(e.items())) if isinstance(e, dict) else e)
        l = sorted(l, key=key, reverse=(shape == "reversed"))
    elif shape == "same-key" and isinstance(l[0], list):
        l = [[l[0][0], e[1]] for e in l]
    elif shape == "single":
        l = l[:1]
    elif shape == "pair":
        l = [l[0], cp(l[0])] if rng.random() < 0.5 else l[:2]
    if limit is not None and len(l) > limit:
        l = l[:limit - 1] + [cp(l[0])]
    return l


def _gen_param(rng, over=0.0, l=None):
    if l is None:
        l = rng.randrange(0, 9) if rng.random() < 0.7 else rng.randrange(0, 70)
    return [pick(rng, B16 + [7, 13, 16, 17, 0x8008, 0xC000], 65536, over), hx(rbytes(rng, l))]


SHAPED = 0.3    # fraction of the generated lists that get a shape


def equal_entry_sweep(rng, fresh_for_len):
    """Parameter lists of 2..4 entries in which the entries at positions i < j are EQUAL, for every (i, j) and every length
    residue 0..3 of the repeated entry (the other entries get random residues); plus all-equal lists of 2..5 entries."""
    out = []
    for n in (2, 3, 4):
        for i in range(n):
            for j in range(i + 1, n):
                for r in range(4):
                    l = [fresh_for_len(rng.randrange(0, 9)) for _ in range(n)]
                    l[i] = fresh_for_len(r + 4 * rng.randrange(0, 3))
                    l[j] = list(l[i])
                    out.append(l)
    for n in (2, 3, 5):
        for r in range(4):
            e = fresh_for_len(r + 4 * rng.randrange(0, 2))
            out.append([list(e) for _ in range(n)])
    return out



def gen_params(rng, big=False, over=0.0):
    if rng.random() < SHAPED:
        # few entries, every length residue: the padding between two entries is where shapes matter
        base = [_gen_param(rng, over, rng.randrange(0, 9)) for _ in range(rng.choice([0, 1, 2, 3, 4, 6]))]
        return shape_list(rng, base, lambda: _gen_param(rng, over, rng.randrange(0, 9)))
    n = rng.choice([0, 1, 1, 2, 2, 3, 5, rng.randrange(6, 40)])
    ps = []
    for _ in range(n):
        l = rng.randrange(0, 9) if rng.random() < 0.7 else rng.randrange(0, 70)
        ps.append([pick(rng, B16 + [7, 13, 16, 17, 0x8008, 0xC000], 65536, over), hx(rbytes(rng, l))])
    if big and rng.random() < 0.03:
        ps.append([1, hx(bytes(rng.choice([65000, 65507, 65508, 65527, 65528, 65531, 65532])))])
    return ps


def gen_pairs(rng, big=False, over=0.0):
    n = rng.choice([0, 1, 2, 3, rng.randrange(0, 30), rng.randrange(30, 400)])
    if big and rng.random() < 0.03:
        n = rng.choice([8000, 16378, 16379, 16380])
    fresh = lambda: [pick(rng, B16, 65536, over / 4), pick(rng, B16, 65536, over / 4)]
    if n < 8000 and rng.random() < SHAPED:
        return shape_list(rng, [fresh() for _ in range(min(n, rng.choice([0, 1, 2, 3, 5, 40])))], fresh)
    return [fresh() for _ in range(n)]


def gen_spec(rng, name=None, big=False, over=0.0):
    name = name or rng.choice(ALL)
    # out-of-range values only in a minority of specs (otherwise long lists are almost never in range)
    over = (0.15 if rng.random() < 2.5 * over else 0.0)
    spec = {"cls": name, "flags": pick(rng, B8, 256, over)}
    if name in PLAIN:
        spec["body"] = hx(rbytes(rng, gen_len(rng, big)))
    elif name in PARAMS:
        spec["params"] = gen_params(rng, big, over)
    elif name == "DataChunk":
        spec.update(tsn=pick(rng, B32, 2**32, over), sid=pick(rng, B16, 65536, over), sseq=pick(rng, B16, 65536, over),
                    proto=pick(rng, B32 + [50, 51, 53, 56, 57], 2**32, over), ud=hx(rbytes(rng, gen_len(rng, big))))
    elif name in INIT:
        spec.update(tag=pick(rng, B32, 2**32, over), rwnd=pick(rng, B32, 2**32, over), outs=pick(rng, B16, 65536, over),
                    ins=pick(rng, B16, 65536, over), itsn=pick(rng, B32, 2**32, over), params=gen_params(rng, big, over))
    elif name == "SackChunk":
        gaps = gen_pairs(rng, big, over)
        nd = rng.choice([0, 1, 2, rng.randrange(0, 30), rng.randrange(30, 400)])
        if big and rng.random() < 0.03:
            nd = max(0, rng.choice([16379, 16380]) - len(gaps))
        fresh = lambda: pick(rng, B32, 2**32, over / 4)
        dups = [fresh() for _ in range(nd)]
        if nd < 8000 and rng.random() < SHAPED:
            dups = shape_list(rng, dups[:rng.choice([0, 1, 2, 3, 5, 40])], fresh)
        spec.update(ctsn=pick(rng, B32, 2**32, over), rwnd=pick(rng, B32, 2**32, over), gaps=gaps, dups=dups)
    elif name == "ShutdownChunk":
        spec["ctsn"] = pick(rng, B32, 2**32, over)
    else:
        spec.update(ctsn=pick(rng, B32, 2**32, over), streams=gen_pairs(rng, big, over))
    return spec


def gen_header(rng, over=0.0):
    return pick(rng, B16 + [5000], 65536, over), pick(rng, B16 + [5000], 65536, over), pick(rng, B32, 2**32, over)


def shrink_spec(spec):
    """Smaller variants of a chunk spec."""
    out = []

    def w(**kw):
        s = dict(spec)
        s.update(kw)
        out.append(s)

    for k in ("body", "ud"):
        if k in spec and spec[k] != "-":
            b = unhx(spec[k])
            for nb in (b[: len(b) // 2], b[:-1], bytes(len(b))):
                if nb != b:
                    w(**{k: hx(nb)})
    for k in ("params", "gaps", "dups", "streams"):
        if k in spec and spec[k]:
            l = spec[k]
            w(**{k: l[: len(l) // 2]})
            w(**{k: l[1:]})
            w(**{k: l[:-1]})
            if 3 <= len(l) <= 8:
                for i in range(1, len(l) - 1):
                    w(**{k: l[:i] + l[i + 1:]})
    if spec.get("params"):
        for i, (t, v) in enumerate(spec["params"]):
            b = unhx(v)
            if b:
                ps = [list(p) for p in spec["params"]]
                ps[i][1] = hx(b[:-1])
                w(params=ps)
    for k in ("flags", "tsn", "sid", "sseq", "proto", "tag", "rwnd", "outs", "ins", "itsn", "ctsn"):
        if spec.get(k):
            w(**{k: 0})
    return out


# ---- isolation -----------------------------------------------------------------------------------------
# Cases now contain a hostile owner who modifies what the library returned.  If the library keeps hidden state
# (a memo, a shared list) that state must not leak from one evaluation into the next one, otherwise a shrunk or
# replayed case would fail (or pass) because of what an EARLIER case did.  All evaluations of such components
# therefore run in a forked child: the bulk of a run in one child, every single evaluation (shrinking, replay) in
# its own child.  The parent never runs a hostile step, so every child starts from a clean library state.

class Isolated(Component):
    def _impl(self, case) -> str:
        raise NotImplementedError

    def _impl_all(self, cases):
        outs = []
        for c in cases:
            try:
                outs.append(self._impl(c))
            except Exception as exc:
                outs.append("HARNESS-EXC " + type(exc).__name__ + ": " + str(exc)[:200])
        return outs

    def impl_many(self, cases):
        import json
        import os
        _m()  # import the library in the parent (children inherit it)
        try:
            r, w = os.pipe()
            pid = os.fork()
        except OSError:
            return self._impl_all(cases)
        if pid == 0:
            code = 1
            try:
                os.close(r)
                data = json.dumps(self._impl_all(cases)).encode()
                with os.fdopen(w, "wb") as f:
                    f.write(data)
                code = 0
            finally:
                os._exit(code)
        os.close(w)
        with os.fdopen(r, "rb") as f:
            data = f.read()
        os.waitpid(pid, 0)
        try:
            outs = json.loads(data.decode())
            assert len(outs) == len(cases)
            return outs
        except Exception:
            return ["HARNESS-EXC child process failed"] * len(cases)

    def impl(self, case):
        return self.impl_many([case])[0]


# ---- components ----------------------------------------------------------------------------------------

class Crc(Component):
    name = "crc"
    theorems = ["crc_burst_partial", "C08_full_false", "crc32c_check_value"]

    def corpus(self):
        return [{"d": hx(b"123456789")}, {"d": "-"}, {"d": "00"}, {"d": "ff" * 4}, {"d": "00" * 32}]

    def cases(self, rng, tier):
        n = 300 if tier == "quick" else 6000
        out = []
        for L in range(0, 70):
            out.append({"d": hx(rbytes(rng, L))})
        for _ in range(n):
            out.append({"d": hx(rbytes(rng, rng.choice([rng.randrange(0, 40), rng.randrange(0, 1300)])))})
        return out

    def model_line(self, case):
        return "sctpwire crc " + case["d"]

    def impl(self, case):
        return str(_m().crc32c(unhx(case["d"])))

    def oracle(self, case, impl_out):
        want = crc_ref(unhx(case["d"]))
        if impl_out != str(want):
            return f"crc32c({case['d'][:40]}…) = {impl_out}, CRC-32C (RFC 3309) is {want}"
        return None

    def label(self, case, impl_out):
        return "len%4=" + str(len(unhx(case["d"])) % 4)

    def shrink(self, case):
        b = unhx(case["d"])
        return [{"d": hx(x)} for x in (b[: len(b) // 2], b[1:], b[:-1]) if x != b]


class Roundtrip(Isolated):
    name = "roundtrip"
    theorems = ["packet_roundtrip", "packet_reserialize", "serialize_wf"]

    def corpus(self):
        return [
            {"sp": 5000, "dp": 5000, "tag": 0, "chunk": {"cls": "CookieAckChunk", "flags": 0, "body": "-"}},
            {"sp": 5000, "dp": 5000, "tag": 1, "chunk": {"cls": "DataChunk", "flags": 3, "tsn": 1, "sid": 2, "sseq": 3,
                                                          "proto": 51, "ud": "61"}},
            {"sp": 1, "dp": 2, "tag": 3, "chunk": {"cls": "InitChunk", "flags": 0, "tag": 1, "rwnd": 2, "outs": 3, "ins": 4,
                                                    "itsn": 5, "params": [[49152, "-"], [32776, "82c0"]]}},
            # repeated entries: INIT with the supported-extensions parameter twice (around another one), RE-CONFIG with two
            # identical outgoing-reset requests (RFC 6525 §4.1, one stream, 14 bytes), HEARTBEAT with the same info twice
            {"sp": 5000, "dp": 5000, "tag": 0, "share": True,
             "chunk": {"cls": "InitChunk", "flags": 0, "tag": 1, "rwnd": 131072, "outs": 65535, "ins": 65535, "itsn": 5,
                       "params": [[32776, "82c0"], [49152, "-"], [32776, "82c0"]]}},
            {"sp": 5000, "dp": 5000, "tag": 7,
             "chunk": {"cls": "ReconfigChunk", "flags": 0,
                       "params": [[13, "000000010000000000000005" + "0001"], [13, "000000010000000000000005" + "0001"]]}},
            {"sp": 5000, "dp": 5000, "tag": 7, "share": True,
             "chunk": {"cls": "HeartbeatChunk", "flags": 0, "params": [[1, "0102030405"], [1, "0102030405"]]}},
            {"sp": 5000, "dp": 5000, "tag": 7,
             "chunk": {"cls": "SackChunk", "flags": 0, "ctsn": 9, "rwnd": 1, "gaps": [[2, 3], [2, 3]], "dups": [7, 7, 7]}},
            {"sp": 5000, "dp": 5000, "tag": 7, "share": True,
             "chunk": {"cls": "ForwardTsnChunk", "flags": 0, "ctsn": 9, "streams": [[1, 2], [3, 4], [1, 2]]}},
        ]

    def cases(self, rng, tier):
        out = []
        reps = 3 if tier == "quick" else 12
        # every class x every length residue, systematically
        for name in ALL:
            for _ in range(28 * reps):
                sp, dp, tag = gen_header(rng, 0.02)
                out.append({"sp": sp, "dp": dp, "tag": tag, "chunk": gen_spec(rng, name, big=False, over=0.04)})
        for L in list(range(0, 13)) + [1197, 1198, 1199, 1200]:
            sp, dp, tag = gen_header(rng)
            s = gen_spec(rng, "DataChunk")
            s["ud"] = hx(rbytes(rng, L))
            out.append({"sp": sp, "dp": dp, "tag": tag, "chunk": s})
            for name in ("HeartbeatChunk", "InitAckChunk"):
                s = gen_spec(rng, name)
                s["params"] = s["params"][:2] + [[7, hx(rbytes(rng, L % 64))]]
                out.append({"sp": sp, "dp": dp, "tag": tag, "chunk": s})
        # a few at the 16-bit length limit
        for _ in range(12 if tier == "quick" else 300):
            sp, dp, tag = gen_header(rng)
            out.append({"sp": sp, "dp": dp, "tag": tag, "chunk": gen_spec(rng, None, big=True)})
        # round 4: equal entries at every pair of positions x every length residue, for every class with a parameter list
        # (quick: each list goes to two of the seven classes); every shape for the gap / duplicate / stream lists
        classes = PARAMS + INIT
        for n, l in enumerate(equal_entry_sweep(rng, lambda L: _gen_param(rng, 0.0, L))):
            for name in (classes if tier != "quick" else [classes[n % 7], classes[(n + 3) % 7]]):
                s = gen_spec(rng, name)
                s["params"] = [list(e) for e in l]
                sp, dp, tag = gen_header(rng)
                out.append({"sp": sp, "dp": dp, "tag": tag, "chunk": s})
        pair = lambda: [pick(rng, B16, 65536), pick(rng, B16, 65536)]
        u32 = lambda: pick(rng, B32, 2**32)
        for shape in SHAPES:
            for _ in range(1 if tier == "quick" else 6):
                sp, dp, tag = gen_header(rng)
                s = gen_spec(rng, "SackChunk")
                s["gaps"] = shape_list(rng, [pair() for _ in range(rng.randrange(0, 5))], pair, shape)
                s["dups"] = shape_list(rng, [u32() for _ in range(rng.randrange(0, 5))], u32, rng.choice(SHAPES))
                out.append({"sp": sp, "dp": dp, "tag": tag, "chunk": s})
                s = gen_spec(rng, "SackChunk")
                s["dups"] = shape_list(rng, [u32() for _ in range(rng.randrange(0, 5))], u32, shape)
                out.append({"sp": sp, "dp": dp, "tag": tag, "chunk": s})
                s = gen_spec(rng, "ForwardTsnChunk")
                s["streams"] = shape_list(rng, [pair() for _ in range(rng.randrange(0, 5))], pair, shape)
                out.append({"sp": sp, "dp": dp, "tag": tag, "chunk": s})
        # object re-use: two thirds of the cases serialise an object that carried (and serialised) the values of
        # another generated case of the same class before; every case has a hostile owner between two parses
        for c in out:
            if rng.random() < 0.67:
                c["prev"] = gen_spec(rng, c["chunk"]["cls"], big=False, over=0.02)
            c["k"] = rng.randrange(1, 13)
            # equal list entries are one Python object occurring several times (True) or separately built ones (False)
            c["share"] = rng.random() < 0.5
        return out

    def model_line(self, case):
        return f"sctpwire roundtrip {case['sp']} {case['dp']} {case['tag']} {spec_str(case['chunk'])}"

    def _run(self, case):
        m = _m()
        if case.get("prev") is not None:
            # the object has a past: it was built with other values and has been on the wire with them
            chunk = build_chunk(case["prev"])
            guard(lambda: m.serialize_packet(case["sp"], case["dp"], case["tag"], chunk), hx)
            guard(lambda: bytes(chunk), hx)
            assign_fields(chunk, case["chunk"], case.get("share", False))
        else:
            chunk = build_chunk(case["chunk"], case.get("share", False))
        ser = guard(lambda: m.serialize_packet(case["sp"], case["dp"], case["tag"], chunk), hx)
        if not ser.startswith("ok "):
            return ser, None, None
        data = unhx(ser[3:])
        box = {}

        def parse():
            box["r"] = m.parse_packet(data)
            return box["r"]

        par = guard(parse, show_parsed)
        re = "none"
        if par.startswith("ok "):
            sp, dp, tag, chunks = box["r"]
            re = "+".join(guard(lambda c=c: m.serialize_packet(sp, dp, tag, c), hx) for c in chunks)
            # hostile owner: every mutable part of what the parser returned (and of the sender's object) is modified,
            # then the SAME bytes are parsed again: the result must not have changed
            k = case.get("k", 1)
            for c in chunks:
                hostile_obj(c, k)
            hostile_obj(chunk, k)
            par2 = guard(lambda: m.parse_packet(data), show_parsed)
            if par2 != par:
                re += " => REPARSE " + par2
        return ser, par, re

    def _impl(self, case):
        ser, par, re = self._run(case)
        if par is None:
            return ser
        return f"{ser} => {par} => {re}"

    def oracle(self, case, impl_out):
        spec = case["chunk"]
        hdr_ok = 0 <= case["sp"] < 65536 and 0 <= case["dp"] < 65536 and 0 <= case["tag"] < 2**32
        if not (hdr_ok and spec_in_range(spec)):
            if impl_out != "crash struct.error":
                return f"field out of wire range but serialize_packet gave {impl_out[:60]}"
            return None
        parts = impl_out.split(" => ")
        past = (" (the chunk object was serialised with other field values before: " + spec_str(case["prev"])[:80] + ")"
                if case.get("prev") is not None else "")
        if len(parts) not in (3, 4) or not parts[0].startswith("ok "):
            return f"serialize_packet failed on in-range chunk: {impl_out[:80]}{past}"
        data = unhx(parts[0][3:])
        want = f"ok {case['sp']} {case['dp']} {case['tag']} {spec_str(spec)}"
        if parts[1] != want:
            return f"parse_packet(serialize_packet(c)) = {parts[1][:200]} ≠ {want[:200]}{past}"
        if parts[2] != parts[0]:
            return "re-serialising the parsed packet does not give identical bytes"
        if len(parts) == 4:
            return (f"parsing the same bytes again after the owner of the first result modified it (k={case.get('k', 1)}) "
                    f"gives {parts[3][8:200]} ≠ {parts[1][:200]}")
        # structural facts of the wire image that do not depend on the parser
        if len(data) % 4 != 0:
            return f"serialised packet length {len(data)} is not a multiple of 4"
        if struct.unpack_from("<L", data, 8)[0] != crc_ref(data[:8] + b"\0\0\0\0" + data[12:]):
            return "checksum field is not the CRC-32C of the packet with zeroed checksum"
        clen = struct.unpack_from("!H", data, 14)[0]
        if not (len(data) - 12 - 3 <= clen <= len(data) - 12) or any(data[12 + clen:]):
            return f"chunk length field {clen} / padding inconsistent with packet length {len(data)}"
        if data[12] != RFC_TYPE[spec["cls"]] or data[13] != spec["flags"]:
            return f"chunk type / flags byte wrong ({data[12]}, {data[13]}); RFC 4960/3758/6525 type of {spec['cls']} is {RFC_TYPE[spec['cls']]}"
        ref = ref_packet(case["sp"], case["dp"], case["tag"], [spec])
        if data != ref:
            i = next((j for j in range(min(len(data), len(ref))) if data[j] != ref[j]), min(len(data), len(ref)))
            return (f"serialize_packet(c) ({len(data)} bytes) is not the RFC wire image ({len(ref)} bytes) of the chunk's current "
                    f"field values: first difference at byte {i}: …{hx(data[i:i + 12])} ≠ …{hx(ref[i:i + 12])}{past}")
        return None

    def label(self, case, impl_out):
        spec = case["chunk"]
        if not impl_out.startswith("ok "):
            return spec["cls"] + ":" + impl_out[:24]
        n = (len(unhx(impl_out.split(" ")[1])) - 12)
        size = "big" if n > 20000 else "mid" if n > 400 else "small"
        extra = ""
        if "ud" in spec:
            extra = ":ud%4=" + str(len(unhx(spec["ud"])) % 4)
        if "params" in spec:
            np_ = len(spec["params"])
            extra = ":np=" + (str(np_) if np_ < 4 else "4-8" if np_ <= 8 else "9+") + ":last%4=" + (
                str(len(unhx(spec["params"][-1][1])) % 4) if spec["params"] else "-")
        return spec["cls"] + ":ok:" + size + extra + (":reused" if case.get("prev") is not None else "")

    def nontrivial(self, case, impl_out):
        return True

    def shrink(self, case):
        out = []
        if case.get("prev") is not None:
            out.append({k: v for k, v in case.items() if k != "prev"})
            out += [dict(case, prev=s) for s in shrink_spec(case["prev"])]
        if case.get("k", 1) > 3:
            out += [dict(case, k=1), dict(case, k=2), dict(case, k=3)]
        out += [dict(case, chunk=s) for s in shrink_spec(case["chunk"])]
        for k in ("sp", "dp", "tag"):
            if case[k]:
                out.append(dict(case, **{k: 0}))
        return out


class Params(Isolated):
    name = "params"
    theorems = ["decode_encode_params", "decodeParams_total", "decodeParamsOrig_hang"]

    def corpus(self):
        return [{"dec": "00010000"}, {"dec": "0001000400020000"}, {"dec": "00010001"}, {"dec": "00010003aabbccdd"},
                {"dec": "0001ffff00"}, {"dec": "-"}, {"dec": "000100"}, {"enc": []}, {"enc": [[1, "-"]]}]

    def cases(self, rng, tier):
        out = []
        n = 600 if tier == "quick" else 8000
        for _ in range(n):
            out.append({"enc": gen_params(rng, big=(tier != "quick"), over=0.03)})
        m = _m()
        for _ in range(n):
            ps = [(t, unhx(v)) for t, v in gen_params(rng) if t < 65536]
            b = bytearray(m.encode_params(ps) if rng.random() < 0.8 else rbytes(rng, rng.randrange(0, 24)))
            mode = rng.randrange(6)
            if b and mode == 0:
                del b[rng.randrange(len(b)):]
            elif len(b) >= 4 and mode == 1:
                # length field of some 4-aligned slot := small / large
                pos = 4 * rng.randrange(len(b) // 4)
                b[pos + 2:pos + 4] = struct.pack("!H", rng.choice([0, 1, 2, 3, 4, 5, 8, len(b), len(b) + 1, 65535]))
            elif b and mode == 2:
                b[rng.randrange(len(b))] ^= 1 << rng.randrange(8)
            elif mode == 3:
                b += rbytes(rng, rng.randrange(1, 6))
            out.append({"dec": hx(bytes(b))})
        # round 4: equal entries at every pair of positions x every length residue, encoded and (the reference encoding)
        # decoded
        for l in equal_entry_sweep(rng, lambda L: _gen_param(rng, 0.0, L)):
            out.append({"enc": l})
            out.append({"dec": hx(ref_params(l))})
        for c in out:
            c["k"] = rng.randrange(1, 13)
            if "enc" in c and rng.random() < 0.5:
                c["prev"] = gen_params(rng)
            if "enc" in c:
                c["share"] = rng.random() < 0.5
        return out

    def model_line(self, case):
        if "dec" in case:
            return "sctpwire decparams " + case["dec"]
        return "sctpwire encparams " + (",".join(f"{t}/{v}" for t, v in case["enc"]) if case["enc"] else "-")

    def _impl(self, case):
        m = _m()
        k = case.get("k", 1)
        if "dec" in case:
            # decode twice; the owner of the first list modifies it in between
            body = unhx(case["dec"])
            box = {}

            def dec():
                box["r"] = m.decode_params(body)
                return box["r"]

            first = guard(dec, show_params)
            if "r" in box:
                holder = type("Holder", (), {})()
                holder.l = box["r"]
                hostile_list_obj(holder, "l", k, _elem("param", hostile_elem("param", k)))
            second = guard(lambda: m.decode_params(bytes(body)), show_params)
            return first if second == first else first + " => AGAIN " + second
        ps = build_list("param", case["enc"], case.get("share", False))
        if case.get("prev") is not None:
            # the same list object was encoded with other contents before
            live = [(t, unhx(v)) for t, v in case["prev"]]
            guard(lambda: m.encode_params(live), hx)
            live[:] = ps
            ps = live
        return guard(lambda: m.encode_params(ps), hx)

    def oracle(self, case, impl_out):
        m = _m()
        if " => AGAIN " in impl_out:
            first, second = impl_out.split(" => AGAIN ")
            return (f"decode_params({case['dec'][:60]}) called again after the owner of the first list modified it "
                    f"(k={case.get('k', 1)}) gives {second[:120]} ≠ {first[:120]}")
        if "dec" in case:
            if not (impl_out.startswith("ok ") or impl_out == "ValueError"):
                return f"decode_params({case['dec'][:60]}) → {impl_out} (must return or raise ValueError)"
            return None
        ps = [(t, unhx(v)) for t, v in case["enc"]]
        inr = all(0 <= t < 65536 and len(v) + 4 < 65536 for t, v in ps)
        if not inr:
            return None if impl_out == "crash struct.error" else f"out-of-range parameter gave {impl_out[:40]}"
        if not impl_out.startswith("ok "):
            return f"encode_params failed: {impl_out}"
        if unhx(impl_out[3:]) != ref_params(case["enc"]):
            return f"encode_params(ps) = {impl_out[3:120]} is not the RFC 4960 §3.2.1 image {hx(ref_params(case['enc']))[:120]}"
        back = guard(lambda: m.decode_params(unhx(impl_out[3:])), show_params)
        if back != "ok " + show_params(ps):
            return f"decode_params(encode_params(ps)) = {back[:120]} ≠ {show_params(ps)[:120]}"
        return None

    def label(self, case, impl_out):
        return ("dec:" if "dec" in case else "enc:") + impl_out.split(" ")[0] + (
            ":" + impl_out.split(" ")[1] if impl_out.startswith("crash") else "")

    def shrink(self, case):
        if "dec" in case:
            b = unhx(case["dec"])
            return ([dict(case, k=j) for j in (1, 2, 3) if case.get("k", 1) > 3]
                    + [dict(case, dec=hx(x)) for x in (b[: len(b) // 2], b[4:], b[:-1], b[:-4]) if x != b])
        l = case["enc"]
        out = []
        if case.get("prev") is not None:
            out.append({k: v for k, v in case.items() if k != "prev"})
        mids = [l[:i] + l[i + 1:] for i in range(1, len(l) - 1)] if 3 <= len(l) <= 8 else []
        short = [[[t, hx(unhx(v)[:-1])] if j == i else [t, v] for j, (t, v) in enumerate(l)]
                 for i in range(len(l)) if unhx(l[i][1])] if len(l) <= 4 else []
        return out + [dict(case, enc=x) for x in [l[: len(l) // 2], l[1:], l[:-1]] + mids + short if x != l]


RC = {"out": ("StreamResetOutgoingParam", 13), "add": ("StreamAddOutgoingParam", 17), "resp": ("StreamResetResponseParam", 16)}


def rc_show(p) -> str:
    n = type(p).__name__
    if n == "StreamResetOutgoingParam":
        return f"out:{p.request_sequence}:{p.response_sequence}:{p.last_tsn}:{show_nats(p.streams)}"
    if n == "StreamAddOutgoingParam":
        return f"add:{p.request_sequence}:{p.new_streams}"
    return f"resp:{p.response_sequence}:{p.result}"


def rc_fields(s):
    """rc string -> (kind, ints, streams)"""
    f = s.split(":")
    if f[0] == "out":
        return "out", [int(f[1]), int(f[2]), int(f[3])], ([] if f[4] == "-" else [int(x) for x in f[4].split(",")])
    return f[0], [int(f[1]), int(f[2])], None


def rc_join(kind, ints, streams):
    return f"{kind}:" + ":".join(str(x) for x in ints) + (":" + show_nats(streams) if kind == "out" else "")


RC_ATTRS = {"out": [("request_sequence", 2**32), ("response_sequence", 2**32), ("last_tsn", 2**32)],
            "add": [("request_sequence", 2**32), ("new_streams", 65536)],
            "resp": [("response_sequence", 2**32), ("result", 2**32)]}
RC_KIND = {"StreamResetOutgoingParam": "out", "StreamAddOutgoingParam": "add", "StreamResetResponseParam": "resp"}


def rc_obj(s):
    m = _m()
    kind, ints, streams = rc_fields(s)
    kw = {a: v for (a, _), v in zip(RC_ATTRS[kind], ints)}
    if kind == "out":
        kw["streams"] = list(streams)
    return getattr(m, RC[kind][0])(**kw)


def rc_assign(p, s):
    """Overwrite every public field of the live parameter object (same class)."""
    kind, ints, streams = rc_fields(s)
    for (a, _), v in zip(RC_ATTRS[kind], ints):
        setattr(p, a, v)
    if kind == "out":
        p.streams = list(streams)
    return p


def rc_in_range(s) -> bool:
    kind, ints, streams = rc_fields(s)
    return all(0 <= v < mod for (_, mod), v in zip(RC_ATTRS[kind], ints)) and all(0 <= x < 65536 for x in (streams or []))


def ref_rc(s) -> bytes:
    kind, ints, streams = rc_fields(s)
    if kind == "out":
        return struct.pack("!LLL", *ints) + b"".join(struct.pack("!H", x) for x in streams)
    if kind == "add":
        return struct.pack("!LHH", ints[0], ints[1], 0)
    return struct.pack("!LL", *ints)


def hostile_rc_spec(s, k):
    kind, ints, streams = rc_fields(s)
    ints = [(v + k) % mod for (_, mod), v in zip(RC_ATTRS[kind], ints)]
    if kind == "out":
        streams = hostile_list_spec(k, k % 65536, streams)
    return rc_join(kind, ints, streams)


def hostile_rc_obj(p, k):
    kind = RC_KIND[type(p).__name__]
    for a, mod in RC_ATTRS[kind]:
        setattr(p, a, (getattr(p, a) + k) % mod)
    if kind == "out":
        hostile_list_obj(p, "streams", k, k % 65536)


class Reconfig(Isolated):
    name = "reconfig"
    theorems = ["reconfig_roundtrip", "reconfig_parse_total"]

    def corpus(self):
        return [{"t": 13, "d": "-"}, {"t": 13, "d": "00" * 11}, {"t": 13, "d": "00" * 13}, {"t": 16, "d": "00" * 7},
                {"t": 17, "d": "00" * 7}, {"t": 17, "d": "00" * 9}, {"t": 14, "d": "00" * 12}]

    def cases(self, rng, tier):
        out = []
        n = 150 if tier == "quick" else 5000
        for _ in range(n):
            k = rng.choice(["out", "add", "resp"])
            if k == "out":
                sid = lambda: pick(rng, B16, 65536, .01)
                streams = [sid() for _ in range(rng.choice([0, 1, 2, 3, rng.randrange(0, 140)]))]
                if rng.random() < SHAPED:
                    streams = shape_list(rng, streams[:rng.choice([0, 1, 2, 3, 5, 40])], sid)
                s = f"out:{pick(rng, B32, 2**32, .03)}:{pick(rng, B32, 2**32, .03)}:{pick(rng, B32, 2**32, .03)}:" + show_nats(
                    streams)
            elif k == "add":
                s = f"add:{pick(rng, B32, 2**32, .03)}:{pick(rng, B16, 65536, .03)}"
            else:
                s = f"resp:{pick(rng, B32, 2**32, .03)}:{pick(rng, B32, 2**32, .03)}"
            out.append({"ser": s})
        for t in (13, 16, 17):
            for L in range(0, 22):
                out.append({"t": t, "d": hx(rbytes(rng, L))})
        for _ in range(n):
            out.append({"t": rng.choice([13, 16, 17, 13, 16, 17, 0, 12, 14, 15, 18]), "d": hx(rbytes(rng, rng.randrange(0, 40)))})
        for i, c in enumerate(out):
            c["k"] = rng.randrange(1, 13)
            if "ser" in c and rng.random() < 0.6:
                # the object was serialised with the values of another case of the same class before
                others = [o["ser"] for o in out[:n] if o["ser"].split(":")[0] == c["ser"].split(":")[0]]
                c["prev"] = rng.choice(others)
        return out

    def model_line(self, case):
        if "ser" in case:
            return "sctpwire rcser " + case["ser"]
        return f"sctpwire rcparse {case['t']} {case['d']}"

    def _impl(self, case):
        m = _m()
        if "ser" in case:
            if case.get("prev") is not None:
                p = rc_obj(case["prev"])
                guard(lambda: bytes(p), hx)
                rc_assign(p, case["ser"])
            else:
                p = rc_obj(case["ser"])
            key = [k for k, cls in m.RECONFIG_PARAM_TYPES.items() if isinstance(p, cls)]
            return f"{key[0] if key else '?'} " + guard(lambda: bytes(p), hx)
        cls = m.RECONFIG_PARAM_TYPES.get(case["t"])
        if cls is None:
            return "none"
        # parse twice; the owner of the first object modifies it in between
        box = {}

        def parse():
            box["r"] = cls.parse(unhx(case["d"]))
            return box["r"]

        first = guard(parse, rc_show)
        if "r" in box:
            hostile_rc_obj(box["r"], case.get("k", 1))
        second = guard(lambda: cls.parse(unhx(case["d"])), rc_show)
        return first if second == first else first + " => AGAIN " + second

    def oracle(self, case, impl_out):
        m = _m()
        if " => AGAIN " in impl_out:
            first, second = impl_out.split(" => AGAIN ")
            return (f"RECONFIG parameter {case['t']} parse({case['d'][:60]}) called again after the owner of the first object "
                    f"modified it gives {second[:100]} ≠ {first[:100]}")
        if "ser" in case:
            f = case["ser"].split(":")
            nums = [int(x) for x in f[1:4] if x != "-" and "," not in x]
            lim = {"out": [2**32] * 3, "add": [2**32, 65536], "resp": [2**32] * 2}[f[0]]
            inr = all(0 <= v < l for v, l in zip(nums, lim))
            if f[0] == "out" and f[4] != "-":
                inr = inr and all(0 <= int(x) < 65536 for x in f[4].split(","))
            t, _, rest = impl_out.partition(" ")
            if t != str(RC[f[0]][1]):
                return f"RECONFIG_PARAM_TYPES maps {RC[f[0]][0]} to {t}, RFC 6525 says {RC[f[0]][1]}"
            if not inr:
                return None if rest == "crash struct.error" else f"out-of-range field gave {rest[:40]}"
            if not rest.startswith("ok "):
                return f"bytes(param) failed: {rest}"
            if unhx(rest[3:]) != ref_rc(case["ser"]):
                return (f"bytes(param) = {rest[3:100]} is not the RFC 6525 image of the current field values {case['ser'][:80]}"
                        + (f" (the object was serialised as {case['prev'][:80]} before)" if case.get("prev") else ""))
            back = guard(lambda: m.RECONFIG_PARAM_TYPES[int(t)].parse(unhx(rest[3:])), rc_show)
            if back != "ok " + case["ser"]:
                return f"parse(bytes(p)) = {back[:100]} ≠ {case['ser'][:100]}"
            return None
        if not (impl_out == "none" or impl_out.startswith("ok ") or impl_out == "ValueError"):
            return f"RECONFIG parameter {case['t']} parse({case['d']}) → {impl_out} (must return or raise ValueError)"
        return None

    def label(self, case, impl_out):
        if "ser" in case:
            return "ser:" + case["ser"].split(":")[0] + ":" + impl_out.split(" ")[1]
        return f"parse:{case['t'] if case['t'] in (13, 16, 17) else 'other'}:" + impl_out.split(" ")[0]

    def shrink(self, case):
        if "d" in case:
            b = unhx(case["d"])
            return [dict(case, d=hx(x)) for x in (b[: len(b) // 2], b[:-1]) if x != b]
        if case.get("prev") is not None:
            return [{k: v for k, v in case.items() if k != "prev"}]
        return []


# ---- structured transformations of a wire field (round 3) ------------------------------------------------
# What a "lenient" parser might normalise or accept as an alternative: another byte / bit order, the complement,
# a neighbouring value, a constant, another checksum algorithm or another input to the right one.  Replacing a field of
# w <= 4 bytes by anything else alters a single burst of <= 8*w <= 32 bits confined to that field.

def _bitrev8(b: int) -> int:
    return int("{:08b}".format(b)[::-1], 2)


def _addn(f: bytes, k: int, order: str) -> bytes:
    return ((int.from_bytes(f, order) + k) % (1 << (8 * len(f)))).to_bytes(len(f), order)


XF = {
    "byterev": lambda f: f[::-1],
    "halfswap": lambda f: f[len(f) // 2:] + f[:len(f) // 2],
    "rot8": lambda f: f[1:] + f[:1],
    "rot24": lambda f: f[-1:] + f[:-1],
    "complement": lambda f: bytes(b ^ 0xFF for b in f),
    "complement-byterev": lambda f: bytes(b ^ 0xFF for b in f[::-1]),
    "bitrev-bytes": lambda f: bytes(_bitrev8(b) for b in f),
    "bitrev-word": lambda f: bytes(_bitrev8(b) for b in f[::-1]),
    "zero": lambda f: bytes(len(f)),
    "ones": lambda f: b"\xff" * len(f),
    "be+1": lambda f: _addn(f, 1, "big"),
    "be-1": lambda f: _addn(f, -1, "big"),
    "le+1": lambda f: _addn(f, 1, "little"),
    "le-1": lambda f: _addn(f, -1, "little"),
    "msb": lambda f: bytes([f[0] ^ 0x80]) + f[1:],
    "low-half-zero": lambda f: f[:len(f) // 2] + bytes(len(f) - len(f) // 2),
    "high-half-zero": lambda f: bytes(len(f) // 2) + f[len(f) // 2:],
}
XF_NAMES = sorted(XF)


def crc_generic(data: bytes, poly: int, init: int, xorout: int) -> int:
    """Reflected 32-bit CRC, bit by bit (poly written MSB-first)."""
    rp = int("{:032b}".format(poly)[::-1], 2)
    c = init
    for b in data:
        c ^= b
        for _ in range(8):
            c = (c >> 1) ^ rp if c & 1 else c >> 1
    return c ^ xorout


def affine_fixpoint(f):
    """V with f(V) == V for a map f on 32-bit words that is affine over GF(2) (any CRC of a packet as a function of
    4 of its bytes); None if there is none."""
    f0 = f(0)
    rows = []                       # equation per column j: (L(e_j) ^ e_j) x_j summed = f0
    cols = [(f(1 << j) ^ f0) ^ (1 << j) for j in range(32)]
    # solve sum_j x_j * cols[j] = f0 by elimination on the columns
    basis = {}                      # pivot bit -> (vector, combination of columns)
    for j, v in enumerate(cols):
        combo = 1 << j
        while v:
            h = v.bit_length() - 1
            if h in basis:
                bv, bc = basis[h]
                v ^= bv
                combo ^= bc
            else:
                basis[h] = (v, combo)
                break
    t, x = f0, 0
    while t:
        h = t.bit_length() - 1
        if h not in basis:
            return None
        bv, bc = basis[h]
        t ^= bv
        x ^= bc
    return x if f(x) == x else None


def _fixpoint(pkt: bytes, crc, order: str):
    fmt = "<L" if order == "le" else "!L"
    return affine_fixpoint(lambda v: crc(pkt[:8] + struct.pack(fmt, v) + pkt[12:]) & 0xFFFFFFFF)


def _zlib():
    import zlib
    return zlib


_Z = lambda pkt: pkt[:8] + b"\0\0\0\0" + pkt[12:]
# name -> value a lenient verification might accept instead of CRC-32C(packet with the field zeroed); `o` = byte order
# the value is going to be packed in (only the self-consistent values depend on it)
CK_ALT = {
    "crc32c": lambda p, o: crc_ref(_Z(p)),                 # ":le" = the correct bytes (no-op), ":be" = network order
    "crc32c-as-received": lambda p, o: crc_ref(p),         # computed over the good packet without zeroing the field
    "crc32c-fixpoint": lambda p, o: _fixpoint(p, crc_ref, o),   # V = CRC-32C(packet carrying V): passes a check that
    "crc32-ieee-fixpoint": lambda p, o: _fixpoint(p, _zlib().crc32, o),  # does not zero the field first
    "crc32c-field-ones": lambda p, o: crc_ref(p[:8] + b"\xff" * 4 + p[12:]),
    "crc32c-skip-field": lambda p, o: crc_ref(p[:8] + p[12:]),
    "crc32c-chunks-only": lambda p, o: crc_ref(p[12:]),
    "crc32c-header-only": lambda p, o: crc_ref(p[:8]),
    "crc32c-unpadded": lambda p, o: crc_ref(_Z(p).rstrip(b"\0")),
    "crc32c+1": lambda p, o: (crc_ref(_Z(p)) + 1) & 0xFFFFFFFF,
    "crc32c-1": lambda p, o: (crc_ref(_Z(p)) - 1) & 0xFFFFFFFF,
    "crc32-ieee": lambda p, o: _zlib().crc32(_Z(p)) & 0xFFFFFFFF,          # the "other" CRC-32
    "crc32-ieee-as-received": lambda p, o: _zlib().crc32(p) & 0xFFFFFFFF,
    "adler32": lambda p, o: _zlib().adler32(_Z(p)) & 0xFFFFFFFF,           # RFC 2960 before RFC 3309
    "adler32-as-received": lambda p, o: _zlib().adler32(p) & 0xFFFFFFFF,
    "sum32": lambda p, o: sum(struct.unpack_from("!L", _Z(p) + b"\0\0\0", i)[0] for i in range(0, len(p), 4)) & 0xFFFFFFFF,
    # bit-by-bit variants: small packets only
    "crc32c-init0": lambda p, o: crc_generic(_Z(p), 0x1EDC6F41, 0, 0xFFFFFFFF) if len(p) <= 64 else None,
    "crc32c-init0-noxor": lambda p, o: crc_generic(_Z(p), 0x1EDC6F41, 0, 0) if len(p) <= 64 else None,
    "crc32k": lambda p, o: crc_generic(_Z(p), 0x741B8CD7, 0xFFFFFFFF, 0xFFFFFFFF) if len(p) <= 64 else None,
}
CK_ALT_NAMES = sorted(CK_ALT)
CK_XFS = XF_NAMES + [f"alt:{n}:{o}" for n in CK_ALT_NAMES for o in ("le", "be")]


def xf_apply(pkt: bytes, off: int, w: int, xf: str) -> bytes:
    """pkt with the w-byte field at `off` replaced by the transformation `xf` of it (pkt itself if it does not fit)."""
    if off < 0 or off + w > len(pkt) or w < 1:
        return pkt
    f = pkt[off:off + w]
    if xf.startswith("alt:"):
        _, name, order = xf.split(":")
        v = CK_ALT[name](pkt, order) if name in CK_ALT and (off, w) == (8, 4) and len(pkt) >= 12 else None
        if v is None:
            return pkt
        new = struct.pack("<L" if order == "le" else "!L", v)
    else:
        new = XF[xf](f)
    return pkt[:off] + new + pkt[off + w:]


def burst_of(good: bytes, bad: bytes):
    """(p, mask) of the XOR difference in CRC-order bit numbering (see apply_burst), None if equal."""
    x = int.from_bytes(bytes(a ^ b for a, b in zip(good, bad)), "little")
    if x == 0:
        return None
    p = (x & -x).bit_length() - 1
    return p, x >> p


def xf_fields(rng, pkt: bytes, n_extra: int):
    """(off, w) of the header fields, the first chunk's header and fixed part, the last word and a few random aligned
    fields of the chunk area."""
    n = len(pkt)
    fs = [(0, 2), (2, 2), (4, 4), (4, 2), (6, 2), (12, 2), (14, 2), (12, 4)]
    fs += [(o, 4) for o in (16, 20, 24, 28, n - 4) if 16 <= o <= n - 4]
    fs += [(o, 2) for o in (16, 18, 20, 22, 24, 26, n - 2) if 16 <= o <= n - 2]
    for _ in range(n_extra):
        if n > 20:
            w = rng.choice([2, 4])
            fs.append((16 + w * rng.randrange((n - 16) // w), w))
    return sorted(set(fs))


# windows of 2 / 4 bytes that overlap the checksum field without being it: a transformation there alters bits inside
# AND outside bits 64..95 (the oracle is silent when one is accepted -- C08-crc-straddle -- the model is not)
CK_STRADDLE_WINDOWS = [(5, 4), (6, 4), (7, 4), (9, 4), (10, 4), (11, 4), (7, 2), (11, 2)]
CK_SUBFIELDS = [(8, 2), (10, 2), (9, 2), (8, 1), (11, 1)]


def ref_walk(data: bytes):
    """[(type, flags, body)] by the TLV walk of RFC 4960 §3.2 over data[12:]; None if a chunk length is invalid."""
    out, pos, n = [], 12, len(data)
    while pos + 4 <= n:
        ty, fl, ln = struct.unpack_from("!BBH", data, pos)
        if ln < 4 or pos + ln > n:
            return None
        out.append((ty, fl, data[pos + 4:pos + ln]))
        pos += ln + (-ln) % 4
    return out


def chunk_bytes_raw(ty, flags, body, length=None):
    l = len(body) + 4 if length is None else length
    return struct.pack("!BBH", ty, flags, l & 0xFFFF) + body + bytes((-len(body)) % 4)


class Parse(Isolated):
    name = "parse"
    theorems = ["parsePacket_total", "parsePacketOrig_struct_error", "parsePacketOrig_hang"]

    def corpus(self):
        hdr = struct.pack("!HHL", 5000, 5000, 7) + b"\0\0\0\0"
        raw = [
            hdr + chunk_bytes_raw(1, 0, bytes(16) + bytes.fromhex("00010000")),   # zero-length parameter: hang (pinned)
            hdr + chunk_bytes_raw(4, 0, bytes.fromhex("00010000")),
            hdr + chunk_bytes_raw(0, 3, b"\x01"),                                   # DATA with 1-byte body: struct.error
            hdr + chunk_bytes_raw(3, 0, bytes(11)),
            hdr + chunk_bytes_raw(3, 0, bytes(8) + b"\x00\x01\x00\x00"),           # SACK announcing a gap it lacks
            hdr + chunk_bytes_raw(7, 0, b"\x01\x02"),
            hdr + chunk_bytes_raw(192, 0, bytes(6)),
            hdr + chunk_bytes_raw(2, 0, bytes(15)),
            hdr + chunk_bytes_raw(11, 0, b""),
            hdr + chunk_bytes_raw(99, 0, b"abc") + chunk_bytes_raw(11, 1, b""),
        ]
        out = [{"d": hx(fix_crc(r))} for r in raw]
        out += [{"d": "-"}, {"d": "00" * 15}, {"d": "00" * 16}]
        return out

    def cases(self, rng, tier):
        m = _m()
        out = []
        types = sorted(m.CHUNK_TYPES.keys())
        hdrs = lambda: struct.pack("!HHL", *gen_header(rng)) + b"\0\0\0\0"
        reps = 1 if tier == "quick" else 10
        # every class x every body length 0..24 (random / zero bodies)
        for _ in range(reps):
            for ty in types + [12, 13, 15, 64, 255]:
                for L in range(0, 25):
                    out.append({"d": hx(fix_crc(hdrs() + chunk_bytes_raw(ty, rng.randrange(256), rbytes(rng, L))))})
        # SACK bodies with consistent / inconsistent counts
        for _ in range(40 * reps):
            g, d = rng.randrange(0, 4), rng.randrange(0, 4)
            have = max(0, g + d + rng.choice([-2, -1, 0, 0, 0, 1]))
            body = struct.pack("!LLHH", rng.randrange(2**32), rng.randrange(2**32), g, d) + rbytes(rng, 4 * have)
            body += rbytes(rng, rng.choice([0, 0, 1, 2, 3]))
            out.append({"d": hx(fix_crc(hdrs() + chunk_bytes_raw(3, 0, body)))})
        # bundles of valid chunks, then mutated
        n = 1200 if tier == "quick" else 12000
        for _ in range(n):
            specs = []
            for _ in range(rng.choice([1, 1, 2, 3])):
                spec = gen_spec(rng)
                if spec_in_range(spec):
                    specs.append(spec)
            if rng.random() < SHAPED / 2:
                # round 4: bundles with repeated chunks (first = last, adjacent equal, all equal ...)
                def small():
                    while True:
                        sp_ = gen_spec(rng)
                        if spec_in_range(sp_) and len(ref_chunk(sp_)) <= 200:
                            return sp_
                specs = shape_list(rng, [x for x in specs if len(ref_chunk(x)) <= 200], small, limit=6)
            chunks = [bytes(build_chunk(spec)) for spec in specs]
            offs = [12]
            for c in chunks:
                offs.append(offs[-1] + len(c))
            b = bytearray(hdrs() + b"".join(chunks))
            mode = rng.randrange(10)
            if mode == 0 and len(b) > 12:
                del b[rng.randrange(12, len(b)):]
            elif mode == 1 and chunks:
                o = rng.choice(offs[:-1])
                cur = struct.unpack_from("!H", b, o + 2)[0]
                b[o + 2:o + 4] = struct.pack("!H", rng.choice([0, 1, 3, 4, 5, 8, 12, 16, 20, max(cur - 1, 0), cur + 1, cur + 4,
                                                              len(b) - o, len(b) - o + 1, 65535]) & 0xFFFF)
            elif mode == 2 and len(b) > 16:
                # a 16-bit field somewhere in the chunk area := small value (hits parameter lengths)
                pos = 12 + 2 * rng.randrange((len(b) - 12) // 2)
                b[pos:pos + 2] = struct.pack("!H", rng.choice([0, 1, 2, 3, 4, 5, 7, 65535]))
            elif mode == 3 and len(b) > 12:
                for _ in range(rng.randrange(1, 4)):
                    b[rng.randrange(12, len(b))] ^= 1 << rng.randrange(8)
            elif mode == 4 and chunks:
                b[rng.choice(offs[:-1])] = rng.choice([12, 13, 15, 64, 193, 255] + types)
            elif mode == 5:
                b += rbytes(rng, rng.randrange(1, 8))
            elif mode == 6 and chunks:
                # cut the first chunk's body short but keep the length field consistent
                o = offs[0]
                cur = struct.unpack_from("!H", b, o + 2)[0]
                k = rng.randrange(4, max(5, min(cur, 24)))
                b = bytearray(bytes(b[:o]) + chunk_bytes_raw(b[o], b[o + 1], bytes(b[o + 4:o + k])) + bytes(b[offs[1]:]))
            good = rng.random() < 0.9
            out.append({"d": hx(fix_crc(bytes(b)) if good else bytes(b))})
        for L in range(0, 20):
            out.append({"d": hx(rbytes(rng, L))})
        # round 3: structured transformations (byte / bit order, complement, +-1, constants ...) of the header fields, the
        # chunk header and value / length fields of a valid packet of every class, CHECKSUM RECOMPUTED: the result is
        # another well-formed packet (or one with an inconsistent length), and the parser must report the transformed
        # value as it is on the wire -- `expect` (header fields only) is computed from the spec, not from repo code
        r3 = rng
        for rep in range(reps if tier == "quick" else 4):
            for name in ALL:
                while True:
                    spec = gen_spec(r3, name)
                    if spec_in_range(spec):
                        break
                sp, dp, tag = gen_header(r3)
                pkt = ref_packet(sp, dp, tag, [spec])
                fields = xf_fields(r3, pkt, 3)
                picks = [(f, x) for f in fields for x in XF_NAMES]
                keep = [q for q in picks if q[0] in ((4, 4), (14, 2))] + r3.sample(picks, min(len(picks), 40))
                for (off, w), xf in keep:
                    bad = fix_crc(xf_apply(pkt, off, w, xf))
                    if bad == pkt:
                        continue
                    case = {"d": hx(bad), "xf": f"{off}+{w}:{xf}"}
                    if off + w <= 8:
                        h = struct.unpack("!HHL", bad[:8])
                        case["expect"] = f"ok {h[0]} {h[1]} {h[2]} {spec_str(spec)}"
                    out.append(case)
        # ... and of the checksum field itself, checksum NOT recomputed, on bundles of 1..3 chunks (the burst component
        # does the same on single-chunk packets): the model says ValueError, the oracle "wrong CRC-32C accepted"
        for _ in range(150 if tier == "quick" else 1500):
            chunks = []
            for _ in range(r3.choice([1, 2, 2, 3])):
                spec = gen_spec(r3)
                if spec_in_range(spec):
                    chunks.append(spec)
            sp, dp, tag = gen_header(r3)
            pkt = ref_packet(sp, dp, tag, chunks) if chunks else fix_crc(struct.pack("!HHL", sp, dp, tag) + bytes(8))
            xf = r3.choice(CK_XFS)
            bad = xf_apply(pkt, 8, 4, xf)
            if bad != pkt:
                out.append({"d": hx(bad), "xf": f"8+4:{xf}"})
        for c in out:
            c["k"] = rng.randrange(1, 13)
        return out

    def model_line(self, case):
        return "sctpwire parse " + case["d"]

    def _parse(self, data):
        m = _m()
        box = {}

        def f():
            box["r"] = m.parse_packet(data)
            return box["r"]

        return guard(f, show_parsed), box.get("r")

    def _impl(self, case):
        # every packet is parsed twice; in between a hostile owner modifies every mutable part of the first result
        data = unhx(case["d"])
        first, r = self._parse(data)
        if r is not None:
            for c in r[3]:
                hostile_obj(c, case.get("k", 1))
        second, _ = self._parse(data)
        return first if second == first else first + " => REPARSE " + second

    def oracle(self, case, impl_out):
        data = unhx(case["d"])
        if " => REPARSE " in impl_out:
            first, second = impl_out.split(" => REPARSE ")
            return (f"parsing the same {len(data)}-byte packet again after the owner of the first result modified it "
                    f"(k={case.get('k', 1)}) gives {second[:200]} ≠ {first[:200]}")
        if not (impl_out.startswith("ok ") or impl_out == "ValueError"):
            return f"parse_packet → {impl_out} on a {len(data)}-byte packet (must return or raise ValueError)"
        crc_good = len(data) >= 16 and struct.unpack_from("<L", data, 8)[0] == crc_ref(data[:8] + b"\0\0\0\0" + data[12:])
        if impl_out.startswith("ok ") and not crc_good:
            return "packet with wrong CRC-32C (or shorter than 16 bytes) was accepted"
        if "expect" in case and impl_out != case["expect"]:
            return (f"valid packet ({case.get('xf')} applied to a built packet, checksum recomputed) parses to "
                    f"{impl_out[:160]} ≠ {case['expect'][:160]}")
        if impl_out.startswith("ok "):
            # every accepted chunk is a fixed point of serialise-then-parse
            m = _m()
            _, r = self._parse(data)
            sp, dp, tag, chunks = r
            # the header fields and the (type, flags) of every chunk are what is on the wire (RFC 4960 §3, big-endian)
            if (sp, dp, tag) != struct.unpack_from("!HHL", data):
                return f"header parsed as {(sp, dp, tag)} but the wire says {struct.unpack_from('!HHL', data)}"
            walk = ref_walk(data)
            if walk is None:
                return "packet with a chunk length field < 4 or beyond the end of the packet was accepted"
            want = [(ty, fl) for ty, fl, _ in walk if ty in RFC_TYPE.values()]
            got = [(RFC_TYPE.get(type(c).__name__, getattr(c, "type", None)), getattr(c, "flags", None)) for c in chunks]
            if got != want:
                return f"chunks parsed as (type, flags) {got[:6]} but the wire says {want[:6]}"
            for c in chunks:
                s = guard(lambda: m.serialize_packet(sp, dp, tag, c), hx)
                if not s.startswith("ok "):
                    return f"parsed chunk {chunk_str(c)[:80]} cannot be serialised: {s}"
                back, _ = self._parse(unhx(s[3:]))
                if back != f"ok {sp} {dp} {tag} {chunk_str(c)}":
                    return f"parsed chunk {chunk_str(c)[:80]} does not survive serialise→parse: {back[:120]}"
        return None

    def label(self, case, impl_out):
        data = unhx(case["d"])
        if impl_out.startswith("ok "):
            ch = impl_out.split(" ")[4]
            n = 0 if ch == "-" else ch.count("|") + 1
            first = "-" if ch == "-" else ch.split(":")[0]
            return f"ok:n={min(n, 3)}:{first}"
        ty = data[12] if len(data) > 12 else -1
        return impl_out + ":type=" + str(ty if ty in (0, 1, 2, 3, 4, 5, 6, 7, 8, 9, 10, 11, 14, 130, 192) else "other")

    def shrink(self, case):
        b = unhx(case["d"])
        out = []
        if len(b) >= 16:
            # coarse steps first (every evaluation is a forked child): the smallest packet with this header, the first
            # chunk alone, everything but the first chunk header zeroed, header zeroed
            out.append(fix_crc(b[:12] + chunk_bytes_raw(11, 0, b"")))
            out.append(fix_crc(bytes(12) + chunk_bytes_raw(11, 0, b"")))
            walk = ref_walk(b)
            if walk and len(walk) > 1:
                raw = [chunk_bytes_raw(ty, fl, body) for ty, fl, body in walk]
                if len(walk) > 2:
                    # keep two chunks (a failure may need a repeated chunk): the first two, the last two, first and last
                    for pair_ in (raw[:2], raw[-2:], [raw[0], raw[-1]]):
                        out.append(fix_crc(b[:12] + b"".join(pair_)))
                if raw[0] == raw[1] and len(raw[0]) > 4:
                    out.append(fix_crc(b[:12] + chunk_bytes_raw(11, walk[0][1], b"") * 2))
                ty, fl, body = walk[0]
                out.append(fix_crc(b[:12] + chunk_bytes_raw(ty, fl, body)))
                ty, fl, body = walk[-1]
                out.append(fix_crc(b[:12] + chunk_bytes_raw(ty, fl, body)))
            out.append(fix_crc(b[:16] + bytes(len(b) - 16)))
            out.append(fix_crc(bytes(8) + b[8:]))
        if len(b) > 16:
            out.append(fix_crc(b[:12] + b[12:][: (len(b) - 12) // 2]))
            out.append(fix_crc(b[:-4]))
            out.append(fix_crc(b[:-1]))
        for i in range(12, min(len(b), 60)):
            if b[i]:
                out.append(fix_crc(b[:i] + b"\0" + b[i + 1:]))
        out.append(fix_crc(bytes(8) + b[8:]))
        # strictly decreasing measure (the coarse candidates are not sub-packets of `b`): no cycles
        size = lambda x: (len(x), sum(1 for i, v in enumerate(x) if v and not 8 <= i < 12), sum(x[:8] + x[12:]))
        out = [x for x in out if size(x) < size(b)]
        ck = case.get("xf", "")
        if ck.startswith("8+4:"):
            # a transformed checksum field: keep the transformation while the packet gets smaller
            out = [xf_apply(x, 8, 4, ck[4:]) for x in out]
            res = [{"d": hx(x), "k": case.get("k", 1), "xf": ck} for x in out if x != b]
        else:
            res = [{"d": hx(x), "k": case.get("k", 1)} for x in out if x != b]
        if case.get("k", 1) > 3:
            res = [dict(case, k=1), dict(case, k=2), dict(case, k=3)] + res
        return res


# ---- bursts --------------------------------------------------------------------------------------------

def apply_burst(data: bytes, p: int, mask: int) -> bytes:
    """Flip bit p+j (CRC order: bit 8*i+k is bit k, LSB = 0, of byte i) for every set bit j of mask."""
    b = bytearray(data)
    j = 0
    while mask >> j:
        if (mask >> j) & 1:
            q = p + j
            if q // 8 < len(b):
                b[q // 8] ^= 1 << (q % 8)
        j += 1
    return bytes(b)


def straddles(p: int, mask: int) -> bool:
    qs = [p + j for j in range(mask.bit_length()) if (mask >> j) & 1]
    return any(64 <= q < 96 for q in qs) and any(not (64 <= q < 96) for q in qs)


def straddle_witness(data: bytes, p: int):
    """A non-zero mask confined to [p, p+32) that the checksum cannot see, if one exists (GF(2) kernel).
    acceptance is linear in the flipped bits: flipped checksum bits must equal L(flipped outside bits)."""
    n = len(data)
    base = crc_ref(bytes(n))
    cols = []
    for j in range(32):
        q = p + j
        if q >= 8 * n:
            cols.append(None)
            continue
        if 64 <= q < 96:
            cols.append(1 << (q - 64))          # toggles checksum-field bit
        else:
            e = bytearray(n)
            e[q // 8] ^= 1 << (q % 8)
            cols.append(crc_ref(bytes(e)) ^ base)  # toggles the computed CRC by L(e)
    # find non-zero combination with XOR = 0
    basis = {}  # pivot bit -> (vector, combo mask)
    for j, v in enumerate(cols):
        if v is None:
            continue
        combo = 1 << j
        while v:
            h = v.bit_length() - 1
            if h in basis:
                bv, bc = basis[h]
                v ^= bv
                combo ^= bc
            else:
                basis[h] = (v, combo)
                break
        else:
            return combo
    return None


class Burst(Component):
    name = "burst"
    theorems = ["crc_burst_partial", "C08_full_false", "crc_burst_four_bytes", "checksum_field_exact",
                "checksum_field_unique", "checksum_byte_reversed_rejected", "built_checksum_exact"]

    WITNESS = {"sp": 5000, "dp": 5000, "tag": 0, "chunk": {"cls": "CookieAckChunk", "flags": 0, "body": "-"}}

    def corpus(self):
        # the witness of Props/C08.lean `C08_full_false` (witnessD / witnessE), replayed on the real parser
        out = [dict(self.WITNESS, p=34, mask=0xD7B4922F)]
        pkt = self._packet(self.WITNESS)
        for p in (33, 40, 48, 56, 63, 65, 72, 80, 95):
            mask = straddle_witness(pkt, p)
            if mask:
                out.append(dict(self.WITNESS, p=p, mask=mask))
        # the checksum field of the witness packet in the other byte order, complemented, zeroed, as Adler-32 ...
        for xf in ("byterev", "alt:crc32c:be", "complement", "zero", "ones", "halfswap", "alt:adler32:be",
                   "alt:crc32-ieee:le", "alt:crc32c-as-received:le"):
            out.append(dict(self.WITNESS, field=[8, 4], xf=xf))
        return out

    def _packet(self, case) -> bytes:
        m = _m()
        return m.serialize_packet(case["sp"], case["dp"], case["tag"], build_chunk(case["chunk"]))

    def _bad(self, case, pkt=None) -> bytes:
        """The corrupted packet: an explicit burst (p, mask) or a structured transformation `xf` of the field
        `field` = [offset, width] of the packet as built (symbolic, so that it follows the packet through shrinking)."""
        pkt = self._packet(case) if pkt is None else pkt
        if "xf" in case:
            return xf_apply(pkt, case["field"][0], case["field"][1], case["xf"])
        return apply_burst(pkt, case["p"], case["mask"])

    def burst(self, case):
        """(p, mask) of the alteration, None if the packet is unchanged."""
        if "xf" not in case:
            return (case["p"], case["mask"]) if case["mask"] else None
        pkt = self._packet(case)
        return burst_of(pkt, self._bad(case, pkt))

    def _structured(self, rng, base, pkt, full):
        """Structured alterations of one packet: every transformation / alternative checksum in the checksum field (and
        in its halves), every transformation of the header fields, a sample for chunk fields and for the windows that
        overlap the checksum field."""
        out = [dict(base, field=[8, 4], xf=x) for x in CK_XFS]
        out += [dict(base, field=list(f), xf=x) for f in CK_SUBFIELDS for x in rng.sample(XF_NAMES, 4)]
        if full:
            for f in xf_fields(rng, pkt, 4):
                xs = XF_NAMES if f[0] < 16 else rng.sample(XF_NAMES, 4)
                out += [dict(base, field=list(f), xf=x) for x in xs]
            out += [dict(base, field=list(f), xf=x) for f in CK_STRADDLE_WINDOWS for x in rng.sample(XF_NAMES, 6)]
        return out

    def cases(self, rng, tier):
        out = []
        n_pk = 8 if tier == "quick" else 60
        for i in range(n_pk):
            while True:
                spec = gen_spec(rng)
                if spec_in_range(spec):
                    break
            if i == 0:
                spec = {"cls": "DataChunk", "flags": 3, "tsn": 1, "sid": 1, "sseq": 0, "proto": 51, "ud": hx(rbytes(rng, 1200))}
            sp, dp, tag = gen_header(rng)
            base = {"sp": sp, "dp": dp, "tag": tag, "chunk": spec}
            nbits = 8 * len(self._packet(base))
            per = 250 if tier == "quick" else 700
            for _ in range(per):
                L = rng.randrange(1, 33)
                x = rng.random()
                if x < 0.35:
                    p = rng.randrange(0, nbits - L + 1)
                elif x < 0.55:
                    p = rng.choice([0, 64 - L, 96, nbits - L, 32 - L if L <= 32 else 0, 64, 96 - L])   # touching the field
                    p = max(0, min(p, nbits - L))
                elif x < 0.75:
                    p = rng.randrange(max(0, 64 - L + 1), 96)   # overlapping the field (straddle or inside)
                else:
                    p = 8 * rng.randrange(0, nbits // 8 - 3)
                    L = 32                                      # four whole bytes
                mask = 1 if L == 1 else (1 | (1 << (L - 1)) | (rng.getrandbits(L - 2) << 1 if L > 2 else 0))
                if rng.random() < 0.2:
                    mask = rng.randrange(1, 1 << L)
                out.append(dict(base, p=p, mask=mask))
            if tier != "quick" and i in (1, 2, 3, 4):
                # exhaustive: every position x every length on a small DATA packet (user data 1..4 bytes)
                small = {"sp": sp, "dp": dp, "tag": tag, "chunk": {"cls": "DataChunk", "flags": 3, "tsn": i, "sid": 1, "sseq": 0,
                                                                  "proto": 51, "ud": hx(rbytes(rng, i))}}
                nb = 8 * len(self._packet(small))
                for L in range(1, 33):
                    for p in range(0, nb - L + 1):
                        mask = 1 if L == 1 else (1 | (1 << (L - 1)) | (rng.getrandbits(L - 2) << 1 if L > 2 else 0))
                        out.append(dict(small, p=p, mask=mask))
            # engineered straddling bursts for this packet (known finding)
            for p in rng.sample(range(33, 96), 4 if tier == "quick" else 20):
                mk = straddle_witness(self._packet(base), p)
                if mk:
                    out.append(dict(base, p=p, mask=mk))
            # round 3: structured alterations (random patterns never produce "the same value in the other byte order")
            out += self._structured(rng, base, self._packet(base), full=True)
        # ... of the checksum field for packets of every class (a lenient check may depend on the chunk type / tag)
        for rep in range(1 if tier == "quick" else 6):
            for name in ALL:
                while True:
                    spec = gen_spec(rng, name)
                    if spec_in_range(spec) and len(ref_chunk(spec)) <= 400:
                        break
                sp, dp, tag = gen_header(rng)
                if rep % 2 == 1:
                    tag = 0
                base = {"sp": sp, "dp": dp, "tag": tag, "chunk": spec}
                out += self._structured(rng, base, self._packet(base), full=(rep >= 2))
        return out

    def model_line(self, case):
        return "sctpwire parse " + hx(self._bad(case))

    def impl(self, case):
        m = _m()
        bad = self._bad(case)
        return guard(lambda: m.parse_packet(bad), show_parsed)

    def oracle(self, case, impl_out):
        b = self.burst(case)
        if b is None or b[1].bit_length() > 32:
            return None
        p, mask = b
        if impl_out != "ValueError":
            what = ""
            if "xf" in case:
                pkt = self._packet(case)
                off, w = case["field"]
                what = (f": bytes {off}..{off + w - 1} {hx(pkt[off:off + w])} → {hx(self._bad(case, pkt)[off:off + w])} "
                        f"({case['xf']}{' of the checksum field' if (off, w) == (8, 4) else ''})")
            return (f"packet with a burst of {mask.bit_length()} bits at bit {p} "
                    f"(mask {mask:#x}){what} was not rejected: {impl_out[:80]}")
        return None

    def label(self, case, impl_out):
        b = self.burst(case)
        if b is None:
            return "unchanged:" + impl_out.split(" ")[0]
        p, mask = b
        where = "straddle" if straddles(p, mask) else "inside" if 64 <= p < 96 else "before" if p < 64 else "after"
        kind = ""
        if "xf" in case:
            kind = (("ck-alt" if case["xf"].startswith("alt:") else "ck-xf") if case["field"] == [8, 4] else "xf") + ":"
        return kind + where + ":" + impl_out.split(" ")[0]

    def nontrivial(self, case, impl_out):
        return self.burst(case) is not None

    def shrink(self, case):
        out = [dict(case, chunk=s) for s in shrink_spec(case["chunk"])]
        out += [dict(case, **{k: v}) for k, v in (("tag", 0), ("sp", 0), ("dp", 0)) if case[k] != v]
        if "xf" in case:
            return out
        m = case["mask"]
        for j in range(m.bit_length()):
            if (m >> j) & 1 and m != (1 << j):
                out.append(dict(case, mask=m & ~(1 << j)))
        return out


# ---- operation sequences on a pool of live objects ------------------------------------------------------

def spec_from_str(t: str):
    """Inverse of chunk_str / spec_str."""
    f = t.split(":")
    name, flags = f[0], int(f[1])
    ps = lambda x: [] if x == "-" else [[int(a.split("/")[0]), a.split("/")[1]] for a in x.split(",")]
    pairs = lambda x: [] if x == "-" else [[int(a.split("/")[0]), int(a.split("/")[1])] for a in x.split(",")]
    spec = {"cls": name, "flags": flags}
    if name in PLAIN:
        spec["body"] = f[2]
    elif name in PARAMS:
        spec["params"] = ps(f[2])
    elif name == "DataChunk":
        spec.update(tsn=int(f[2]), sid=int(f[3]), sseq=int(f[4]), proto=int(f[5]), ud=f[6])
    elif name in INIT:
        spec.update(tag=int(f[2]), rwnd=int(f[3]), outs=int(f[4]), ins=int(f[5]), itsn=int(f[6]), params=ps(f[7]))
    elif name == "SackChunk":
        spec.update(ctsn=int(f[2]), rwnd=int(f[3]), gaps=pairs(f[4]), dups=[] if f[5] == "-" else [int(x) for x in f[5].split(",")])
    elif name == "ShutdownChunk":
        spec["ctsn"] = int(f[2])
    elif name == "ForwardTsnChunk":
        spec.update(ctsn=int(f[2]), streams=pairs(f[3]))
    else:
        raise ValueError(name)
    return spec


def params_in_range(ps) -> bool:
    return all(0 <= t < 65536 and len(unhx(v)) + 4 < 65536 for t, v in ps)


def val_str(kind, v) -> str:
    if kind == "C":
        return spec_str(v)
    if kind == "R":
        return v
    return ",".join(f"{t}/{x}" for t, x in v) if v else "-"


def op_token(op) -> str:
    k = op[0]
    if k in ("new", "set"):
        return f"{k}@{op[1]}@{op[2]}@{val_str(op[2], op[3])}"
    if k == "parse":
        return f"parse@{op[1]}@{op[2]}"
    return "@".join(str(x) for x in op)


def op_desc(op) -> str:
    k = op[0]
    if k in ("new", "set"):
        what = "a fresh object in" if k == "new" else "overwrite every field of the live object in"
        return f"{what} slot {op[1]} := {val_str(op[2], op[3])[:90]}"
    if k == "hostile":
        return f"owner modifies every mutable part of the object in slot {op[1]} (k={op[2]})"
    if k == "ser":
        return f"serialize_packet({op[2]}, {op[3]}, {op[4]}, slot {op[1]})"
    if k == "bytes":
        return f"bytes(slot {op[1]})"
    if k == "parse":
        return f"parse_packet({op[1][:48]}{'…' if len(op[1]) > 48 else ''}) -> slots {op[2]}.."
    if k == "decparams":
        return f"decode_params({op[1][:48]}) -> slot {op[2]}"
    return f"RECONFIG_PARAM_TYPES[{op[1]}].parse({op[2][:48]}) -> slot {op[3]}"


class Ops(Isolated):
    """Sequences of create / overwrite / hostile-owner / serialise / parse steps on a pool of LIVE objects of the
    library, compared step by step with the pure Lean model (Model/Sctp/WireOps.lean) and, in the oracle, with an
    independent encoder and with the observations made earlier in the same sequence."""
    name = "ops"
    theorems = ["ops_reuse_roundtrip", "ops_ser_current_value", "ops_bytes_current_value", "ops_parse_pure",
                "ops_reparse_same", "ops_parsed_slot_reserialize", "ops_hostile_then_ser"]
    SLOTS = 4

    def corpus(self):
        hb = {"cls": "HeartbeatChunk", "flags": 0, "params": [[1, "0001"], [49152, "-"]]}
        er = dict(hb, cls="ErrorChunk")
        init = {"cls": "InitAckChunk", "flags": 0, "tag": 1, "rwnd": 2, "outs": 3, "ins": 4, "itsn": 5, "params": hb["params"]}
        d1 = {"cls": "DataChunk", "flags": 3, "tsn": 1, "sid": 2, "sseq": 3, "proto": 51, "ud": "61"}
        d2 = {"cls": "DataChunk", "flags": 7, "tsn": 2**32 - 1, "sid": 65535, "sseq": 0, "proto": 53, "ud": "616263"}
        P = lambda specs, base: ["parse", hx(ref_packet(5000, 5001, 7, specs)), base, {"sp": 5000, "dp": 5001, "tag": 7, "specs": specs}]
        return [
            # parse, the owner appends to the parsed list, the same / a sibling packet arrives
            {"ops": [P([hb], 0), ["hostile", 0, 1], P([hb], 1), ["ser", 1, 5000, 5001, 7], P([er], 2), P([init], 3),
                     ["ser", 0, 5000, 5001, 7]]},
            # one object, serialised, overwritten, serialised; two objects of one class interleaved
            {"ops": [["new", 0, "C", d1], ["ser", 0, 1, 2, 3], ["set", 0, "C", d2], ["ser", 0, 1, 2, 3], ["new", 1, "C", d1],
                     ["bytes", 1], ["bytes", 0], ["hostile", 1, 4], ["bytes", 1], ["bytes", 0]]},
            {"ops": [["decparams", "0001000400020005aa000000", 0], ["hostile", 0, 1], ["decparams", "0001000400020005aa000000", 1],
                     ["bytes", 1], ["bytes", 0]]},
            {"ops": [["rcparse", 13, "000000010000000200000003000a000b", 0], ["hostile", 0, 1],
                     ["rcparse", 13, "000000010000000200000003000a000b", 1], ["bytes", 1], ["bytes", 0],
                     ["set", 0, "R", "out:9:8:7:1,2,3"], ["bytes", 0], ["new", 2, "R", "add:5:6"], ["bytes", 2],
                     ["set", 2, "R", "add:7:8"], ["bytes", 2]]},
        ]

    # -- generation ------------------------------------------------------------------------------------------

    def _gen_seq(self, rng, tier):
        """A pool of at most SLOTS objects of one or two classes, values and packets drawn from a small per-sequence
        set so that the same values / bytes recur in different objects and at different times."""
        names = [rng.choice(ALL)]
        x = rng.random()
        if x < 0.25:
            names = ["DataChunk"]
        elif x < 0.45:
            names = [rng.choice(PARAMS + INIT)]
        if rng.random() < 0.4:
            names.append(rng.choice(PARAMS + INIT) if names[0] in PARAMS + INIT else rng.choice(ALL))
        specs = []
        for _ in range(rng.randrange(2, 6)):
            specs.append(gen_spec(rng, rng.choice(names), big=False, over=0.03))
        # siblings: another class with byte-identical parameter body / the same values under another header
        for sp_ in list(specs):
            if "params" in sp_ and rng.random() < 0.6:
                other = rng.choice(PARAMS + INIT)
                sib = gen_spec(rng, other)
                sib["params"] = sp_["params"]
                specs.append(sib)
        good = [x for x in specs if spec_in_range(x)]
        packets = []
        for _ in range(rng.randrange(1, 4)):
            if not good:
                break
            sp, dp, tag = gen_header(rng)
            chosen = [rng.choice(good) for _ in range(rng.choice([1, 1, 1, 2, 3]))]
            data = ref_packet(sp, dp, tag, chosen)
            if len(data) < 65536:
                packets.append(["parse", hx(data), 0, {"sp": sp, "dp": dp, "tag": tag, "specs": chosen}])
        if rng.random() < 0.2:
            # a malformed / unknown-type packet as well (no note: only purity can be judged)
            raw = struct.pack("!HHL", *gen_header(rng)) + b"\0\0\0\0" + chunk_bytes_raw(
                rng.choice([0, 1, 3, 4, 6, 9, 130, 192, 99]), rng.randrange(256), rbytes(rng, rng.randrange(0, 24)))
            packets.append(["parse", hx(fix_crc(raw)), 0, None])
        rcs = []
        for _ in range(2):
            kind = rng.choice(["out", "add", "resp"])
            if kind == "out":
                rcs.append(rc_join("out", [pick(rng, B32, 2**32, .02) for _ in range(3)],
                                   [pick(rng, B16, 65536) for _ in range(rng.choice([0, 1, 2, 5, rng.randrange(0, 40)]))]))
            elif kind == "add":
                rcs.append(rc_join("add", [pick(rng, B32, 2**32, .02), pick(rng, B16, 65536, .02)], None))
            else:
                rcs.append(rc_join("resp", [pick(rng, B32, 2**32, .02), pick(rng, B32, 2**32, .02)], None))
        plists = [gen_params(rng)[:6] for _ in range(2)]
        n = rng.randrange(4, 15 if tier == "quick" else 30)
        ops = []
        S = self.SLOTS
        for _ in range(n):
            x = rng.random()
            s = rng.randrange(S)
            if x < 0.16:
                ops.append([rng.choice(["new", "set", "set"]), s, "C", rng.choice(specs)])
            elif x < 0.30:
                ops.append(["hostile", s, rng.randrange(1, 13)])
            elif x < 0.50:
                ops.append(["ser", s] + list(gen_header(rng, 0.02)))
            elif x < 0.58:
                ops.append(["bytes", s])
            elif x < 0.80 and packets:
                p_ = rng.choice(packets)
                ops.append([p_[0], p_[1], rng.randrange(S), p_[3]])
            elif x < 0.86:
                ops.append([rng.choice(["new", "set", "set"]), s, "R", rng.choice(rcs)])
            elif x < 0.90:
                ops.append([rng.choice(["new", "set", "set"]), s, "P", rng.choice(plists)])
            elif x < 0.95:
                pl = rng.choice(plists)
                ops.append(["decparams", hx(ref_params(pl)) if params_in_range(pl) else "00010004", s])
            else:
                r_ = rng.choice(rcs)
                if rc_in_range(r_):
                    ops.append(["rcparse", RC[r_.split(":")[0]][1], hx(ref_rc(r_)), s])
                else:
                    ops.append(["rcparse", rng.choice([13, 16, 17, 14]), hx(rbytes(rng, rng.randrange(0, 20))), s])
        return ops

    def _gen_sweep(self, rng, name):
        """One object carries a sweep of values (the classic way of testing 'every user-data length'): new, ser,
        then set / ser over and over; a second object of the class is interleaved."""
        ops = [["new", 0, "C", gen_spec(rng, name)], ["ser", 0] + list(gen_header(rng))]
        if rng.random() < 0.5:
            ops += [["new", 1, "C", gen_spec(rng, name)], ["bytes", 1]]
        for _ in range(rng.randrange(2, 7)):
            sp_ = gen_spec(rng, name, over=0.03)
            if name == "DataChunk" and rng.random() < 0.6:
                sp_["ud"] = hx(rbytes(rng, rng.choice([0, 1, 2, 3, 4, 5, 1199, 1200, 1201, rng.randrange(0, 1300)])))
            ops += [["set", rng.choice([0, 0, 1]), "C", sp_], [rng.choice(["ser", "ser", "bytes"]), 0]]
            if ops[-1][0] == "ser":
                ops[-1] += list(gen_header(rng))
            if rng.random() < 0.4:
                ops.append(["bytes", 1])
        return ops

    def _gen_reparse(self, rng, name):
        """parse; hostile owner; parse the same bytes / a sibling with identical sub-body; re-serialise everything."""
        sp_ = gen_spec(rng, name)
        while not spec_in_range(sp_):
            sp_ = gen_spec(rng, name)
        sp, dp, tag = gen_header(rng)
        P = lambda specs, base: ["parse", hx(ref_packet(sp, dp, tag, specs)), base, {"sp": sp, "dp": dp, "tag": tag, "specs": specs}]
        sib = sp_
        if "params" in sp_:
            sib = gen_spec(rng, rng.choice(PARAMS + INIT))
            sib["params"] = sp_["params"]
            if not spec_in_range(sib):
                sib = sp_
        ops = [P([sp_], 0), ["hostile", 0, rng.randrange(1, 13)]]
        if rng.random() < 0.5:
            ops.append(["ser", 0, sp, dp, tag])
        ops += [P([sib], 1), P([sp_], 2), ["ser", 2, sp, dp, tag], ["ser", 1, sp, dp, tag], P([sp_, sib], 2), ["bytes", 3]]
        return ops

    def _gen_rc(self, rng):
        """RE-CONFIG parameter objects and parameter lists: serialise, overwrite, serialise; parse, modify, parse."""
        def one(kind):
            if kind == "out":
                return rc_join("out", [pick(rng, B32, 2**32) for _ in range(3)],
                               [pick(rng, B16, 65536) for _ in range(rng.choice([0, 1, 2, 5]))])
            return rc_join(kind, [pick(rng, B32, 2**32), pick(rng, B16 if kind == "add" else B32, 65536 if kind == "add" else 2**32)], None)
        kind = rng.choice(["out", "add", "resp"])
        a, b, c = one(kind), one(kind), one(kind)
        pl, pl2 = gen_params(rng)[:5], gen_params(rng)[:5]
        ops = [["new", 0, "R", a], ["bytes", 0], ["new", 1, "R", b], ["set", 0, "R", c], ["bytes", 0], ["bytes", 1],
               ["rcparse", RC[kind][1], hx(ref_rc(a)), 2], ["hostile", 2, rng.randrange(1, 13)], ["bytes", 2],
               ["rcparse", RC[kind][1], hx(ref_rc(a)), 3], ["bytes", 3], ["hostile", 1, rng.randrange(1, 13)], ["bytes", 1]]
        if params_in_range(pl) and params_in_range(pl2):
            ops += [["new", 0, "P", pl], ["bytes", 0], ["set", 0, "P", pl2], ["bytes", 0], ["decparams", hx(ref_params(pl)), 1],
                    ["hostile", 1, rng.randrange(1, 13)], ["decparams", hx(ref_params(pl)), 2], ["bytes", 2], ["bytes", 1]]
        return ops

    def cases(self, rng, tier):
        out = []
        reps = 1 if tier == "quick" else 8
        for _ in range(reps):
            for _ in range(12):
                out.append({"ops": self._gen_rc(rng)})
            for name in ALL:
                for _ in range(4):
                    out.append({"ops": self._gen_sweep(rng, name)})
                    out.append({"ops": self._gen_reparse(rng, name)})
            for _ in range(16):
                out.append({"ops": self._gen_sweep(rng, "DataChunk")})
        for _ in range(300 if tier == "quick" else 4000):
            out.append({"ops": self._gen_seq(rng, tier)})
        return out

    def model_line(self, case):
        return "sctpwire ops " + " ".join(op_token(op) for op in case["ops"])

    # -- the real objects ----------------------------------------------------------------------------------

    def _make(self, kind, v):
        if kind == "C":
            return build_chunk(v)
        if kind == "R":
            return rc_obj(v)
        return [(t, unhx(x)) for t, x in v]

    def _step(self, pool, op):
        m = _m()
        k = op[0]
        if k in ("new", "set"):
            s, kind, v = op[1], op[2], op[3]
            cur = pool.get(s)
            if k == "set" and cur is not None and cur[0] == kind:
                if kind == "C" and type(cur[1]).__name__ == v["cls"]:
                    assign_fields(cur[1], v)
                    return "done"
                if kind == "R" and RC_KIND.get(type(cur[1]).__name__) == v.split(":")[0]:
                    rc_assign(cur[1], v)
                    return "done"
                if kind == "P" and isinstance(cur[1], list):
                    cur[1][:] = [(t, unhx(x)) for t, x in v]
                    return "done"
            pool[s] = (kind, self._make(kind, v))
            return "done"
        if k == "hostile":
            cur = pool.get(op[1])
            if cur is None:
                return "skip"
            if cur[0] == "C":
                hostile_obj(cur[1], op[2])
            elif cur[0] == "R":
                hostile_rc_obj(cur[1], op[2])
            else:
                holder = type("Holder", (), {})()
                holder.l = cur[1]
                hostile_list_obj(holder, "l", op[2], _elem("param", hostile_elem("param", op[2])))
                pool[op[1]] = ("P", holder.l)
            return "done"
        if k == "ser":
            cur = pool.get(op[1])
            if cur is None or cur[0] != "C":
                return "skip"
            return guard(lambda: m.serialize_packet(op[2], op[3], op[4], cur[1]), hx)
        if k == "bytes":
            cur = pool.get(op[1])
            if cur is None:
                return "skip"
            if cur[0] == "P":
                return guard(lambda: m.encode_params(cur[1]), hx)
            return guard(lambda: bytes(cur[1]), hx)
        if k == "parse":
            box = {}

            def f():
                box["r"] = m.parse_packet(unhx(op[1]))
                return box["r"]

            out = guard(f, show_parsed)
            if out.startswith("ok "):
                for i, c in enumerate(box["r"][3]):
                    pool[op[2] + i] = ("C", c)
            return out
        if k == "decparams":
            box = {}

            def f():
                box["r"] = m.decode_params(unhx(op[1]))
                return box["r"]

            out = guard(f, show_params)
            if out.startswith("ok "):
                pool[op[2]] = ("P", box["r"])
            return out
        if k == "rcparse":
            cls = m.RECONFIG_PARAM_TYPES.get(op[1])
            if cls is None:
                return "none"
            box = {}

            def f():
                box["r"] = cls.parse(unhx(op[2]))
                return box["r"]

            out = guard(f, rc_show)
            if out.startswith("ok "):
                pool[op[3]] = ("R", box["r"])
            return out
        raise ValueError("unknown op " + str(k))

    def _impl(self, case):
        pool = {}
        return " ; ".join(self._step(pool, op) for op in case["ops"])

    # -- the property on the implementation's observations ------------------------------------------------------

    def _expect_bytes(self, kind, v):
        if kind == "C":
            return "ok " + hx(ref_chunk(v)) if spec_in_range(v) else "crash struct.error"
        if kind == "R":
            return "ok " + hx(ref_rc(v)) if rc_in_range(v) else "crash struct.error"
        return "ok " + hx(ref_params(v)) if params_in_range(v) else "crash struct.error"

    def oracle(self, case, impl_out):
        ops = case["ops"]
        outs = impl_out.split(" ; ")
        if len(outs) != len(ops) or "HARNESS-EXC" in impl_out:
            return None  # the harness could not drive the implementation: reported through the correspondence
        mirror = {}
        seen = {}
        hist = lambda i: "; ".join(f"{j + 1}. {op_desc(ops[j])}" for j in range(i + 1))

        def fail(i, msg):
            return f"step {i + 1} of {len(ops)}: {msg}  [sequence: {hist(i)[:900]}]"

        for i, (op, out) in enumerate(zip(ops, outs)):
            k = op[0]
            if k in ("new", "set"):
                mirror[op[1]] = (op[2], op[3])
            elif k == "hostile":
                cur = mirror.get(op[1])
                if cur is not None:
                    if cur[0] == "C":
                        mirror[op[1]] = ("C", hostile_spec(cur[1], op[2]))
                    elif cur[0] == "R":
                        mirror[op[1]] = ("R", hostile_rc_spec(cur[1], op[2]))
                    else:
                        mirror[op[1]] = ("P", hostile_list_spec(op[2], hostile_elem("param", op[2]), cur[1]))
            elif k == "ser":
                cur = mirror.get(op[1])
                if cur is None or cur[0] != "C":
                    continue
                ok = header_in_range(op[2], op[3], op[4]) and spec_in_range(cur[1])
                want = "ok " + hx(ref_packet(op[2], op[3], op[4], [cur[1]])) if ok else "crash struct.error"
                if out != want:
                    return fail(i, f"serialize_packet gave {out[:160]} but the object's fields are {spec_str(cur[1])[:160]} "
                                   f"whose wire image is {want[:160]}")
            elif k == "bytes":
                cur = mirror.get(op[1])
                if cur is None:
                    continue
                want = self._expect_bytes(*cur)
                if out != want:
                    return fail(i, f"bytes(obj) gave {out[:160]} but the object's fields are {val_str(*cur)[:160]} "
                                   f"whose wire image is {want[:160]}")
            else:
                key = (k, op[1]) if k != "rcparse" else (k, op[1], op[2])
                if key in seen and seen[key] != out:
                    return fail(i, f"the same bytes were parsed before in this sequence and gave {seen[key][:200]}, now {out[:200]}")
                seen[key] = out
                if k == "parse":
                    note = op[3]
                    if note is not None and header_in_range(note["sp"], note["dp"], note["tag"]) and all(
                            spec_in_range(x) for x in note["specs"]) and ref_packet(
                            note["sp"], note["dp"], note["tag"], note["specs"]) == unhx(op[1]):
                        want = f"ok {note['sp']} {note['dp']} {note['tag']} " + ("|".join(spec_str(x) for x in note["specs"]) or "-")
                        if out != want:
                            return fail(i, f"the packet is the wire image of {want[3:200]} but parse_packet gave {out[:200]}")
                    if out.startswith("ok "):
                        try:
                            toks = out.split(" ")[4]
                            parsed = [] if toks == "-" else [spec_from_str(t) for t in toks.split("|")]
                        except Exception:
                            return None
                        for j, x in enumerate(parsed):
                            mirror[op[2] + j] = ("C", x)
                    elif out != "ValueError":
                        return fail(i, f"parse_packet → {out} (must return or raise ValueError)")
                elif k == "decparams":
                    if out.startswith("ok "):
                        t = out[3:]
                        mirror[op[2]] = ("P", [] if t == "-" else [[int(a.split("/")[0]), a.split("/")[1]] for a in t.split(",")])
                    elif out != "ValueError":
                        return fail(i, f"decode_params → {out}")
                else:
                    if out.startswith("ok "):
                        mirror[op[3]] = ("R", out[3:])
                    elif out not in ("ValueError", "none"):
                        return fail(i, f"parameter parse → {out}")
        return None

    def label(self, case, impl_out):
        # the pattern that matters: was a slot serialised AFTER it had been overwritten / modified, were bytes parsed
        # AFTER an earlier result had been modified?
        reuse = reparse = False
        touched = set()
        for op in case["ops"]:
            if op[0] in ("set", "hostile"):
                touched.add(op[1])
            elif op[0] in ("ser", "bytes") and op[1] in touched:
                reuse = True
            elif op[0] in ("parse", "decparams", "rcparse") and touched:
                reparse = True
        cls = sorted({op[3]["cls"] for op in case["ops"] if op[0] in ("new", "set") and op[2] == "C"}
                     | {x["cls"] for op in case["ops"] if op[0] == "parse" and op[3] for x in op[3]["specs"]})
        fam = cls[0] if len(cls) == 1 else "mixed" if cls else "other"
        return fam + ":" + ("+".join(n for n, b in (("reuse", reuse), ("reparse", reparse)) if b) or "single")

    def shrink(self, case):
        ops = case["ops"]
        out = []
        n = len(ops)
        if n > 2:
            out.append({"ops": ops[: n // 2]})
            out.append({"ops": ops[n // 2:]})
        for i in range(n - 1, -1, -1):
            out.append({"ops": ops[:i] + ops[i + 1:]})
        for i, op in enumerate(ops):
            if op[0] in ("new", "set") and op[2] == "C":
                for s_ in shrink_spec(op[3]):
                    out.append({"ops": ops[:i] + [[op[0], op[1], "C", s_]] + ops[i + 1:]})
            elif op[0] == "set":
                out.append({"ops": ops[:i] + [["new"] + op[1:]] + ops[i + 1:]})
            elif op[0] == "hostile" and op[2] > 3:
                for k in (1, 2, 3):
                    out.append({"ops": ops[:i] + [["hostile", op[1], k]] + ops[i + 1:]})
            elif op[0] == "ser" and (op[2] or op[3] or op[4]):
                out.append({"ops": ops[:i] + [["ser", op[1], 0, 0, 0]] + ops[i + 1:]})
            elif op[0] == "parse" and op[3] is not None:
                note = op[3]
                cands = []
                if len(note["specs"]) > 1:
                    for j in range(len(note["specs"])):
                        cands.append(note["specs"][:j] + note["specs"][j + 1:])
                for j, x in enumerate(note["specs"]):
                    for s_ in shrink_spec(x):
                        cands.append(note["specs"][:j] + [s_] + note["specs"][j + 1:])
                for specs in cands:
                    if not all(spec_in_range(x) for x in specs):
                        continue
                    nn = dict(note, specs=specs)
                    nd = hx(ref_packet(note["sp"], note["dp"], note["tag"], specs))
                    # every parse of these bytes in the sequence is replaced consistently
                    out.append({"ops": [[o[0], nd, o[2], nn] if (o[0] == "parse" and o[1] == op[1]) else o for o in ops]})
        return out


def components(tier):
    return [Crc(), Roundtrip(), Params(), Reconfig(), Parse(), Ops(), Burst()]


def classify_finding(finding, comp_name, case, what):
    """C08-crc-straddle: the burst alters bits inside the checksum field (64..95) AND bits outside it."""
    clf = finding.get("classifier", {})
    if clf.get("kind") == "burst-straddles-checksum" and comp_name == "burst":
        try:
            b = Burst().burst(case)
        except Exception:
            return False
        return b is not None and straddles(*b)
    return False
